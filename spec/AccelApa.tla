------------------------------ MODULE AccelApa ------------------------------
(* Apalache-typed restatement of Accelerator.tla without the history variable: *)
(* the step properties (locked energies kept, raising calls change nothing,    *)
(* match agrees) are checked for ARBITRARY integer energies, not a finite set. *)
EXTENDS Integers
VARIABLES
  \* @type: Str -> Int;
  en,
  \* @type: Str -> Bool;
  lock,
  \* @type: Bool;
  ok
Objs == {"a", "b"}
Other(x) == IF x = "a" THEN "b" ELSE "a"
Init == /\ en \in [Objs -> Int] /\ \A o \in Objs : en[o] >= 0
        /\ lock \in [Objs -> BOOLEAN] /\ ok = TRUE
Set(x, v) == /\ v >= 0
             /\ LET raised == lock[x]
                    en2 == IF raised THEN en ELSE [en EXCEPT ![x] = v] IN
                  /\ en' = en2
                  /\ ok' = (ok /\ (lock[x] => en2[x] = en[x]))
             /\ UNCHANGED lock
Match(x, chk) ==
  LET y == Other(x)
      mismatch == en[x] # 0 /\ en[y] # 0 /\ en[x] # en[y]
      raised == (chk /\ mismatch) \/ (en[y] = 0 /\ lock[y]) \/ (en[y] # 0 /\ en[x] # en[y] /\ lock[x])
      en2 == IF raised THEN en ELSE IF en[y] = 0 THEN [en EXCEPT ![y] = en[x]] ELSE [en EXCEPT ![x] = en[y]] IN
  /\ en' = en2
  /\ ok' = (ok /\ (\A o \in Objs : lock[o] /\ en[o] # 0 => en2[o] = en[o])
               /\ (raised => en2 = en)
               /\ (~raised => (en2[x] = en2[y])))
  /\ UNCHANGED lock
Next == (\E x \in Objs : \E v \in Int : Set(x, v)) \/ (\E x \in Objs, chk \in BOOLEAN : Match(x, chk))
MachineOK == ok
\* inductive: ok is preserved by every step from ANY state with non-negative energies
IndInit == /\ en \in [Objs -> Int] /\ \A o \in Objs : en[o] >= 0
           /\ lock \in [Objs -> BOOLEAN] /\ ok = TRUE
IndInv == ok /\ \A o \in Objs : en[o] >= 0
=============================================================================
