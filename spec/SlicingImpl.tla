----------------------------- MODULE SlicingImpl -----------------------------
(* Implementation-shaped model of slicing.SliceIndexedAtoms: bin edges are the *)
(* cumulative thicknesses nudged down by an infinitesimal, labels =            *)
(* digitize(z, edges) = number of edges <= z, atoms with label k go to slice k *)
(* (0-based).  TLC enumerates every height, slicing (all compositions) and     *)
(* atom height on the quarter lattice and checks exactly-one / boundary-upper. *)
EXTENDS Slicing, TLC, Json
CONSTANTS MaxH, Emit
VARIABLES c, done
vars == <<c, done>>
RECURSIVE Compositions(_)
Compositions(n) == IF n = 0 THEN {<< >>} ELSE UNION {{<<k>> \o t : t \in Compositions(n - k)} : k \in 1..n}
(* thicknesses in quarter units: multiples of 2 (half units) keep the enumeration small *)
Slicings(H) == {[i \in 1..Len(cmp) |-> 2 * cmp[i]] : cmp \in Compositions(H)}
Digitize(th, z) == Cardinality({k \in 1..Len(th) : Edge(th, k) <= z})      \* edges - eps <= z  <=>  edge <= z on the lattice
Init == /\ \E H \in 1..MaxH : \E th \in Slicings(H) : c = [height |-> 2 * H, th |-> th]
        /\ done = FALSE
Next == ~done /\ done' = TRUE /\ UNCHANGED c
Spec == Init /\ [][Next]_vars
Heights == 0..(c.height - 1)
ExactlyOneSlice == \A z \in Heights : Digitize(c.th, z) \in 0..(Len(c.th) - 1)
BoundaryGoesUp == \A z \in Heights : Digitize(c.th, z) + 1 = SliceOf(c.th, z)
SumsToHeight == SumSeq(c.th) = c.height
EmitCase == (Emit /\ done) => PrintT(<<"CASE", ToJson(c)>>)
=============================================================================
