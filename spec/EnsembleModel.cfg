SPECIFICATION Spec
CONSTANTS
  MaxLen = 4
  Ranks = {1, 2}
  Emit = FALSE
INVARIANT ModelOK
CHECK_DEADLOCK FALSE
