SPECIFICATION Spec
CONSTANTS
  MaxMembers = 3
  MaxSlices = 4
  Emit = FALSE
INVARIANT BuildCorrect
INVARIANT WindowCorrect
CHECK_DEADLOCK FALSE
