---------------------------- MODULE EnsembleModel ----------------------------
(* Enumerates every (shape, chunking) within the bounds: a chunking is one    *)
(* composition of the axis length per axis (what validate_chunks can return). *)
(* For each, the model splits an identity ensemble with chunk_ranges          *)
(* (transcribed in Chunks/Ensemble) and reassembles it; TLC checks that the   *)
(* model's own blocks satisfy the property-level predicate, and emits the     *)
(* cases for the real ensemble kinds.                                         *)
EXTENDS Ensemble, TLC, Json
CONSTANTS MaxLen, Ranks, Emit
VARIABLES shape, chunks, done
vars == <<shape, chunks, done>>

RECURSIVE Compositions(_)
Compositions(n) == IF n = 0 THEN {<< >>} ELSE UNION {{<<k>> \o t : t \in Compositions(n - k)} : k \in 1..n}
RECURSIVE ChunkingsOf(_)
ChunkingsOf(sh) == IF sh = << >> THEN {<< >>} ELSE {<<c>> \o t : c \in Compositions(Head(sh)), t \in ChunkingsOf(Tail(sh))}

Init == /\ \E r \in Ranks : \E sh \in [1..r -> 1..MaxLen] : shape = sh /\ chunks \in ChunkingsOf(sh)
        /\ done = FALSE
Next == ~done /\ done' = TRUE /\ UNCHANGED <<shape, chunks>>
Spec == Init /\ [][Next]_vars

Members == [d \in 1..Len(shape) |-> [i \in 1..shape[d] |-> 100 * d + i]]
ModelBlocks == LET S == BlockIndexSet(chunks) IN
   {[idx |-> idx,
     axes |-> [d \in 1..Len(shape) |-> LET r == RangesOf(chunks[d])[idx[d]] IN SubSeq(Members[d], r[1] + 1, r[2])],
     slices |-> [d \in 1..Len(shape) |-> RangesOf(chunks[d])[idx[d]]]] : idx \in S}
(* reassembly along axis d: concatenating the blocks' axis-d members in block order gives the axis back *)
RECURSIVE ConcatAxis(_, _, _)
ConcatAxis(d, i, n) == IF i > n THEN << >> ELSE
    LET r == RangesOf(chunks[d])[i] IN SubSeq(Members[d], r[1] + 1, r[2]) \o ConcatAxis(d, i + 1, n)
ModelOK == /\ Partitions(shape, chunks)
           /\ \A b \in ModelBlocks : BlockOK(Members, chunks, b) /\ SlicesOK(chunks, b)
           /\ \A d \in 1..Len(shape) : ConcatAxis(d, 1, Len(chunks[d])) = Members[d]
           /\ Cardinality(ModelBlocks) = Cardinality(BlockIndexSet(chunks))
EmitCase == (Emit /\ done) => PrintT(<<"CASE", ToJson([shape |-> shape, chunks |-> chunks])>>)
=============================================================================
