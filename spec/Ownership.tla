------------------------------ MODULE Ownership ------------------------------
(* Property-level specification of C32: public calls leave caller-owned inputs *)
(* unchanged (a frame condition).  A call event carries the interned snapshot  *)
(* of the input before and after the call.                                     *)
EXTENDS Integers, Sequences, FiniteSets, TLC, Json
AtomsCallees == {"orthogonalize_cell", "standardize_cell", "Potential", "Potential.build", "FrozenPhonons", "FrozenPhonons.iterate",
                 "FrozenPhonons.iterate(per-element sigmas)", "FrozenPhonons.iterate(anisotropic sigmas)", "FrozenPhonons.iterate(per-atom sigmas)",
                 "FrozenPhonons.iterate(zero sigmas)", "FrozenPhonons.iterate(one configuration)", "Potential.build(finite)", "Potential.project",
                 "StructureFactor", "BlochWaves", "PlaneWave.multislice", "Probe.multislice"}
AtomsKinds == {"orthogonal", "hexagonal", "outside_cell", "offdiagonal_noise", "with_constraints", "non_pbc"}
MeasurementTypes == {"Images", "DiffractionPatterns", "RealSpaceLineProfiles", "PolarMeasurements"}
CallFails(ev) ==
     (IF ev.before = ev.after THEN {} ELSE {IF ev.target = "atoms" THEN "caller_atoms_modified" ELSE "receiver_modified"})
(* a call may raise (unsupported input); the frame condition holds regardless *)

CONSTANTS Emit
VARIABLES c, done
vars == <<c, done>>
Init == /\ (\E f \in AtomsCallees, k \in AtomsKinds : c = [target |-> "atoms", callee |-> f, kind |-> k])
           \/ (\E t \in MeasurementTypes, cx \in BOOLEAN, lz \in BOOLEAN : c = [target |-> "measurement", callee |-> t, kind |-> <<cx, lz>>])
        /\ done = FALSE
Next == ~done /\ done' = TRUE /\ UNCHANGED c
Spec == Init /\ [][Next]_vars
EmitCase == (Emit /\ done) => PrintT(<<"CASE", ToJson(c)>>)
=============================================================================
