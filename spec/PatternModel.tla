---------------------------- MODULE PatternModel ----------------------------
(* Implementation-shaped model of the pattern pipeline: FFT order -> fft_crop  *)
(* (the k-th-to-k-th mask copy of FourierImpl) -> optional fftshift, composed  *)
(* per axis; TLC checks the composed index map against Pattern!AxisMapOK for   *)
(* every n, n2 <= n and both layouts, the shift algebra                        *)
(* IfftShift(FftShift(x)) = x for odd and even sizes, and emits the scenario   *)
(* space (sizes, max_angle class, parity, layout, block radii).                *)
EXTENDS Pattern, TLC, Json
CONSTANTS MaxN, Emit
VARIABLES c, done
vars == <<c, done>>
Head_(n, k) == {i \in 0..(n - 1) : i < k}
Tail_(n, k) == IF k = 0 THEN 0..(n - 1) ELSE {i \in 0..(n - 1) : i >= n - k}
HalfMask(n, m) == IF m = 1 THEN {0} ELSE IF m % 2 = 0 THEN Head_(n, m \div 2) \cup Tail_(n, m \div 2)
                  ELSE Head_(n, m \div 2 + 1) \cup Tail_(n, -((-m) \div 2) - 1)
RECURSIVE SortedSeq(_)
SortedSeq(S) == IF S = {} THEN << >> ELSE LET m == CHOOSE x \in S : \A y \in S : x <= y IN <<m>> \o SortedSeq(S \ {m})
(* unshifted position of input index a after cropping n -> n2 (or -1) *)
CropPos(n, n2, a) == IF n2 = n THEN a ELSE
   LET s1 == SortedSeq(HalfMask(n, n2)) IN IF a \in HalfMask(n, n2) THEN (CHOOSE k \in 1..Len(s1) : s1[k] = a) - 1 ELSE -1
FftShiftPos(n, q) == (q + n \div 2) % n            \* numpy.fft.fftshift moves index q to (q + n//2) mod n
IfftShiftPos(n, q) == (q + (n + 1) \div 2) % n     \* numpy.fft.ifftshift
ModelMap(n, n2, shifted) == [a \in 1..n |-> LET q == CropPos(n, n2, a - 1) IN IF q = -1 THEN -1 ELSE IF shifted THEN FftShiftPos(n2, q) ELSE q]
Init == /\ \/ \E n \in 2..MaxN, n2 \in 1..MaxN, sh \in BOOLEAN : n2 <= n /\ c = [k |-> "crop", n |-> n, n2 |-> n2, shifted |-> sh]
           \/ \E nx \in {8, 9}, ny \in {8, 9, 12}, ang \in {"full", "cutoff", "valid", "a", "b", "edge", "beyond"}, par \in {"same", "odd", "even"}, sh \in BOOLEAN :
                c = [k |-> "scenario", n |-> <<nx, ny>>, angle |-> ang, parity |-> par, shifted |-> sh]
        /\ done = FALSE
Next == ~done /\ done' = TRUE /\ UNCHANGED c
Spec == Init /\ [][Next]_vars
MapOK == c.k = "crop" => AxisMapOK(c.n, c.n2, c.shifted, ModelMap(c.n, c.n2, c.shifted))
ShiftInverse == c.k = "crop" => \A q \in 0..(c.n - 1) : IfftShiftPos(c.n, FftShiftPos(c.n, q)) = q
(* fftshift is NOT its own inverse for odd sizes: the reason unshifted coordinates need ifftshift *)
FftShiftTwiceOnlyEven == c.k = "crop" => ((\A q \in 0..(c.n - 1) : FftShiftPos(c.n, FftShiftPos(c.n, q)) = q) <=> c.n % 2 = 0)
EmitCase == (Emit /\ done /\ c.k = "scenario") => PrintT(<<"CASE", ToJson(c)>>)
=============================================================================
