------------------------------- MODULE Ptycho -------------------------------
(* Property-level specification of the ptychographic operators (property C28).  *)
(* C28: "The Fourier projection returns an exit wave whose Fourier amplitude    *)
(* equals the measured amplitude while keeping the input phase, and applying it *)
(* twice changes nothing; with the true object and probe the r-PIE update       *)
(* leaves both unchanged and reports zero error.  Converting J explicit scan    *)
(* positions to pixels yields J positions in the same order."                   *)
(*                                                                              *)
(* Numeric observations are made by the harness with numpy on the arrays the    *)
(* real operators return and are logged as integers (parts per billion of the   *)
(* relevant scale); positions are logged as exact rationals.  Clauses whose     *)
(* name starts with "growth_" describe behaviour the statement does not mention *)
(* (order of the reconstruction loop, raster scans, window indices): the        *)
(* harness reports them as model drift, never as a violation.                   *)
EXTENDS Integers, Sequences, FiniteSets, Rational

TolSingle == 50000     \* 5e-5: complex64 operands
TolDouble == 100       \* 1e-7: complex128 operands
Tol(ev) == IF ev.double THEN TolDouble ELSE TolSingle

(* ---------------------------------------------------------------- Fourier projection *)
(* amp_ppb   : max | |F(out)| - A | / max A            (mixed state: |F(out)| is the incoherent sum over the states)   *)
(* phase_ppb : max |F(out)/|F(out)| - F(in)/|F(in)||  over the pixels where both A and |F(in)| exceed 1e-3 of their max *)
(* idem_ppb  : max |Proj(Proj(in)) - Proj(in)| / max |Proj(in)|                                                         *)
(* finite    : every value of Proj(in) and of Proj(Proj(in)) is a finite number.  For an exit wave that vanishes identically there is   *)
(*             no phase to keep (and, for several incoherent states, no way to share the amplitude): the harness then logs amp_ppb =  *)
(*             phase_ppb = 0 and only finiteness and idempotence are judged                                                          *)
ProjFails(ev) ==
  IF ev.raised THEN {"raised"}
  ELSE IF ~ev.finite THEN {"projection_returns_finite_values"}
  ELSE (IF ev.amp_ppb <= Tol(ev) THEN {} ELSE {"fourier_amplitude_equals_measured"})
  \cup (IF ev.phase_ppb <= Tol(ev) THEN {} ELSE {"fourier_phase_kept"})
  \cup (IF ev.idem_ppb <= Tol(ev) THEN {} ELSE {"projection_idempotent"})
  \cup (IF ev.at_truth /\ ev.sse_ppb > Tol(ev) THEN {"zero_error_at_truth"} ELSE {})

(* ---------------------------------------------------------------- r-PIE update at the fixed point *)
(* obj_ppb / probe_ppb : max change of the object / probe relative to its maximum modulus; sse_ppb: the reported error x 1e9 *)
UpdateFails(ev) ==
  IF ev.raised THEN {"raised"}
  ELSE (IF ev.obj_ppb <= Tol(ev) THEN {} ELSE {"object_unchanged_at_truth"})
  \cup (IF ev.probe_ppb <= Tol(ev) THEN {} ELSE {"probe_unchanged_at_truth"})
  \cup (IF ev.sse_ppb <= Tol(ev) THEN {} ELSE {"zero_error_at_truth"})

(* ---------------------------------------------------------------- explicit positions -> pixels *)
(* ev.pin: sequence of <<x, y>> (exact rationals, Angstrom); ev.pout_c: the returned pixel positions in hundredths of a pixel    *)
(* (integers, rounded by the harness); ev.sampling = <<sx, sy>> rationals; ev.rot in {"none","zero","other"}                     *)
C100(a) == RMul(a, RInt(100))
Within(x, r, tol) == RLe(RAbs(RSub(RInt(x), r)), RInt(tol))         \* integer x within tol of the rational r
DeltaIn(p, i, j) == <<RSub(p[i][1], p[j][1]), RSub(p[i][2], p[j][2])>>
SameOrder(ev) ==
  \A i \in 1..Len(ev.pin) : \A j \in 1..Len(ev.pin) :
     LET din == DeltaIn(ev.pin, i, j)
         ox == ev.pout_c[i][1] - ev.pout_c[j][1]
         oy == ev.pout_c[i][2] - ev.pout_c[j][2]
         ex == C100(RDiv(din[1], ev.sampling[1]))
         ey == C100(RDiv(din[2], ev.sampling[2])) IN
     IF ev.rot \in {"none", "zero"}
     THEN Within(ox, ex, 2) /\ Within(oy, ey, 2)
     ELSE \* a rotation is a rigid motion of the pixel coordinates: distances between the items are kept
          ev.sampling[1] # ev.sampling[2] \/
          Within(ox * ox + oy * oy, RAdd(RMul(ex, ex), RMul(ey, ey)), 8)
          \/ RLe(RAbs(RSub(RInt(ox * ox + oy * oy), RAdd(RMul(ex, ex), RMul(ey, ey)))), RMul(RInt(6), RAdd(RAbs(ex), RAbs(ey))))
PositionsFails(ev) ==
  IF ev.raised THEN {"raised"}
  ELSE IF ev.explicit
       THEN (IF ev.count = Len(ev.pin) THEN {} ELSE {"explicit_positions_count"})
       \cup (IF ev.count = Len(ev.pin) /\ Len(ev.pout_c) = Len(ev.pin) /\ ~SameOrder(ev) THEN {"explicit_positions_order"} ELSE {})
       ELSE \* raster scan built from grid_scan_shape x scan_step_sizes (not part of the statement)
            (IF ev.count = ev.nx * ev.ny THEN {} ELSE {"growth_raster_count"})
       \cup (IF ev.count = ev.nx * ev.ny /\ Len(ev.pout_c) = ev.count /\ ev.rot \in {"none", "zero"} /\
                ~(\A i \in 0..(ev.nx - 1) : \A k \in 0..(ev.ny - 1) :
                     LET o == ev.pout_c[i * ev.ny + k + 1]
                         z == ev.pout_c[1] IN
                     /\ Within(o[1] - z[1], C100(RDiv(RMul(RInt(i), ev.step[1]), ev.sampling[1])), 2)
                     /\ Within(o[2] - z[2], C100(RDiv(RMul(RInt(k), ev.step[2]), ev.sampling[2])), 2))
             THEN {"growth_raster_order"} ELSE {})

(* ---------------------------------------------------------------- window indices (growth) *)
(* one axis: ev.idx = the n indices returned for centre c (ev.c2 = 2c, integer), array length s *)
Mod(a, s) == ((a % s) + s) % s
WindowFails(ev) ==
  LET n == Len(ev.idx) IN
    (IF n = ev.n THEN {} ELSE {"growth_window_length"})
  \cup (IF \A i \in 1..n : ev.idx[i] \in 0..(ev.s - 1) THEN {} ELSE {"growth_window_in_range"})
  \cup (IF \A i \in 1..(n - 1) : ev.idx[i + 1] = Mod(ev.idx[i] + 1, ev.s) THEN {} ELSE {"growth_window_contiguous"})
  \cup (IF n > ev.s \/ Cardinality({ev.idx[i] : i \in 1..n}) = n THEN {} ELSE {"growth_window_distinct"})
  \cup (IF n = 0 THEN {} ELSE
        LET centre == ev.idx[(n \div 2) + 1] IN       \* the pixel under the window centre is a rounding of c (either mode)
        IF centre = Mod(ev.c2 \div 2, ev.s) \/ centre = Mod((ev.c2 + 1) \div 2, ev.s) THEN {} ELSE {"growth_window_centred"})

(* ---------------------------------------------------------------- the reconstruction loop (growth) *)
(* Events recorded by wrapping the operator's own step functions during a real reconstruct():                      *)
(* Begin(J, iters, nonempty, pre_pos, pre_probe), Overlap(j), Fourier(j), Update(j, fix_probe, pc), End.           *)
(* Update events additionally carry the fixed-point observations when the run starts at the truth.                *)
InitLoop == [open |-> FALSE, J |-> 0, iters |-> 0, nonempty |-> {}, it |-> 0, visited |-> {}, phase |-> "idle", cur |-> 0,
             prepos |-> -1, preprobe |-> -1, steps |-> 0, truth |-> FALSE, allfull |-> TRUE]
AsSet(s) == {s[i] : i \in 1..Len(s)}
LoopFails(ls, ev) ==
  CASE ev.e = "Begin" -> IF ls.open THEN {"growth_begin_inside_run"} ELSE {}
    [] ev.e = "Overlap" ->
         (IF ls.open /\ ls.phase = "idle" THEN {} ELSE {"growth_overlap_out_of_order"})
    \cup (IF ev.j \in ls.nonempty THEN {} ELSE {"growth_empty_pattern_processed"})
    \cup (IF ls.visited = ls.nonempty \/ ev.j \notin ls.visited THEN {} ELSE {"growth_pattern_visited_twice_in_iteration"})
    [] ev.e = "Fourier" -> IF ls.phase = "overlapped" /\ ev.j = ls.cur THEN {} ELSE {"growth_fourier_out_of_order"}
    [] ev.e = "Update" ->
         (IF ls.phase = "projected" /\ ev.j = ls.cur THEN {} ELSE {"growth_update_out_of_order"})
    \cup (IF ls.preprobe < 0 /\ ev.fix_probe THEN {"growth_probe_fixed_without_request"} ELSE {})
    \cup (IF ls.preprobe >= 0 /\ ls.allfull /\ ev.fix_probe # (ls.steps < ls.preprobe) THEN {"growth_probe_correction_schedule"} ELSE {})
    \cup (IF ls.allfull /\ ev.pc # (ls.prepos >= 0 /\ ls.steps >= ls.prepos) THEN {"growth_position_correction_schedule"} ELSE {})
    \cup (IF ls.truth THEN UpdateFails(ev) ELSE {})
    [] ev.e = "End" ->
         (IF ls.open /\ ls.phase = "idle" THEN {} ELSE {"growth_run_ended_mid_step"})
    \cup (IF ls.steps = ls.iters * Cardinality(ls.nonempty) THEN {} ELSE {"growth_each_pattern_once_per_iteration"})
    [] OTHER -> {"unknown_event"}
NextLoop(ls, ev) ==
  CASE ev.e = "Begin" -> [InitLoop EXCEPT !.open = TRUE, !.J = ev.J, !.iters = ev.iters, !.nonempty = AsSet(ev.nonempty),
                                          !.prepos = ev.pre_pos, !.preprobe = ev.pre_probe, !.truth = ev.truth,
                                          !.allfull = (Cardinality(AsSet(ev.nonempty)) = ev.J)]
    [] ev.e = "Overlap" -> [ls EXCEPT !.phase = "overlapped", !.cur = ev.j,
                                      !.visited = IF ls.visited = ls.nonempty THEN {ev.j} ELSE ls.visited \cup {ev.j}]
    [] ev.e = "Fourier" -> [ls EXCEPT !.phase = "projected"]
    [] ev.e = "Update" -> [ls EXCEPT !.phase = "idle", !.steps = ls.steps + 1]
    [] ev.e = "End" -> [ls EXCEPT !.open = FALSE]
    [] OTHER -> ls
=============================================================================
