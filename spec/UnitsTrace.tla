----------------------------- MODULE UnitsTrace -----------------------------
(* Trace specification for C33.  One trace = one path of units a -> b -> ...   *)
(* walked on the real code twice: with get_conversion_factor and with          *)
(* LinearAxis.convert_units.  For every prefix of the path the harness logs    *)
(* the relative deviation (parts per billion) between the chained conversion   *)
(* and the direct conversion from the first unit; the spec decides the laws.   *)
EXTENDS Units, Json, IOUtils, TLC

Traces == JsonDeserialize(IOEnv.TRACE_FILE)
Tol == 1000        \* 1e-6 relative, in ppb (double precision round-off is ~1e-7 ppb)
VARIABLES tid, l, bad
tvars == <<tid, l, bad>>

(* ev: [path, chain_raised, direct_raised, factor_ppb, sampling_ppb, offset_ppb, back_ppb] *)
EvFails(ev) ==
     (IF \A i \in 1..Len(ev.path) : ev.path[i] \in Categories[CategoryOf(ev.path[1])] THEN {} ELSE {"category"})
\cup (IF ev.chain_raised = ev.direct_raised THEN {} ELSE {"raise_mismatch"})
\cup (IF ev.chain_raised \/ ev.direct_raised THEN {}
      ELSE (IF ev.factor_ppb <= Tol THEN {} ELSE {"compose_factor"})
      \cup (IF ev.sampling_ppb <= Tol /\ ev.offset_ppb <= Tol THEN {} ELSE {"compose_axis"})
      \cup (IF ev.path[Len(ev.path)] # ev.path[1] \/ ev.back_ppb <= Tol THEN {} ELSE {"invert"}))

TInit == tid \in 1..Len(Traces) /\ l = 1 /\ bad = <<>>
TNext == /\ l <= Len(Traces[tid])
         /\ LET f == EvFails(Traces[tid][l]) IN bad' = IF f = {} THEN bad ELSE Append(bad, <<l, f>>)
         /\ l' = l + 1 /\ UNCHANGED tid
TSpec == TInit /\ [][TNext]_tvars
Verdict == (l > Len(Traces[tid])) => PrintT(<<"V", tid, bad>>)
=============================================================================
