----------------------------- MODULE BlochTrace -----------------------------
(* Trace validation for C26 and C27: every recorded line is judged by Bloch!Fails. *)
EXTENDS Integers, Sequences, FiniteSets, TLC, Json, IOUtils
T == INSTANCE Bloch WITH Emit <- FALSE, c <- 0, done <- FALSE
Traces == JsonDeserialize(IOEnv.TRACE_FILE)
VARIABLES tid, l, bad
tvars == <<tid, l, bad>>
TInit == tid \in 1..Len(Traces) /\ l = 1 /\ bad = << >>
TNext == /\ l <= Len(Traces[tid])
         /\ LET f == T!Fails(Traces[tid][l]) IN bad' = IF f = {} THEN bad ELSE Append(bad, <<l, f>>)
         /\ l' = l + 1 /\ UNCHANGED tid
TSpec == TInit /\ [][TNext]_tvars
Verdict == (l > Len(Traces[tid])) => PrintT(<<"V", tid, bad>>)
=============================================================================
