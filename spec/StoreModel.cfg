SPECIFICATION Spec
CONSTANTS
  Depth = 1
  MaxWidth = 2
  Emit = FALSE
INVARIANT CodecOK
CHECK_DEADLOCK FALSE
