------------------------------ MODULE DistImpl ------------------------------
(* Implementation-shaped model of distributions.uniform / gaussian value grids *)
(* (np.linspace transcribed) and of divide(); TLC enumerates every parameter   *)
(* combination in the bounds, checks the Distributions.tla value predicates on *)
(* the model's grids and emits the cases.                                      *)
EXTENDS Distributions, TLC, Json
CONSTANTS Lattice,      \* rationals for lo / hi / center
          Sigmas, Limits, MaxN, Emit
VARIABLES c, done
vars == <<c, done>>

Lin(lo, hi, n, endpoint) == [i \in 1..n |-> IF n = 1 THEN lo
                              ELSE RAdd(lo, RMul(RInt(i - 1), RDiv(RSub(hi, lo), RInt(IF endpoint THEN n - 1 ELSE n))))]
(* gaussian(): linspace(c - L*s, c + L*s, n); a single sample sits at the centre *)
GaussGrid(cen, s, L, n) == IF n = 1 THEN <<cen>> ELSE Lin(RSub(cen, RMul(L, s)), RAdd(cen, RMul(L, s)), n, TRUE)

RECURSIVE Compositions(_)
Compositions(n) == IF n = 0 THEN {<< >>} ELSE UNION {{<<k>> \o t : t \in Compositions(n - k)} : k \in 1..n}

Init == /\ \/ \E lo \in Lattice, hi \in Lattice, n \in 1..MaxN, e \in BOOLEAN :
                RLt(lo, hi) /\ c = [k |-> "uniform", lo |-> lo, hi |-> hi, n |-> n, endpoint |-> e]
           \/ \E cen \in Lattice, s \in Sigmas, L \in Limits, n \in 1..MaxN, nm \in {"intensity", "amplitude"} :
                c = [k |-> "gaussian", c |-> cen, sigma |-> s, limit |-> L, n |-> n, normalize |-> nm]
           \/ \E n \in 1..MaxN : \E ch \in Compositions(n) : c = [k |-> "divide", n |-> n, chunks |-> ch]
        /\ done = FALSE
Next == ~done /\ done' = TRUE /\ UNCHANGED c
Spec == Init /\ [][Next]_vars

GridsOK == done =>
   CASE c.k = "uniform" -> UniformValuesOK(Lin(c.lo, c.hi, c.n, c.endpoint), c.lo, c.hi, c.n, c.endpoint)
     [] c.k = "gaussian" -> LET g == GaussGrid(c.c, c.sigma, c.limit, c.n) IN
                               SymmetricAbout(g, c.c) /\ WithinLimit(g, c.c, c.sigma, c.limit)
     [] OTHER -> TRUE
EmitCase == (Emit /\ done) => PrintT(<<"CASE", ToJson(c)>>)
=============================================================================
