----------------------------- MODULE StoreModel -----------------------------
(* Implementation-shaped model of the metadata codec used by to_zarr/from_zarr *)
(* (encode_types -> JSON attributes -> decode_types): tuples are tagged as     *)
(* {"_type": "tuple", "_value": [...]}, NumPy scalars become Python scalars,   *)
(* ndarrays become lists.  TLC enumerates every value tree up to the depth     *)
(* bound, checks Decode(Json(Encode(v))) ~ v (Store!SameValue) and emits trees *)
(* that the driver puts into real metadata and axis fields.                    *)
EXTENDS Store, TLC, Json
CONSTANTS Depth, MaxWidth, Emit
VARIABLES v, done
vars == <<v, done>>

Leaves == {<<"num", 1>>, <<"num", 2>>, <<"npnum", 3>>, <<"npnum", 1>>, <<"str", 1>>, <<"bool", TRUE>>, <<"none">>,
           <<"ndarray", << <<"npnum", 1>>, <<"npnum", 2>> >> >>}
Keys == {"a", "b"}
SeqsUpTo(S, n) == UNION {[1..k -> S] : k \in 0..n}
RECURSIVE Trees(_)
Trees(d) == IF d = 0 THEN Leaves
            ELSE LET T == Trees(d - 1) IN
                 T \cup {<<"tuple", s>> : s \in SeqsUpTo(T, MaxWidth)}
                   \cup {<<"list", s>> : s \in SeqsUpTo(T, MaxWidth)}
                   \cup {<<"dict", <<<<"a", x>>>> >> : x \in T}
                   \cup {<<"dict", <<<<"a", x>>, <<"b", y>>>> >> : x \in T, y \in T}

(* encode_types *)
RECURSIVE Encode(_)
Encode(x) ==
  CASE Tag(x) = "tuple" -> <<"dict", << <<"_type", <<"str", 100>> >>, <<"_value", <<"list", [i \in 1..Len(x[2]) |-> Encode(x[2][i])]>> >> >> >>
    [] Tag(x) = "list" -> <<"list", [i \in 1..Len(x[2]) |-> Encode(x[2][i])]>>
    [] Tag(x) = "dict" -> <<"dict", [i \in 1..Len(x[2]) |-> <<x[2][i][1], Encode(x[2][i][2])>>]>>
    [] Tag(x) = "npnum" -> <<"num", x[2]>>
    [] Tag(x) = "ndarray" -> <<"list", [i \in 1..Len(x[2]) |-> <<"num", x[2][i][2]>>]>>      \* obj.tolist()
    [] OTHER -> x
(* what survives a JSON attribute store: only JSON types (a tuple would silently become a list) *)
RECURSIVE JsonPass(_)
JsonPass(x) ==
  CASE Tag(x) = "tuple" -> <<"list", [i \in 1..Len(x[2]) |-> JsonPass(x[2][i])]>>
    [] Tag(x) = "list" -> <<"list", [i \in 1..Len(x[2]) |-> JsonPass(x[2][i])]>>
    [] Tag(x) = "dict" -> <<"dict", [i \in 1..Len(x[2]) |-> <<x[2][i][1], JsonPass(x[2][i][2])>>]>>
    [] OTHER -> x
IsTupleTag(x) == Tag(x) = "dict" /\ Len(x[2]) = 2 /\ x[2][1][1] = "_type" /\ x[2][1][2] = <<"str", 100>> /\ x[2][2][1] = "_value"
(* decode_types *)
RECURSIVE Decode(_)
Decode(x) ==
  CASE Tag(x) = "dict" -> IF IsTupleTag(x) THEN <<"tuple", [i \in 1..Len(x[2][2][2][2]) |-> Decode(x[2][2][2][2][i])]>>
                          ELSE <<"dict", [i \in 1..Len(x[2]) |-> <<x[2][i][1], Decode(x[2][i][2])>>]>>
    [] Tag(x) = "list" -> <<"list", [i \in 1..Len(x[2]) |-> Decode(x[2][i])]>>
    [] OTHER -> x

Init == v \in Trees(Depth) /\ done = FALSE
Next == ~done /\ done' = TRUE /\ UNCHANGED v
Spec == Init /\ [][Next]_vars
CodecOK == SameValue(Decode(JsonPass(Encode(v))), v)
(* without the tuple tagging the property would fail: sanity check that the model can see it *)
EmitTree == (Emit /\ done) => PrintT(<<"TREE", ToJson(v)>>)
=============================================================================
