-------------------------------- MODULE Detect --------------------------------
(* Property-level specification of detector geometry (C12) on the integer      *)
(* frequency lattice.  A diffraction pixel is a pair of integer frequencies    *)
(* <<i, j>> (units of the isotropic angular sampling), its squared radius is   *)
(* i^2 + j^2; limits are rationals in the same units, chosen by the model so   *)
(* that no pixel lies exactly on a limit.  Pixels are numbered p = a * n + b   *)
(* with a, b the unshifted FFT indices.                                        *)
(* C12: "AnnularDetector(inner, outer), integrate_radial(inner, outer),        *)
(* FlexibleAnnularDetector followed by integrate_radial(inner, outer) and the  *)
(* sum over all segments of a SegmentedDetector spanning [inner, outer) give   *)
(* the same intensity.  Annular intensities are additive over adjacent ranges  *)
(* and FlexibleAnnularDetector bins have the width its axis metadata states."  *)
EXTENDS Rational, FiniteSets

Freq(n, a) == IF a < (n + 1) \div 2 THEN a ELSE a - n
R2(n, p) == LET i == Freq(n, p \div n) j == Freq(n, p % n) IN i * i + j * j
Sq(x) == RMul(x, x)
InRing(n, p, lo, hi) == RLe(Sq(lo), RInt(R2(n, p))) /\ RLt(RInt(R2(n, p)), Sq(hi))
Ring(n, lo, hi) == {p \in 0..(n * n - 1) : InRing(n, p, lo, hi)}
SeqToSet(s) == {s[k] : k \in 1..Len(s)}
IsSet(s) == Cardinality(SeqToSet(s)) = Len(s)

(* ev.sets: the pixel sets decoded from the real results (members of the one-hot ensemble with non-zero response) *)
ScenarioFails(ev) ==
  IF ev.raised THEN {"raised"}
  ELSE LET want == Ring(ev.n, ev.inner, ev.outer) IN
       (IF SeqToSet(ev.annular) = want /\ ev.annular_unit THEN {} ELSE {"annular_detector"})
  \cup (IF SeqToSet(ev.integrate_radial) = want /\ ev.integrate_unit THEN {} ELSE {"integrate_radial"})
  \cup (IF ev.flexible_applicable =>
             (SeqToSet(ev.flexible) = Ring(ev.n, ev.flex_offset, RAdd(ev.flex_offset, RMul(RInt(2), ev.flex_width))) /\ ev.flexible_unit)
        THEN {} ELSE {"flexible_then_integrate_radial"})
  \cup (IF SeqToSet(ev.segmented_sum) = want /\ ev.segmented_unit THEN {} ELSE {"segments_sum"})
  \* the same detector objects after they have detected wave functions of the same gpts and another angular sampling
  \cup (IF SeqToSet(ev.annular_reused) = want /\ SeqToSet(ev.segmented_reused) = want THEN {} ELSE {"detector_used_before_on_another_grid"})
  \cup (IF SeqToSet(ev.segmented_reassigned) = want THEN {} ELSE {"detector_limits_assigned_after_use"})
  \cup (IF SeqToSet(ev.split_low) \cup SeqToSet(ev.split_high) = want /\ SeqToSet(ev.split_low) \cap SeqToSet(ev.split_high) = {}
           /\ SeqToSet(ev.split_low) = Ring(ev.n, ev.inner, ev.mid) THEN {} ELSE {"additive_over_adjacent_ranges"})
  \* the adjacent ranges integrated one after the other from ONE pattern object (which was integrated over the whole range before)
  \cup (IF SeqToSet(ev.pattern_low) = Ring(ev.n, ev.inner, ev.mid) /\ SeqToSet(ev.pattern_high) = Ring(ev.n, ev.mid, ev.outer)
        THEN {} ELSE {"integrate_radial_additive_on_one_pattern_object"})
  \cup (IF \A k \in 1..Len(ev.flex_bins) :
             SeqToSet(ev.flex_bins[k]) = Ring(ev.n, RAdd(ev.flex_offset, RMul(RInt(k - 1), ev.flex_width)),
                                                     RAdd(ev.flex_offset, RMul(RInt(k), ev.flex_width)))
        THEN {} ELSE {"flexible_bin_width_is_the_stated_sampling"})
  \cup (IF \A k \in 1..Len(ev.flex_prefix) :
             SeqToSet(ev.flex_prefix[k]) = Ring(ev.n, ev.flex_offset, RAdd(ev.flex_offset, RMul(RInt(k), ev.flex_width)))
        THEN {} ELSE {"flexible_then_integrate_radial_over_the_first_k_bins"})
=============================================================================
