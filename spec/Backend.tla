------------------------------- MODULE Backend -------------------------------
(* Property-level specification for C38: "Simulations and measurement          *)
(* transforms give the same results (to the tolerance of the configured        *)
(* precision) whether FFTs use NumPy or FFTW with any planning effort, and     *)
(* double-precision runs agree with single-precision runs to single-precision  *)
(* accuracy."  Quantifier: all supported values of fft, fftw.planning_effort   *)
(* and precision (fftw.threads is carried along as growth).                    *)
(*                                                                             *)
(* A session is one history of configuration contexts and pipeline runs in one *)
(* process.  The result of a run may depend on the pipeline and, within the    *)
(* tolerance, on nothing else: not on the backend, the planning effort, the    *)
(* number of threads, nor on anything that happened earlier in the session     *)
(* (planner wisdom, cached plans, earlier precisions).                         *)
(* Deviations are measured by the harness against the pipeline's reference     *)
(* run (numpy, float64, fresh planner) relative to the reference maximum and   *)
(* logged as integers: dev_ppb (1e-9) and dev_ppt (1e-12, clipped).            *)
EXTENDS Integers, Sequences, FiniteSets

Ffts == {"numpy", "fftw"}
Efforts == {"FFTW_ESTIMATE", "FFTW_MEASURE", "FFTW_PATIENT", "FFTW_EXHAUSTIVE"}
Precisions == {"float32", "float64"}
Keys == {"fft", "effort", "threads", "precision"}

TolSinglePpb == 50000        \* 5e-5: single precision pipelines (measured spread on the pinned tree <= 5e-6)
(* a float64 run must agree with the float64 reference to double-precision accuracy: 1e-9 relative (measured <= 6e-15) *)
TolDouble == 1000            \* ppt

(* configuration in effect = innermost context wins (LIFO), key by key *)
Merge(base, kv) == [k \in Keys |-> IF k \in DOMAIN kv THEN kv[k] ELSE base[k]]

RunFails(cfg, ev) ==
  IF ev.raised THEN {"raised_under_supported_configuration"}
  ELSE (IF ev.input_changed THEN {"transform_modified_caller_array"} ELSE {})
  \cup (IF ev.cfg.precision = "float32" /\ ev.dev_ppb > TolSinglePpb THEN {"single_precision_agrees_with_double"} ELSE {})
  \cup (IF ev.cfg.precision = "float64" /\ ev.dev_ppt > TolDouble THEN {"backends_agree_to_configured_precision"} ELSE {})
  \cup (IF ev.cfg # cfg THEN {"growth_configuration_in_effect"} ELSE {})
  \cup (IF ev.dtype_follows_precision THEN {} ELSE {"growth_dtype_follows_precision"})

(* session machine *)
InitSession == [open |-> FALSE, stack |-> << >>]
Top(s) == s.stack[Len(s.stack)]
SessionFails(s, ev) ==
  CASE ev.e = "Begin" -> IF s.open THEN {"growth_begin_inside_session"} ELSE {}
    [] ev.e = "Enter" -> IF s.open THEN {} ELSE {"growth_enter_outside_session"}
    [] ev.e = "Exit" -> IF s.open /\ Len(s.stack) > 1 THEN {} ELSE {"growth_exit_without_enter"}
    [] ev.e = "Run" -> IF s.open THEN RunFails(Top(s), ev) ELSE {"growth_run_outside_session"}
    [] ev.e = "End" -> IF s.open /\ Len(s.stack) = 1 THEN {} ELSE {"growth_session_not_balanced"}
    [] OTHER -> {"unknown_event"}
NextSession(s, ev) ==
  CASE ev.e = "Begin" -> [open |-> TRUE, stack |-> <<ev.base>>]
    [] ev.e = "Enter" -> IF s.open THEN [s EXCEPT !.stack = Append(s.stack, Merge(Top(s), ev.kv))] ELSE s
    [] ev.e = "Exit" -> IF Len(s.stack) > 1 THEN [s EXCEPT !.stack = SubSeq(s.stack, 1, Len(s.stack) - 1)] ELSE s
    [] ev.e = "End" -> [s EXCEPT !.open = FALSE]
    [] OTHER -> s
=============================================================================
