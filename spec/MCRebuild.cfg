SPECIFICATION Spec
CONSTANTS
  Fields = {"energy", "algorithm", "lock"}
  Values = {0, 1}
  Default = 0
  Carried <- MC_Carried
INVARIANT RouteIsIdentity
INVARIANT DefaultsTravel
CHECK_DEADLOCK FALSE
