------------------------------- MODULE Pattern -------------------------------
(* Property-level specification of diffraction-pattern geometry (C14) and of   *)
(* centre-of-mass / integrated gradients (C40) on the integer frequency        *)
(* lattice.  Position q of an n-point axis shows frequency                     *)
(*   q - n \div 2  when the pattern is fftshifted (numpy.fft.fftshift layout), *)
(*   Freq(n, q)    otherwise.                                                  *)
EXTENDS Rational, FiniteSets
Freq(n, a) == IF a < (n + 1) \div 2 THEN a ELSE a - n
FreqAt(n, q, shifted) == IF shifted THEN q - n \div 2 ELSE Freq(n, q)
Frequencies(n) == {Freq(n, a) : a \in 0..(n - 1)}

(* C14: "a pattern cropped to a maximum angle equals the centered crop of the  *)
(* uncropped pattern; the fftshift=False pattern is the inverse shift of the   *)
(* fftshift=True pattern": member a of the one-hot family along an axis (all   *)
(* intensity at frequency Freq(n, a)) appears at the position of the n2-point  *)
(* pattern showing that frequency, or nowhere if the crop drops it.            *)
AxisMapOK(n, n2, shifted, amap) ==
   /\ Len(amap) = n
   /\ \A a \in 0..(n - 1) :
        IF Freq(n, a) \in Frequencies(n2)
        THEN amap[a + 1] >= 0 /\ amap[a + 1] < n2 /\ FreqAt(n2, amap[a + 1], shifted) = Freq(n, a)
        ELSE amap[a + 1] = -1
(* "angle-limited patterns have the requested parity" *)
ParityOK(n, n2, parity) == CASE parity = "same" -> n2 % 2 = n % 2 [] parity = "odd" -> n2 % 2 = 1 [] parity = "even" -> n2 % 2 = 0 [] OTHER -> TRUE

CropFails(ev) ==
  IF ev.raised THEN {"raised"}
  ELSE (IF \A d \in 1..2 : AxisMapOK(ev.n[d], ev.n2[d], ev.shifted, ev.maps[d]) THEN {}
        ELSE {IF ev.shifted THEN "cropped_is_not_the_centered_crop" ELSE "unshifted_is_not_the_inverse_shift"})
  \cup (IF ev.full \/ \A d \in 1..2 : ParityOK(ev.n[d], ev.n2[d], ev.parity) THEN {} ELSE {"parity"})
  \* a range inside the grid can only crop; a requested range that reaches or exceeds the grid edge is zero-padded by the library (outside
  \* the statement's "cropped to a maximum angle"): there only the centred-map and parity clauses apply
  \cup (IF ev.beyond_grid \/ \A d \in 1..2 : ev.n2[d] <= ev.n[d] THEN {} ELSE {"crop_larger_than_pattern"})

(* "block_direct zeroes exactly the pixels within the effective blocking       *)
(* radius and leaves all others unchanged": zeroed = set of <<i, j>> frequency *)
(* pairs decoded from the real result; radius in pixel units (no ties).        *)
Blocked(n, r) == {<<i, j>> : i \in Frequencies(n[1]), j \in Frequencies(n[2])} \cap
                 {<<i, j>> \in (-(n[1])..n[1]) \X (-(n[2])..n[2]) : RLe(RInt(i * i + j * j), RMul(r, r))}
(* The effective radius (pixel units, isotropic sampling): the given radius, else the semiangle cutoff recorded in the metadata,  *)
(* else just over one pixel (abTEM: 1.0001; on the integer lattice any value in (1, sqrt 2) blocks the same pixels; 101/100      *)
(* keeps TLC's 32-bit products small); plus a margin of one pixel when margin is True, or when it is left at its default and the metadata  *)
(* records a semiangle cutoff (documented: "Margin is true by default for diffraction patterns with semiangle_cutoff").          *)
EffectiveRadius(ev) ==
  LET base == IF ev.radius_given # << >> THEN ev.radius_given ELSE IF ev.has_cutoff THEN ev.cutoff ELSE <<101, 100>>
      m == IF ev.margin = "default" THEN ev.has_cutoff ELSE ev.margin = "true"
  IN  IF m THEN RAdd(base, RInt(1)) ELSE base
BlockFails(ev) ==
  IF ev.raised THEN {"raised"}
  ELSE (IF {<<ev.zeroed[k][1], ev.zeroed[k][2]>> : k \in 1..Len(ev.zeroed)} = Blocked(ev.n, EffectiveRadius(ev)) THEN {} ELSE {"blocked_pixel_set"})
  \cup (IF ev.others_unchanged THEN {} ELSE {"other_pixels_changed"})

(* C40: "the center of mass ... including for a single bright pixel": the      *)
(* decoded centre of mass of member a (in units of the sampling) is Freq(n,a). *)
ComFails(ev) ==
  IF ev.raised THEN {"raised"}
  ELSE (IF \A d \in 1..2 : Len(ev.com[d]) = ev.n[d] /\ \A a \in 0..(ev.n[d] - 1) : ev.com[d][a + 1] = Freq(ev.n[d], a) THEN {}
        ELSE {"center_of_mass_of_a_single_bright_pixel"})
  \cup (IF ev.cross_zero THEN {} ELSE {"center_of_mass_other_axis"})
  \cup (IF ev.linear_ppb <= 20000 THEN {} ELSE {"center_of_mass_is_the_weighted_mean"})
GradientFails(ev) == IF ev.raised THEN {"raised"} ELSE IF ev.err_ppb <= 20000 THEN {} ELSE {"integrated_gradient_reproduces_the_field"}
EvFails(ev) == CASE ev.k = "crop" -> CropFails(ev) [] ev.k = "block" -> BlockFails(ev) [] ev.k = "com" -> ComFails(ev)
                 [] ev.k = "gradient" -> GradientFails(ev) [] OTHER -> {"unknown_event"}
=============================================================================
