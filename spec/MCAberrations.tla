--------------------------- MODULE MCAberrations ---------------------------
EXTENDS AberrationsModel
FocusAll == Names
FocusA == {"C10", "defocus", "C12", "phi12", "astigmatism", "astigmatism_angle", "C30", "Cs"}
FocusB == {"C21", "coma", "phi21", "coma_angle", "C23", "trefoil", "phi23", "C32", "phi32", "astigmatism3"}
FocusC == {"C34", "quadrafoil", "phi34", "quadrafoil_angle", "C41", "phi41", "coma4", "C43", "phi43", "trefoil4_angle"}
FocusD == {"C45", "pentafoil", "phi45", "pentafoil_angle", "C50", "C5", "C52", "phi52", "astigmatism5", "astigmatism5_angle"}
FocusE == {"C54", "phi54", "quadrafoil5", "quadrafoil5_angle", "C56", "phi56", "hexafoil", "hexafoil_angle", "defocus", "Cs"}
ASSUME Table
=============================================================================
