-------------------------------- MODULE Polar --------------------------------
(* Property-level specification of PolarMeasurements.integrate (property C13). *)
(* Bin (i, j), 0 <= i < nr, 0 <= j < na, covers the radial range               *)
(* [ro + i rs, ro + (i+1) rs) and the azimuthal range [ao + j as, ao+(j+1) as) *)
(* (azimuthal quantities in units of pi).  Bins are numbered i * na + j.       *)
(* C13: "integrate with radial and/or azimuthal limits equals the sum of the   *)
(* bins whose angular ranges lie inside those limits, integrating without      *)
(* limits equals the total over all bins, and integrating over a partition of  *)
(* the azimuthal (or radial) range sums to the full integral."                 *)
EXTENDS Rational, FiniteSets

NoLimit(lim) == lim = << >>
(* bin k along an axis with offset o and sampling s lies inside [lo, hi] *)
Inside(k, o, s, lim) == NoLimit(lim) \/ (/\ RLe(lim[1], RAdd(o, RMul(RInt(k), s)))
                                          /\ RLe(RAdd(o, RMul(RInt(k + 1), s)), lim[2]))
Expected(nr, na, ro, rs, ao, as, rl, al) ==
   {i * na + j : i \in {i \in 0..(nr - 1) : Inside(i, ro, rs, rl)}, j \in {j \in 0..(na - 1) : Inside(j, ao, as, al)}}
AllBins(nr, na) == 0..(nr * na - 1)

SeqToSet(s) == {s[i] : i \in 1..Len(s)}
IntegrateFails(ev) ==
  IF ev.raised THEN {"raised"}
  ELSE (IF SeqToSet(ev.selected) = Expected(ev.nr, ev.na, ev.ro, ev.rs, ev.ao, ev.as, ev.rl, ev.al)
           /\ Len(ev.selected) = Cardinality(SeqToSet(ev.selected)) /\ ev.unit_weights
        THEN {} ELSE {IF NoLimit(ev.rl) /\ NoLimit(ev.al) THEN "total_over_all_bins" ELSE "bins_inside_limits"})

(* a partition of the range along one axis: consecutive limit pairs cut at bin edges *)
PartitionFails(ev) ==
  IF ev.raised THEN {"raised"}
  ELSE LET parts == [p \in 1..Len(ev.parts) |-> SeqToSet(ev.parts[p])] IN
       (IF \A p, q \in 1..Len(ev.parts) : p # q => parts[p] \cap parts[q] = {} THEN {} ELSE {"partition_overlaps"})
  \cup (IF UNION {parts[p] : p \in 1..Len(ev.parts)} = AllBins(ev.nr, ev.na) THEN {} ELSE {"partition_does_not_sum_to_full"})
=============================================================================
