SPECIFICATION Spec
CONSTANTS
  MaxR = 3
  MaxA = 4
  RSamplings <- MC_RS
  ROffsets <- MC_RO
  AOffsets <- MC_AO
  Emit = FALSE
  ClampNegative = TRUE
INVARIANT SliceOK
CHECK_DEADLOCK FALSE
