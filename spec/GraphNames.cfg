SPECIFICATION Spec
CONSTANTS
  Fields = {"start", "gpts", "block"}
  Values = {1, 2}
  NameFields = {"start", "gpts", "block"}
  Unique = FALSE
  MaxObjects = 2
INVARIANT OwnResults
CHECK_DEADLOCK FALSE
