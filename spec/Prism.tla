-------------------------------- MODULE Prism --------------------------------
(* Property-level specification of the PRISM scattering matrix (property C06).  *)
(*                                                                              *)
(* A scattering matrix over a cell (w, h) with cutoff wave number kappa and     *)
(* interpolation (f1, f2) holds one exit wave S_q per beam q = (n f1/w, m f2/h) *)
(* with |q| < kappa.  Reducing it at position p with CTF chi gives              *)
(*     Sum_q  c_q exp(-2 pi i q.p) S_q ,   c_q = chi(q) / sqrt(Sum |chi(q)|^2)  *)
(* which, S being linear, IS the exit wave of the incident wave                 *)
(*     P(r) = Sum_q c_q exp(2 pi i q.(r - p)).                                  *)
(* Without interpolation P is the conventional probe with that CTF at p.  With  *)
(* interpolation P has period (w/f1, h/f2): it is the probe of the small cell   *)
(* repeated, and the reduced wave is the window of n/f pixels of the exit wave  *)
(* whose first pixel is rint(p/s) - (n/f) div 2, taken periodically.            *)
EXTENDS Integers, Sequences, FiniteSets, TLC, Json, Rational

Tol == 50000                       \* 5e-5 relative deviation, in parts per 10^9
AllLe(s, t) == \A i \in 1..Len(s) : s[i] <= t
SeqSet(s) == {s[i] : i \in 1..Len(s)}

(* ---- 1. the beams ---------------------------------------------------------- *)
(* lengths are W/D, H/D and kappa = Kn/Kd, exact rationals.  The beams are the  *)
(* support of the equivalent probe's aperture on the (interpolated) reciprocal  *)
(* lattice.  abTEM's aperture has a soft edge half a reciprocal pixel wide, so: *)
(* every lattice point with |q| < kappa is a beam, no beam has                  *)
(* |q| >= kappa + half the larger reciprocal pixel, and -q is a beam iff q is.  *)
Q2(n, m, ev) == RAdd(RMul(R(n * ev.f1 * ev.D, ev.W), R(n * ev.f1 * ev.D, ev.W)), RMul(R(m * ev.f2 * ev.D, ev.H), R(m * ev.f2 * ev.D, ev.H)))
Kappa(ev) == R(ev.Kn, ev.Kd)
HalfPixel(ev) == LET a == R(ev.f1 * ev.D, 2 * ev.W)  b == R(ev.f2 * ev.D, 2 * ev.H) IN IF RLt(a, b) THEN b ELSE a
Lattice(ev) == ((-ev.B)..ev.B) \X ((-ev.B)..ev.B)
InnerBeams(ev) == {b \in Lattice(ev) : RLt(Q2(b[1], b[2], ev), RMul(Kappa(ev), Kappa(ev)))}
OuterBeams(ev) == LET k == RAdd(Kappa(ev), HalfPixel(ev)) IN {b \in Lattice(ev) : RLt(Q2(b[1], b[2], ev), RMul(k, k))}
BeamsFails(ev) ==
  LET got == SeqSet(ev.beams) IN
  (IF InnerBeams(ev) \subseteq got THEN {} ELSE {"lattice_point_inside_the_cutoff_is_not_a_plane_wave"})
  \cup (IF got \subseteq OuterBeams(ev) THEN {} ELSE {"plane_wave_beyond_the_aperture_edge"})
  \cup (IF \A b \in got : <<-b[1], -b[2]>> \in got THEN {} ELSE {"plane_wave_set_not_inversion_symmetric"})
  \cup (IF Cardinality(got) = Len(ev.beams) THEN {} ELSE {"duplicate_plane_wave"})
  \cup (IF ev.off_lattice THEN {"plane_wave_off_the_reciprocal_lattice"} ELSE {})

(* ---- 2. the window --------------------------------------------------------- *)
(* pixel k of the window with first pixel c, taken from a periodic array of n *)
WindowIndex(c, k, n) == (c + k) % n
WindowFails(ev) ==
  IF ev.raised THEN {"window_extraction_raises"}
  ELSE IF \A j \in 1..Len(ev.corners) : \A a \in 1..2 : \A k \in 0..(ev.w[a] - 1) :
             /\ Len(ev.got[j][a]) = ev.w[a]
             /\ ev.got[j][a][k + 1] = WindowIndex(ev.corners[j][a], k, ev.n[a])
       THEN {} ELSE {"window_is_not_the_periodic_window_at_the_position"}

(* ---- 3. reduction == multislice of the equivalent probe ------------------- *)
ReduceFails(ev) ==
  IF ev.raised # ev.reference_raised THEN {"reduction_and_reference_do_not_fail_together"}
  ELSE IF ev.raised THEN {}
  ELSE (IF ev.shape_ok THEN {} ELSE {"reduced_waves_are_not_one_per_configuration_and_position"})
  \cup (IF ev.det_shape_ok THEN {} ELSE {"measurement_shape_differs_from_multislice"})
  \cup (IF ev.lazy_shape_ok THEN {} ELSE {"lazy_and_eager_shapes_differ"})
  \cup (IF AllLe(ev.waves_ppb, Tol) THEN {} ELSE {"reduced_waves_differ_from_multislice_of_the_equivalent_probe"})
  \cup (IF AllLe(ev.det_ppb, Tol) THEN {} ELSE {"measurements_differ_from_multislice_of_the_equivalent_probe"})
  \cup (IF AllLe(ev.lazy_ppb, Tol) THEN {} ELSE {"lazy_and_eager_reduction_differ"})
  \* a CTF carrying a series of values: member k of the reduction is the reduction with the scalar CTF k
  \cup (IF AllLe(ev.series_ppb, Tol) THEN {} ELSE {"ctf_series_member_differs_from_the_scalar_reduction"})

Fails(ev) == IF ev.k = "beams" THEN BeamsFails(ev) ELSE IF ev.k = "window" THEN WindowFails(ev) ELSE ReduceFails(ev)

(* ---- the scenario space ---------------------------------------------------- *)
CONSTANTS Emit
VARIABLES c, done
vars == <<c, done>>
Potentials == {"none", "atoms", "frozen_phonons"}
Aberrations == {"none", "defocus", "cs_defocus", "astigmatism", "coma", "all"}
Scans == {"custom", "outside", "grid", "line", "wide"}
(* ctf_cutoff: the CTF handed to the reduction states the aperture, or leaves it unset (then the S-matrix' own cutoff is the probe's)  *)
(* history: the SMatrix object is fresh, or was inspected (len, wave_vectors, shape) with other parameters and then edited through    *)
(* its setters (semiangle_cutoff, potential, energy) before the reduction, or the CTF object was used before for an S-matrix at another energy: the equivalent probe is that of the parameters at reduction time   *)
Init == /\ \E p \in Potentials, ab \in Aberrations, sc \in Scans, f1 \in 1..3, f2 \in 1..2, ds \in BOOLEAN, lz \in BOOLEAN, b1 \in BOOLEAN,
              cc \in {"given", "unset"}, h \in {"fresh", "edited_cutoff", "edited_potential", "edited_energy", "ctf_reused"} :
             /\ (h # "fresh" => cc = "given") /\ (h = "edited_potential" => p # "none")
             /\ c = [potential |-> p, aberrations |-> ab, scan |-> sc, f1 |-> f1, f2 |-> f2, downsample |-> ds, lazy |-> lz, batch_one |-> b1,
                     ctf_cutoff |-> cc, history |-> h]
        /\ done = FALSE
Next == ~done /\ done' = TRUE /\ UNCHANGED c
Spec == Init /\ [][Next]_vars
EmitCase == (Emit /\ done) => PrintT(<<"CASE", ToJson(c)>>)
=============================================================================
