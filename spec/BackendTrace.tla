---------------------------- MODULE BackendTrace ----------------------------
(* Trace specification for C38: every recorded session of the real library is  *)
(* judged step by step against the session machine of Backend.tla.             *)
EXTENDS Backend, Json, IOUtils, TLC
Traces == JsonDeserialize(IOEnv.TRACE_FILE)
VARIABLES tid, l, s, bad
tvars == <<tid, l, s, bad>>
TInit == tid \in 1..Len(Traces) /\ l = 1 /\ s = InitSession /\ bad = << >>
TNext == /\ l <= Len(Traces[tid])
         /\ LET ev == Traces[tid][l]
                f == SessionFails(s, ev) IN
              /\ bad' = IF f = {} THEN bad ELSE Append(bad, <<l, f>>)
              /\ s' = NextSession(s, ev)
         /\ l' = l + 1 /\ UNCHANGED tid
TSpec == TInit /\ [][TNext]_tvars
Verdict == (l > Len(Traces[tid])) => PrintT(<<"V", tid, IF s.open THEN Append(bad, <<l, {"growth_session_not_ended"}>>) ELSE bad>>)
=============================================================================
