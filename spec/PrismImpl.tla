------------------------------ MODULE PrismImpl ------------------------------
(* Implementation-shaped model of the window extraction of a reduced,          *)
(* interpolated scattering matrix (abtem/prism/utils.py): minimum_crop finds   *)
(* one crop covering the windows of a batch of positions, wrapped_crop_2d cuts *)
(* it out of the periodic array with wrapped_slices (two Python slices per     *)
(* axis, falling back to numpy.pad(mode="wrap")), batch_crop_2d then picks the *)
(* per-position windows.  One axis is modelled (the axes are independent).     *)
(* Checked against Prism!WindowIndex for every n, window and pair of corners.  *)
(* Reduced == FALSE is the code before the fix "reduce the crop corner modulo  *)
(* the array size": TLC then finds the corner >= n counterexample.             *)
EXTENDS Integers, Sequences, FiniteSets, TLC
CONSTANTS MaxN, Reduced
P == INSTANCE Prism WITH Emit <- FALSE, c <- 0, done <- FALSE

Min(a, b) == IF a < b THEN a ELSE b
Max(a, b) == IF a > b THEN a ELSE b
(* Python's resolution of slice(lo, hi) on a length-n axis; hi = n stands for None *)
Clamp(i, n) == IF i < 0 THEN Max(i + n, 0) ELSE Min(i, n)
PySlice(lo, hi, n) == LET L == Clamp(lo, n)  H == Clamp(hi, n)
                      IN  IF L < H THEN [i \in 1..(H - L) |-> L + i - 1] ELSE << >>
(* wrapped_slices(start, stop, n): <<raises, first piece, second piece>> *)
WrappedSlices(start, stop, n) ==
  IF start < 0 THEN
       IF stop > n THEN <<TRUE, << >>, << >>>>
       ELSE <<FALSE, PySlice(start % n, n, n), PySlice(0, stop, n)>>
  ELSE IF stop > n THEN
       IF Reduced /\ stop - n > n THEN <<TRUE, << >>, << >>>>
       ELSE <<FALSE, PySlice(start, n, n), PySlice(0, stop - n, n)>>
  ELSE <<FALSE, PySlice(start, stop, n), << >>>>
(* numpy.pad(mode="wrap") with (before, after), then [lo, lo + size) *)
PadWrapSlice(corner, size, n) ==
  LET before == IF corner < 0 THEN -corner ELSE 0
      after  == Max(corner + size - n, 0)
      lo     == corner + before
  IN  [i \in 1..size |-> ((lo + i - 1) - before) % n]
WrappedCrop(corner0, size, n) ==
  LET corner == IF Reduced THEN corner0 % n ELSE corner0
      ws == WrappedSlices(corner, corner + size, n)
  IN  IF ws[1] THEN PadWrapSlice(corner, size, n) ELSE ws[2] \o ws[3]
(* minimum_crop + wrapped_crop + batch_crop for two positions *)
Windows(c1, c2, w, n) ==
  LET crop == Min(c1, c2)
      size == Max(c1, c2) + w - crop
      arr  == WrappedCrop(crop, size, n)
      pick(cj) == [k \in 1..w |-> IF cj - crop + k <= Len(arr) THEN arr[cj - crop + k] ELSE -1]   \* -1: IndexError
  IN  <<pick(c1), pick(c2)>>

VARIABLES case, done
vars == <<case, done>>
Init == /\ \E n \in 1..MaxN : \E w \in 1..n : \E c1 \in (-2 * n - 1)..(3 * n + 1) : \E c2 \in (-2 * n - 1)..(3 * n + 1) :
             case = [n |-> n, w |-> w, c1 |-> c1, c2 |-> c2]
        /\ done = FALSE
Next == ~done /\ done' = TRUE /\ UNCHANGED case
Spec == Init /\ [][Next]_vars
WindowsArePeriodicWindows ==
  LET g == Windows(case.c1, case.c2, case.w, case.n) IN
    \A k \in 0..(case.w - 1) : /\ g[1][k + 1] = P!WindowIndex(case.c1, k, case.n)
                               /\ g[2][k + 1] = P!WindowIndex(case.c2, k, case.n)
=============================================================================
