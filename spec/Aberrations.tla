----------------------------- MODULE Aberrations -----------------------------
(* Property-level specification of the aberration coefficient store and the   *)
(* polar aberration expansion (property C21).                                 *)
(*   chi(alpha, phi) = sum over symbols C_nm :                                *)
(*        1/(n+1) * C_nm * alpha^(n+1) * cos(m (phi - phi_nm))                *)
(*   transfer = exp(-2 pi i chi / lambda)          (Kirkland Eq. 2.22)        *)
(* "defocus is the negative of C10 and named aliases address the same         *)
(* coefficients".  Coefficient values are integer ids; -id is the negated     *)
(* value (the harness maps |id| to a physical magnitude per symbol).          *)
EXTENDS Integers, Sequences, FiniteSets

(* magnitude symbols with (n, m); the angle symbol of C_nm (m > 0) is phi_nm *)
Magnitudes == [C10 |-> <<1, 0>>, C12 |-> <<1, 2>>, C21 |-> <<2, 1>>, C23 |-> <<2, 3>>, C30 |-> <<3, 0>>, C32 |-> <<3, 2>>,
               C34 |-> <<3, 4>>, C41 |-> <<4, 1>>, C43 |-> <<4, 3>>, C45 |-> <<4, 5>>, C50 |-> <<5, 0>>, C52 |-> <<5, 2>>,
               C54 |-> <<5, 4>>, C56 |-> <<5, 6>>]
MagSyms == DOMAIN Magnitudes
AngleOf == [C12 |-> "phi12", C21 |-> "phi21", C23 |-> "phi23", C32 |-> "phi32", C34 |-> "phi34", C41 |-> "phi41", C43 |-> "phi43",
            C45 |-> "phi45", C52 |-> "phi52", C54 |-> "phi54", C56 |-> "phi56"]
AngleSyms == {AngleOf[s] : s \in DOMAIN AngleOf}
Symbols == MagSyms \cup AngleSyms
Aliases == [defocus |-> "C10", Cs |-> "C30", C5 |-> "C50", astigmatism |-> "C12", astigmatism_angle |-> "phi12",
            astigmatism3 |-> "C32", astigmatism3_angle |-> "phi32", astigmatism5 |-> "C52", astigmatism5_angle |-> "phi52",
            coma |-> "C21", coma_angle |-> "phi21", coma4 |-> "C41", coma4_angle |-> "phi41", trefoil |-> "C23",
            trefoil_angle |-> "phi23", trefoil4 |-> "C43", trefoil4_angle |-> "phi43", quadrafoil |-> "C34",
            quadrafoil_angle |-> "phi34", quadrafoil5 |-> "C54", quadrafoil5_angle |-> "phi54", pentafoil |-> "C45",
            pentafoil_angle |-> "phi45", hexafoil |-> "C56", hexafoil_angle |-> "phi56"]
AliasNames == DOMAIN Aliases
Names == Symbols \cup AliasNames
Canon(name) == IF name \in AliasNames THEN Aliases[name] ELSE name
(* "defocus is the negative of C10" *)
Stored(name, v) == IF name = "defocus" THEN -v ELSE v
Zero == [s \in Symbols |-> 0]
AfterSet(coeff, name, v) == [coeff EXCEPT ![Canon(name)] = Stored(name, v)]
Read(coeff, name) == IF name = "defocus" THEN -coeff["C10"] ELSE coeff[Canon(name)]

Tol == 100      \* 1e-7 relative to |transfer| = 1, double precision evaluation (ppb)
ToMap(pairs) == [s \in Symbols |-> LET S == {i \in 1..Len(pairs) : pairs[i][1] = s} IN
                                   IF S = {} THEN 99 ELSE pairs[CHOOSE i \in S : TRUE][2]]
(* one observed event against the abstract coefficient map BEFORE it *)
EventFails(coeff, ev) ==
  LET rep == ToMap(ev.coeffs) IN
  CASE ev.a = "set" ->
         IF ev.raised THEN {"set_raised"}
         ELSE IF rep = AfterSet(coeff, ev.name, ev.v) THEN {} ELSE {"alias_or_defocus_addressing"}
    [] ev.a = "get" -> IF ev.raised THEN {"get_raised"} ELSE IF ev.got = Read(coeff, ev.name) THEN {} ELSE {"alias_or_defocus_read"}
    [] ev.a = "eval" ->
         (IF rep = coeff THEN {} ELSE {"coefficients_changed_by_evaluation"})
    \cup (IF ev.raised THEN {"eval_raised"} ELSE
            (IF ev.err_ppb <= Tol THEN {} ELSE {"polar_expansion"})
       \cup (IF ev.rot_ppb <= Tol THEN {} ELSE {"azimuthal_rotation"}))
    [] OTHER -> {"unknown_event"}
NextCoeff(coeff, ev) == IF ev.a = "set" /\ ~ev.raised THEN AfterSet(coeff, ev.name, ev.v) ELSE coeff
=============================================================================
