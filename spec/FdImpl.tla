------------------------------- MODULE FdImpl -------------------------------
(* Implementation-shaped model of abTEM's real-space Laplacian                  *)
(* (abtem/finite_difference.py):                                                *)
(*   LaplaceOperator._get_new_stencil  chooses the prefactors from the sampling *)
(*   _laplace_operator_stencil          rolls the coefficient array by -(L div  *)
(*       2) and indexes it with k in -n..n (negative Python indices), pads the  *)
(*       array periodically by n+1 (numpy.pad mode="wrap"), runs the loop over  *)
(*       the interior i in [n, H-n), j in [n, W-n) of the padded array leaving  *)
(*       the border at zero, and slices the padding off again.                  *)
(* The model computes, for every output pixel, the weight with which every      *)
(* source pixel of the unpadded periodic array contributes, and TLC compares it *)
(* with Fd!Weight with prefactors 1/dx^2, 1/dy^2 for all grids up to            *)
(* MaxN x MaxN, accuracies 2 and 4 and spacings from Spacings.                  *)
(* PerAxis = FALSE is the code before the fix (prefactor 1/(dx dy) on both      *)
(* axes): TLC then reports the first rectangular spacing as a counterexample.   *)
EXTENDS Integers, Sequences, FiniteSets, TLC, Rational
CONSTANTS MaxN, Spacings, PerAxis
F == INSTANCE Fd WITH Emit <- FALSE, c <- 0, done <- FALSE

VARIABLES case, done
vars == <<case, done>>
Init == /\ \E acc \in {2, 4}, n1 \in 1..MaxN, n2 \in 1..MaxN, d1 \in Spacings, d2 \in Spacings :
             case = [acc |-> acc, n |-> <<n1, n2>>, d |-> <<d1, d2>>]
        /\ done = FALSE
Next == ~done /\ done' = TRUE /\ UNCHANGED case
Spec == Init /\ [][Next]_vars

n == F!Half(case.acc)
L == 2 * n + 1
Pad == n + 1
(* c = np.roll(coefficients, -(L // 2)); c[k] with k in -n..n, negative k meaning L + k *)
Rolled == [t \in 0..(L - 1) |-> F!Coeffs(case.acc)[((t + (L \div 2)) % L) + 1]]
CoefAt(k) == Rolled[IF k < 0 THEN L + k ELSE k]
Prefactors == IF PerAxis THEN <<F!InvSq(case.d[1]), F!InvSq(case.d[2])>>
              ELSE LET p == RDiv(RInt(1), RMul(case.d[1], case.d[2])) IN <<p, p>>
(* padded index u in 0..N+2 Pad-1 is source pixel (u - Pad) mod N *)
Src(u, N) == (u - Pad) % N
(* weight of source (x, y) on output pixel (i, j) of the unpadded array: output (i, j) is padded (i + Pad, j + Pad), which lies in the *)
(* loop interior iff n <= i + Pad < H - n                                                                                             *)
ImplWeight(i, j, x, y) ==
  LET H == case.n[1] + 2 * Pad   W == case.n[2] + 2 * Pad
      I == i + Pad               J == j + Pad
      inside == n <= I /\ I < H - n /\ n <= J /\ J < W - n
      Fx(k) == IF Src(I + k, case.n[1]) = x /\ Src(J, case.n[2]) = y THEN RMul(CoefAt(k), Prefactors[1]) ELSE RInt(0)
      Fy(k) == IF Src(I, case.n[1]) = x /\ Src(J + k, case.n[2]) = y THEN RMul(CoefAt(k), Prefactors[2]) ELSE RInt(0)
  IN  IF inside THEN RAdd(F!RSumOver(Fx, -n, n), F!RSumOver(Fy, -n, n)) ELSE RInt(0)
StencilIsThePeriodicLaplacian ==
  \A i \in 0..(case.n[1] - 1) : \A j \in 0..(case.n[2] - 1) : \A x \in 0..(case.n[1] - 1) : \A y \in 0..(case.n[2] - 1) :
     ImplWeight(i, j, x, y) = F!Weight(case.acc, case.n, F!InvSq(case.d[1]), F!InvSq(case.d[2]), i, j, x, y)
=============================================================================
