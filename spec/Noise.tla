-------------------------------- MODULE Noise --------------------------------
(* Property-level specification of Poisson noise (property C31).                *)
(* An ensemble of M measurements is processed in blocks (a chunking of 1..M);   *)
(* every member draws its noise from a random stream.  C31: "With a fixed seed  *)
(* the result is reproducible and identical for lazy and eager evaluation       *)
(* whatever the chunking.  Distinct measurements in an ensemble receive         *)
(* statistically independent noise": the stream of member j may depend on the   *)
(* seed and on j only, and distinct members use distinct streams.               *)
EXTENDS Integers, Sequences, FiniteSets

RECURSIVE SumSeq(_)
SumSeq(s) == IF s = << >> THEN 0 ELSE Head(s) + SumSeq(Tail(s))
(* streams: function member -> stream id *)
ChunkingIndependent(streamsA, streamsB) == streamsA = streamsB
DistinctStreams(streams, M) == \A i, j \in 1..M : i # j => streams[i] # streams[j]

ZLimit == 6000          \* |z| <= 6 (milli-sigma units)
ObservationFails(ev) ==
  IF ev.raised THEN {"raised"}
  ELSE (IF ev.counts_ok THEN {} ELSE {"non_negative_whole_counts"})
  \cup (IF ev.z_mean_milli \in -ZLimit..ZLimit /\ ev.z_var_milli \in -ZLimit..ZLimit THEN {} ELSE {"expectation_is_dose_times_signal"})
  \cup (IF ~ev.seed_fixed \/ ev.repro_ok THEN {} ELSE {"not_reproducible_for_a_fixed_seed"})
  \cup (IF ~ev.seed_fixed \/ ev.lazy_eq_eager THEN {} ELSE {"lazy_differs_from_eager"})
  \cup (IF ~ev.seed_fixed \/ ev.chunking_indep THEN {} ELSE {"depends_on_chunking"})
  \cup (IF ev.distinct_members THEN {} ELSE {"distinct_measurements_share_their_noise"})
  \* within ONE block (the eager result): no two members identical and every pair of members uncorrelated (|z| <= 6); members are the
  \* measurements of the ensemble, the repeated samples and the entries of a dose series
  \cup (IF ev.eager_members_independent THEN {} ELSE {"members_of_one_block_share_their_noise"})
=============================================================================
