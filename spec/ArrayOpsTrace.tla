---------------------------- MODULE ArrayOpsTrace ----------------------------
(* Trace specification for C29: operation histories recorded on real array    *)
(* objects; each step is validated against ArrayOps!Expected computed from    *)
(* the previously OBSERVED state (so one rejected step does not mask the next).*)
EXTENDS ArrayOps, Json, IOUtils, TLC
Traces == JsonDeserialize(IOEnv.TRACE_FILE)
VARIABLES tid, l, st, bad
tvars == <<tid, l, st, bad>>
ToSt(ev) == [axes |-> ev.axes, meta |-> {ev.meta[i] : i \in 1..Len(ev.meta)}]
TInit == tid \in 1..Len(Traces) /\ l = 2 /\ st = ToSt(Traces[tid][1]) /\ bad = << >>
TNext == /\ l <= Len(Traces[tid])
         /\ LET ev == Traces[tid][l] f == StepFails(st, ev.op, ev) IN
              /\ bad' = IF f = {} THEN bad ELSE Append(bad, <<l, f>>)
              /\ st' = IF ev.raised THEN st ELSE ToSt(ev)
         /\ l' = l + 1 /\ UNCHANGED tid
TSpec == TInit /\ [][TNext]_tvars
Verdict == (l > Len(Traces[tid])) => PrintT(<<"V", tid, bad>>)
=============================================================================
