--------------------------- MODULE ConversionsImpl ---------------------------
(* Implementation-shaped model of transfer.polar2cartesian / cartesian2polar  *)
(* at the level of their sign and atan2 branch structure.  The Cartesian pair *)
(* of a coefficient is represented in polar form: a length |C| and a          *)
(* direction psi (the argument handed to arctan2), so no trigonometry is      *)
(* needed.  TLC enumerates every (coefficient, sign/magnitude, angle on the   *)
(* pi/24 lattice) and checks the round trip stays in the class.               *)
EXTENDS Conversions, TLC, Json
CONSTANTS Mags, Emit
VARIABLES c, done
vars == <<c, done>>

Principal(a) == LET r == Mod(a) IN IF r > Half THEN r - Full ELSE r      \* arctan2 range (-pi, pi]
Abs(x) == IF x < 0 THEN -x ELSE x
(* direction of the vector given to arctan2 for a positive coefficient *)
Psi(sym, phi) == CASE sym = "C12" -> Half - 2 * phi     \* (a, b) = C (-cos 2phi,  sin 2phi)
                   [] sym = "C21" -> phi                \* (b, a) = C ( cos phi,    sin phi)
                   [] sym = "C23" -> -3 * phi           \* (b, a) = C ( cos 3phi,  -sin 3phi)
                   [] sym = "C32" -> Half - 2 * phi     \* (a, b) = C (-cos 2phi,  cos(pi/2 - 2phi))
                   [] sym = "C34" -> 4 * phi            \* (a, b) = C ( cos 4phi,   sin 4phi)
(* cartesian2polar: magnitude sign and angle from the principal direction *)
BackC(sym, C) == IF sym \in {"C12", "C32"} THEN -Abs(C) ELSE Abs(C)
BackPhi(sym, psi) == CASE sym \in {"C12", "C32"} -> -(psi \div 2)
                       [] sym = "C21" -> psi
                       [] sym = "C23" -> -(psi \div 3)
                       [] sym = "C34" -> psi \div 4
RoundTrip(sym, C, phi) ==
   LET psi == Principal(Psi(sym, phi) + (IF C < 0 THEN Half ELSE 0)) IN
   <<BackC(sym, C), IF C = 0 THEN 0 ELSE BackPhi(sym, psi)>>

Lattice == {12 * k : k \in -24..24}
Init == /\ \E s \in Pairs, C \in Mags, phi \in Lattice : c = [sym |-> s, C |-> C, phi |-> phi]
        /\ done = FALSE
Next == ~done /\ done' = TRUE /\ UNCHANGED c
Spec == Init /\ [][Next]_vars
ExactDivision == LET psi == Principal(Psi(c.sym, c.phi) + (IF c.C < 0 THEN Half ELSE 0)) IN psi % Orders[c.sym] = 0
ClassPreserved == LET r == RoundTrip(c.sym, c.C, c.phi) IN SameTerm(Orders[c.sym], c.C, c.phi, r[1], r[2])
EmitCase == (Emit /\ done) => PrintT(<<"CASE", ToJson([c |-> c, back |-> RoundTrip(c.sym, c.C, c.phi)])>>)
=============================================================================
