---------------------------- MODULE Distributions ----------------------------
(* Property-level specification of abtem.distributions (property C36).        *)
(* Values are exact rationals; weight claims that need exp() are decided      *)
(* numerically by the harness and logged as deviations in ppb.                *)
EXTENDS Rational

(* "A uniform distribution has equally spaced values between its limits with unit weights" *)
UniformValuesOK(vals, lo, hi, n, endpoint) ==
   /\ Len(vals) = n
   /\ (n >= 1 => REq(vals[1], lo))
   /\ (n >= 2 => LET step == RDiv(RSub(hi, lo), RInt(IF endpoint THEN n - 1 ELSE n)) IN
                 \A i \in 1..n : REq(vals[i], RAdd(lo, RMul(RInt(i - 1), step))))
UnitWeights(w) == \A i \in 1..Len(w) : REq(w[i], RInt(1))

(* "a Gaussian distribution has values symmetric about its center within the sampling limit" *)
SymmetricAbout(vals, c) == \A i \in 1..Len(vals) : REq(RAdd(vals[i], vals[Len(vals) + 1 - i]), RMul(RInt(2), c))
WithinLimit(vals, c, sigma, limit) ==
   \A i \in 1..Len(vals) : /\ RLe(RSub(c, RMul(limit, sigma)), vals[i]) /\ RLe(vals[i], RAdd(c, RMul(limit, sigma)))

(* "negation negates values only" *)
NegatedOK(vals, nvals, w, nw) == /\ Len(nvals) = Len(vals) /\ \A i \in 1..Len(vals) : REq(nvals[i], RNeg(vals[i]))
                                 /\ nw = w
(* "dividing a distribution into chunks partitions its values and weights" *)
RECURSIVE Flatten(_)
Flatten(ss) == IF ss = << >> THEN << >> ELSE Head(ss) \o Flatten(Tail(ss))
DividedOK(vals, w, bvals, bw, chunks) ==
   /\ Len(bvals) = Len(chunks) /\ Len(bw) = Len(chunks)
   /\ \A i \in 1..Len(chunks) : Len(bvals[i]) = chunks[i] /\ Len(bw[i]) = chunks[i]
   /\ Flatten(bvals) = vals /\ Flatten(bw) = w

Tol == 2000     \* 2e-6 relative, in ppb
EvFails(ev) ==
  IF ev.raised THEN {"raised"}
  ELSE CASE ev.k = "uniform" ->
         (IF UniformValuesOK(ev.vals, ev.lo, ev.hi, ev.n, ev.endpoint) THEN {} ELSE {"uniform_values"})
    \cup (IF UnitWeights(ev.w) /\ Len(ev.w) = ev.n THEN {} ELSE {"unit_weights"})
    [] ev.k = "gaussian" ->
         (IF Len(ev.vals) = ev.n THEN {} ELSE {"num_samples"})
    \cup (IF SymmetricAbout(ev.vals, ev.c) THEN {} ELSE {"symmetric_values"})
    \cup (IF WithinLimit(ev.vals, ev.c, ev.sigma, ev.limit) THEN {} ELSE {"sampling_limit"})
    \cup (IF ev.profile_ppb <= Tol THEN {} ELSE {"gaussian_profile"})
    \cup (IF ev.norm_ppb <= Tol THEN {} ELSE {"norm"})
    [] ev.k = "neg" -> (IF NegatedOK(ev.vals, ev.nvals, ev.w, ev.nw) THEN {} ELSE {"negation"})
    [] ev.k = "divide" -> (IF DividedOK(ev.vals, ev.w, ev.bvals, ev.bw, ev.chunks) THEN {} ELSE {"divide"})
    \* a distribution of several dimensions: weight [i, j] belongs to value (v0[i], v1[j]) - the joint weights are the outer product of
    \* the per-axis weights, in the axis order of the values and of the shape
    [] ev.k = "joint" ->
         (IF ev.weights_shape = ev.shape THEN {} ELSE {"joint_weights_shape"})
    \cup (IF ev.joint_ppb <= Tol THEN {} ELSE {"joint_weights_follow_the_axis_order_of_the_values"})
    \* what a distribution advertises does not change when OTHER distributions are created, negated or divided afterwards
    [] ev.k = "stable" -> (IF ev.changed_ppb = 0 THEN {} ELSE {"existing_distribution_changed_by_later_calls"})
    [] OTHER -> {"unknown_event"}
=============================================================================
