SPECIFICATION Spec
CONSTANTS
  Blocks = 4
  Workers = 3
  Emit = FALSE
  Mode = "schedules"
INVARIANT Confluent
INVARIANT ExactlyOnce
CHECK_DEADLOCK FALSE
