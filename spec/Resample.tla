------------------------------ MODULE Resample ------------------------------
(* Property-level specification of measurement resampling and source-size       *)
(* filtering (property C16).                                                    *)
(*  - DiffractionPatterns.interpolate preserves the total intensity of each     *)
(*    pattern (a pattern without intensity stays without intensity).            *)
(*  - Images.interpolate(method="fft"): a requested number of grid points is    *)
(*    delivered; when the grid of the result is the grid the image already has  *)
(*    the image is returned unchanged; the mean of each image is always         *)
(*    preserved.  Which grid a requested *sampling* maps to is not part of the  *)
(*    property: abTEM takes ceil(n d / d') in floating point, its own test      *)
(*    suite pins that expression (test_interpolate_images), and for the image's *)
(*    own sampling the quotient can be one ulp above n, giving n + 1 points - a *)
(*    different grid, on which only the mean is promised.  TargetGpts (exact    *)
(*    rationals) is kept for the model's use, not for the verdict.              *)
(*  - gaussian_source_size(sigma) then integration over the detector equals     *)
(*    integration then gaussian_filter(sigma): the Gaussian acts on the two     *)
(*    scan axes (physical sigma_j along scan axis j), integration on the        *)
(*    detector axes, and operators on different axes commute.                   *)
EXTENDS Integers, Sequences, FiniteSets, TLC, Json, Rational

Tol == 50000
AllLe(s, t) == \A i \in 1..Len(s) : s[i] <= t
TargetGpts(n, d, dnew) == RCeil(RDiv(RMul(RInt(n), d), dnew))

DiffractionFails(ev) ==
  IF ev.raised THEN {"interpolate_raises_for_a_documented_target"}
  ELSE (IF ev.finite THEN {} ELSE {"interpolated_pattern_is_not_finite"})
  \cup (IF AllLe(ev.total_ppb, Tol) THEN {} ELSE {"total_intensity_of_a_pattern_not_preserved"})
  \cup (IF ev.lazy_ppb <= Tol THEN {} ELSE {"lazy_and_eager_differ"})
ImageFails(ev) ==
  IF ev.raised THEN {"interpolate_raises_for_a_documented_target"}
  ELSE LET same == ev.gpts = ev.n
       IN (IF ev.by = "gpts" => ev.gpts = ev.target THEN {} ELSE {"target_grid_is_not_the_requested_gpts"})
     \cup (IF same => ev.unchanged_ppb <= Tol THEN {} ELSE {"same_grid_does_not_return_the_input"})
     \cup (IF AllLe(ev.mean_ppb, Tol) THEN {} ELSE {"image_mean_not_preserved"})
     \cup (IF ev.lazy_ppb <= Tol THEN {} ELSE {"lazy_and_eager_differ"})
SourceFails(ev) ==
  IF ev.raised # ev.reference_raised THEN {"filter_then_integrate_and_integrate_then_filter_do_not_fail_together"}
  ELSE IF ev.raised THEN {}
  ELSE (IF ev.shape_ok THEN {} ELSE {"image_shape"})
  \cup (IF ev.commute_ppb <= Tol THEN {} ELSE {"source_size_then_integrate_differs_from_integrate_then_filter"})
  \cup (IF ev.lazy_ppb <= Tol THEN {} ELSE {"lazy_and_eager_differ"})
Fails(ev) == CASE ev.k = "dp" -> DiffractionFails(ev) [] ev.k = "image" -> ImageFails(ev) [] ev.k = "source" -> SourceFails(ev)
               [] OTHER -> {"unknown_event"}

(* ---- scenario space ---- *)
CONSTANTS Emit
VARIABLES c, done
vars == <<c, done>>
DpTargets == {"uniform", "one_sampling", "two_samplings", "gpts_smaller", "gpts_larger", "gpts_same"}
ImTargets == {"same_gpts", "own_sampling", "gpts_smaller", "gpts_larger", "gpts_mixed", "finer_sampling", "coarser_sampling"}
Layouts == {"ss", "oss", "sos", "sso"}                   \* ensemble axes: s = scan axis, o = another ensemble axis
Sigmas == {"small", "anisotropic", "wider_than_the_scan"}
(* stack: how many patterns are interpolated in one call (3; 17 x 19 patterns of 32 x 32; 5 x 5 patterns of 128 x 96) - every pattern of a large stack or dask block keeps its intensity too *)
(* negative_member: one pattern of the stack has a negative total (a difference of two patterns) - its total is preserved as well *)
(* faint_member: one pattern of the stack is 1e-10 times weaker than the others (a dark-field pattern next to bright ones): ITS total is preserved too *)
Init == /\ \/ \E t \in DpTargets, g \in 1..4, z \in BOOLEAN, lz \in BOOLEAN, st \in {"small", "many_patterns", "large_patterns"}, ng \in BOOLEAN, fm \in BOOLEAN :
                /\ (st # "small" => g = 1 /\ t \in {"uniform", "two_samplings", "gpts_smaller"})
                /\ (ng => st = "small") /\ (fm => st = "small" /\ ~ng)
                /\ c = [k |-> "dp", target |-> t, grid |-> g, zero_member |-> z, lazy |-> lz, stack |-> st, negative_member |-> ng, faint_member |-> fm]
           \/ \E t \in ImTargets, g \in 1..4, cx \in BOOLEAN, lz \in BOOLEAN : c = [k |-> "image", target |-> t, grid |-> g, complex |-> cx, lazy |-> lz]
           \/ \E l \in Layouts, s \in Sigmas, r \in 1..3, lz \in BOOLEAN : c = [k |-> "source", layout |-> l, sigma |-> s, limits |-> r, lazy |-> lz]
        /\ done = FALSE
Next == ~done /\ done' = TRUE /\ UNCHANGED c
Spec == Init /\ [][Next]_vars
EmitCase == (Emit /\ done) => PrintT(<<"CASE", ToJson(c)>>)
=============================================================================
