------------------------------ MODULE PolarImpl ------------------------------
(* Implementation-shaped model of PolarMeasurements.integrate: limits are     *)
(* converted to bin indices (limit - offset) / sampling per axis (an aligned  *)
(* limit gives the exact edge index, otherwise ceil for the lower and floor   *)
(* for the upper limit) and the array is sliced [inner:outer, left:right].    *)
(* TLC enumerates bin counts, samplings, offsets and every pair of aligned    *)
(* limits, checks the slice against Polar.tla and emits the cases.            *)
EXTENDS Polar, TLC, Json
CONSTANTS MaxR, MaxA, RSamplings, ROffsets, AOffsets, Emit,
          ClampNegative       \* TRUE: as coded, an index below the first bin is clamped to 0; FALSE: it reaches the slice (and counts from the end)
VARIABLES c, done
vars == <<c, done>>

Clamp(i) == IF ClampNegative /\ i < 0 THEN 0 ELSE i
LowerIndex(x) == Clamp(RCeil(x))
UpperIndex(x) == Clamp(RFloor(x))
PyIndex(i, n) == IF i < 0 THEN (IF i + n < 0 THEN 0 ELSE i + n) ELSE (IF i > n THEN n ELSE i)       \* Python slice semantics
SliceSet(n, lo, hi) == {k \in 0..(n - 1) : k >= PyIndex(lo, n) /\ k < PyIndex(hi, n)}
Selected(nr, na, ro, rs, ao, as, rl, al) ==
  LET RR == IF NoLimit(rl) THEN 0..(nr - 1)
           ELSE SliceSet(nr, LowerIndex(RDiv(RSub(rl[1], ro), rs)), UpperIndex(RDiv(RSub(rl[2], ro), rs)))
      AA == IF NoLimit(al) THEN 0..(na - 1)
           ELSE SliceSet(na, LowerIndex(RDiv(RSub(al[1], ao), as)), UpperIndex(RDiv(RSub(al[2], ao), as)))
  IN {i * na + j : i \in RR, j \in AA}

Edge(o, s, k) == RAdd(o, RMul(RInt(k), s))
Half(s) == RDiv(s, RInt(2))
(* limits on bin edges, a lower limit one bin below the first edge (a rotated or offset detector asked from zero), and limits *)
(* in the middle of a bin (only the bins entirely inside count)                                                              *)
Limits(n, o, s) == {<< >>} \cup {<<Edge(o, s, a), Edge(o, s, b)>> : a \in (-1)..n, b \in 0..n}
                          \cup {<<RAdd(Edge(o, s, a), Half(s)), RSub(Edge(o, s, b), Half(s))>> : a \in (-1)..(n - 1), b \in 1..n}
Init == /\ \E nr \in 1..MaxR, na \in 1..MaxA, rs \in RSamplings, ro \in ROffsets, ao \in AOffsets :
            LET as == <<2, na>> IN      \* 2 pi / na, in units of pi
            \E rl \in Limits(nr, ro, rs), al \in Limits(na, ao, as) :
               /\ (IF rl = << >> THEN TRUE ELSE RLe(rl[1], rl[2])) /\ (IF al = << >> THEN TRUE ELSE RLe(al[1], al[2]))
               /\ c = [nr |-> nr, na |-> na, rs |-> rs, ro |-> ro, as |-> Norm(2, na), ao |-> ao, rl |-> rl, al |-> al]
        /\ done = FALSE
Next == ~done /\ done' = TRUE /\ UNCHANGED c
Spec == Init /\ [][Next]_vars

SliceOK == done => Selected(c.nr, c.na, c.ro, c.rs, c.ao, c.as, c.rl, c.al) = Expected(c.nr, c.na, c.ro, c.rs, c.ao, c.as, c.rl, c.al)
EmitCase == (Emit /\ done) => PrintT(<<"CASE", ToJson(c)>>)
=============================================================================
