SPECIFICATION Spec
CONSTANTS
  MaxDim = 4
  Ranks = {1, 2}
  Limits = {1, 2, 3, 5, 8, 12, 40}
  MaxItems = 8
  Emit = FALSE
INVARIANT ValidateOK
INVARIANT EqualOK
INVARIANT EqualSizeOK
CHECK_DEADLOCK FALSE
