------------------------------ MODULE ArrayOps ------------------------------
(* Property-level specification of structural operations on array objects     *)
(* (property C29).  The abstract state is the list of ensemble axes           *)
(*   [kind : "ordinal" | "linear" | "plain", lab : label id, n : length,      *)
(*    vals : value ids (ordinal), off, samp : rationals (linear)]             *)
(* plus meta, the set of <<label id, value id>> items moved into the          *)
(* object's metadata by integer indexing.  The base axes (the last dims) are  *)
(* never part of the state: C29 demands that operations refuse to reduce or   *)
(* index them.  Array values are compared with NumPy by the harness           *)
(* (numpy_equal); everything else is decided here.                            *)
EXTENDS Axes

Plain(n) == [kind |-> "plain", lab |-> 0, n |-> n, vals |-> << >>, off |-> <<0, 1>>, samp |-> <<1, 1>>]
Ordinal(lab, vals) == [kind |-> "ordinal", lab |-> lab, n |-> Len(vals), vals |-> vals, off |-> <<0, 1>>, samp |-> <<1, 1>>]
Linear(lab, n, off, samp) == [kind |-> "linear", lab |-> lab, n |-> n, vals |-> << >>, off |-> off, samp |-> samp]

Positions(n, it) == CASE it.t = "slice" -> SlicePositions(n, it.start, it.stop, it.step)
                      [] it.t = "list" -> ListPositions(n, it.idx)
                      [] it.t = "mask" -> MaskPositions(it.mask, 1)

(* "carry along the metadata of the selected items" for one axis under a non-integer item *)
AxisUnder(ax, it) ==
  LET pos == Positions(ax.n, it) IN
  CASE ax.kind = "ordinal" -> [ax EXCEPT !.vals = Take(ax.vals, pos), !.n = Len(pos)]
    [] ax.kind = "linear" ->    \* only slices with positive step are generated for linear axes
         [ax EXCEPT !.n = Len(pos),
                    !.off = IF Len(pos) = 0 THEN ax.off ELSE RAdd(ax.off, RMul(RInt(pos[1]), ax.samp)),
                    !.samp = IF it.t = "slice" /\ it.step # << >> THEN RMul(RInt(it.step[1]), ax.samp) ELSE ax.samp]
    [] OTHER -> [ax EXCEPT !.n = Len(pos)]

RECURSIVE IndexAxes(_, _)
(* walk the items: None inserts a new axis, an integer removes the axis, anything else keeps it (transformed) *)
IndexAxes(axes, items) ==
  IF items = << >> THEN axes
  ELSE LET it == Head(items) IN
       IF it.t = "none" THEN <<Plain(1)>> \o IndexAxes(axes, Tail(items))
       ELSE IF it.t = "int" THEN IndexAxes(Tail(axes), Tail(items))
       ELSE <<AxisUnder(Head(axes), it)>> \o IndexAxes(Tail(axes), Tail(items))
RECURSIVE IndexMeta(_, _)
IndexMeta(axes, items) ==
  IF items = << >> THEN {}
  ELSE LET it == Head(items) IN
       IF it.t = "none" THEN IndexMeta(axes, Tail(items))
       ELSE (IF it.t = "int" /\ Head(axes).kind = "ordinal"
             THEN {<<Head(axes).lab, Head(axes).vals[(IF it.i < 0 THEN it.i + Head(axes).n ELSE it.i) + 1]>>} ELSE {})
            \cup IndexMeta(Tail(axes), Tail(items))
NumRealItems(items) == Cardinality({i \in 1..Len(items) : items[i].t # "none"})

RemoveAt(s, i) == SubSeq(s, 1, i - 1) \o SubSeq(s, i + 1, Len(s))
InsertAt(s, i, x) == SubSeq(s, 1, i - 1) \o <<x>> \o SubSeq(s, i, Len(s))
RECURSIVE DropUnit(_)
DropUnit(axes) == IF axes = << >> THEN << >>
                  ELSE (IF Head(axes).n = 1 THEN << >> ELSE <<Head(axes)>>) \o DropUnit(Tail(axes))

(* op -> [raises : BOOLEAN, axes, meta] : what C29 demands of the result *)
Expected(st, op) ==
  CASE op.k = "index" ->
         IF NumRealItems(op.items) > Len(st.axes) THEN [raises |-> TRUE, axes |-> st.axes, meta |-> st.meta]   \* base axes refuse
         ELSE [raises |-> FALSE, axes |-> IndexAxes(st.axes, op.items), meta |-> st.meta \cup IndexMeta(st.axes, op.items)]
    [] op.k = "squeeze" -> [raises |-> FALSE, axes |-> DropUnit(st.axes), meta |-> st.meta]
    [] op.k = "expand" -> [raises |-> FALSE, axes |-> InsertAt(st.axes, op.pos + 1, Plain(1)), meta |-> st.meta]
    [] op.k = "reduce" ->
         IF op.axis >= Len(st.axes) \/ op.axis < 0 THEN [raises |-> TRUE, axes |-> st.axes, meta |-> st.meta]    \* a base axis
         ELSE IF op.keepdims     \* the reduced dimension stays, with length one (its description is not constrained)
              THEN [raises |-> FALSE, axes |-> [st.axes EXCEPT ![op.axis + 1] = Plain(1)], meta |-> st.meta]
              ELSE [raises |-> FALSE, axes |-> RemoveAt(st.axes, op.axis + 1), meta |-> st.meta]
    [] op.k = "stack" -> [raises |-> FALSE, axes |-> InsertAt(st.axes, op.pos + 1, Ordinal(9, <<201, 202>>)), meta |-> st.meta]
    [] op.k = "concat" ->
         LET ax == st.axes[op.axis + 1] IN
         [raises |-> FALSE, meta |-> st.meta,
          axes |-> [st.axes EXCEPT ![op.axis + 1] = [ax EXCEPT !.vals = ax.vals \o ax.vals, !.n = 2 * ax.n]]]
    [] op.k = "arith" -> [raises |-> FALSE, axes |-> st.axes, meta |-> st.meta]

AxisEq(a, b) == IF b.kind = "plain" /\ b.n = 1 THEN a.n = 1 ELSE     \* expected: any description of a length-one dimension
                /\ a.kind = b.kind /\ a.n = b.n
                /\ (a.kind = "ordinal" => a.vals = b.vals /\ a.lab = b.lab)
                /\ (a.kind = "linear" => a.lab = b.lab /\ (a.n = 0 \/ (REq(a.off, b.off) /\ REq(a.samp, b.samp))))   \* an empty axis has no coordinates
AxesEq(x, y) == Len(x) = Len(y) /\ \A i \in 1..Len(x) : AxisEq(x[i], y[i])

(* ev: the observation after the step: [raised, axes, meta (set as sequence), shape, numpy_equal] *)
StepFails(st, op, ev) ==
  LET e == Expected(st, op) IN
  IF e.raises THEN (IF ev.raised THEN {} ELSE {"base_axis_not_refused"})
  ELSE IF ev.raised THEN {"raised"}
  ELSE (IF ev.numpy_equal THEN {} ELSE {"array_values_differ_from_numpy"})
  \cup (IF Len(ev.axes) = Len(ev.shape) /\ \A d \in 1..Len(ev.shape) : d <= Len(ev.axes) => ev.axes[d].n = ev.shape[d]
        THEN {} ELSE {"one_axis_entry_per_dimension"})
  \cup (IF AxesEq(ev.axes, e.axes) THEN {} ELSE {"axis_metadata_of_selected_items"})
  \cup (IF {ev.meta[i] : i \in 1..Len(ev.meta)} = e.meta THEN {} ELSE {"item_metadata"})
  \* the operand of the operation is what it was (its axes, metadata and values): it can be sliced / stacked / reduced again
  \cup (IF ev.operand_intact THEN {} ELSE {"operation_changed_its_operand"})
  \* an axis that continues an axis of the operand keeps the fields the operation does not concern (units, labels, direction, flags)
  \cup (IF ev.extras_kept THEN {} ELSE {"axis_fields_not_carried"})
=============================================================================
