SPECIFICATION Spec
CONSTANTS
  MaxSlices = 3
  Emit = TRUE
INVARIANT EmitCase
CHECK_DEADLOCK FALSE
