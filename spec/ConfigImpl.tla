----------------------------- MODULE ConfigImpl -----------------------------
(* Implementation-shaped model of abtem.core.config.set: __init__/_assign with *)
(* its ("insert", path) / ("replace", path, old) records and the rule "no      *)
(* recording below an insert", dask's canonical_name hyphen/underscore         *)
(* folding, rollback when the constructor raises, and __exit__ undoing the     *)
(* records in reverse.  The configuration is a map from key paths (length 1    *)
(* or 2) to a value, ABSENT or DICT.                                           *)
EXTENDS Config, Integers, FiniteSets, TLC, Json

CONSTANTS Depth,       \* maximum nesting of contexts
          MaxSteps,    \* history bound
          MaxKV,       \* key-value pairs per set(...): 1 or 2
          Emit

ABSENT == -1
DICT == -2
Keys == {"a", "b", "x_y", "x-y"}
Vals == {1, 2}
Alt(k) == IF k = "x_y" THEN "x-y" ELSE IF k = "x-y" THEN "x_y" ELSE k
Paths == {<<k>> : k \in Keys} \cup {<<k1, k2>> : k1 \in Keys, k2 \in Keys}
KeyPaths == Paths

IsPrefix(p, q) == Len(p) <= Len(q) /\ SubSeq(q, 1, Len(p)) = p
Has(c, p) == c[p] # ABSENT
(* dask.config.canonical_name(k, d) for the mapping at node p *)
Canon(c, p, k) == IF Has(c, Append(p, k)) THEN k ELSE IF Has(c, Append(p, Alt(k))) THEN Alt(k) ELSE k
Sub(c, p) == [q \in {q \in Paths : IsPrefix(p, q)} |-> c[q]]
Put(c, p, v) == [q \in Paths |-> IF q = p THEN v ELSE IF IsPrefix(p, q) THEN ABSENT ELSE c[q]]
Restore(c, p, sub) == [q \in Paths |-> IF IsPrefix(p, q) THEN sub[q] ELSE c[q]]
Remove(c, p) == [q \in Paths |-> IF IsPrefix(p, q) THEN ABSENT ELSE c[q]]

(* _assign(keys, value): returns [c, r, ok]; ok = FALSE when the assignment   *)
(* raises (nesting a key under a scalar) -- nothing is recorded for the       *)
(* failing item itself.                                                       *)
Assign(c, r, ks, v) ==
  LET k1 == Canon(c, <<>>, ks[1]) p1 == <<k1>> IN
  IF Len(ks) = 1
  THEN [c |-> Put(c, p1, v),
        r |-> Append(r, IF Has(c, p1) THEN <<"replace", p1, Sub(c, p1)>> ELSE <<"insert", p1>>), ok |-> TRUE]
  ELSE LET fresh == ~Has(c, p1)
           r1 == IF fresh THEN Append(r, <<"insert", p1>>) ELSE r
           c1 == IF fresh THEN Put(c, p1, DICT) ELSE c
       IN IF c1[p1] # DICT THEN [c |-> c1, r |-> r1, ok |-> FALSE]
          ELSE LET k2 == Canon(c1, p1, ks[2]) p2 == <<k1, k2>> IN
               [c |-> Put(c1, p2, v),
                r |-> IF fresh THEN r1 ELSE Append(r1, IF Has(c1, p2) THEN <<"replace", p2, Sub(c1, p2)>>
                                                                         ELSE <<"insert", p2>>),
                ok |-> TRUE]

(* __exit__: undo one record *)
UndoOne(c, op) ==
  LET p == op[2] IN
  IF op[1] = "replace"
  THEN LET c1 == IF Len(p) = 2 /\ c[<<p[1]>>] # DICT THEN Put(c, <<p[1]>>, DICT) ELSE c IN Restore(c1, p, op[3])
  ELSE IF Len(p) = 2 /\ c[<<p[1]>>] # DICT THEN c ELSE Remove(c, p)
RECURSIVE UndoAll(_, _)
UndoAll(c, r) == IF r = <<>> THEN c ELSE UndoAll(UndoOne(c, r[Len(r)]), SubSeq(r, 1, Len(r) - 1))

RECURSIVE AssignAll(_, _, _)
AssignAll(c, r, kvs) == IF kvs = <<>> THEN [c |-> c, r |-> r, ok |-> TRUE]
                        ELSE LET a == Assign(c, r, kvs[1][1], kvs[1][2]) IN
                             IF a.ok THEN AssignAll(a.c, a.r, Tail(kvs)) ELSE a

VARIABLES cfg, recs, snaps, hist
vars == <<cfg, recs, snaps, hist>>

InitCfg == [q \in Paths |-> IF q = <<"a">> THEN DICT ELSE IF q = <<"a", "b">> THEN 1
                            ELSE IF q = <<"x-y">> THEN 1 ELSE IF q = <<"b">> THEN 2 ELSE ABSENT]
Init == cfg = InitCfg /\ recs = <<>> /\ snaps = <<>> /\ hist = <<>>

KVs == {<<p, v>> : p \in KeyPaths, v \in Vals}
KVLists == {<<kv>> : kv \in KVs} \cup (IF MaxKV >= 2 THEN {<<kv1, kv2>> : kv1 \in KVs, kv2 \in KVs} ELSE {})

Enter(kvs) ==
  /\ Len(recs) < Depth
  /\ LET a == AssignAll(cfg, <<>>, kvs) IN
     IF a.ok
     THEN /\ cfg' = a.c /\ recs' = Append(recs, a.r) /\ snaps' = Append(snaps, cfg)
          /\ hist' = Append(hist, [a |-> "Enter", kvs |-> kvs])
     ELSE (* constructor raised: roll back what the earlier items did, no context is entered *)
          /\ cfg' = UndoAll(a.c, a.r) /\ UNCHANGED <<recs, snaps>>
          /\ hist' = Append(hist, [a |-> "EnterFails", kvs |-> kvs])

Exit(exc) == /\ recs # <<>>
             /\ cfg' = UndoAll(cfg, Last(recs))
             /\ recs' = Front(recs) /\ snaps' = Front(snaps)
             /\ hist' = Append(hist, [a |-> IF exc THEN "ExitExc" ELSE "Exit", kvs |-> <<>>])

Next == /\ Len(hist) < MaxSteps
        /\ \/ \E kvs \in KVLists : Enter(kvs)
           \/ \E exc \in BOOLEAN : Exit(exc)
Spec == Init /\ [][Next]_vars

(* well-formedness of the tree: a present path of length 2 sits under a DICT *)
WellFormed == \A p \in Paths : (Len(p) = 2 /\ Has(cfg, p)) => cfg[<<p[1]>>] = DICT

(* ---- design-level claim (C34): the model's Exit is a Config!ExitStep ---- *)
Restored == [][(recs' = Front(recs) /\ recs # <<>>) => ExitStep(snaps, cfg', snaps')]_vars
(* a failing constructor leaves no trace (what makes the enclosing Exit restore everything) *)
FailLeavesNoTrace == [][(recs' = recs) => cfg' = cfg]_vars

DesignView == <<cfg, recs, snaps, Len(hist)>>
AtBound == (Emit /\ Len(hist) = MaxSteps) => PrintT(<<"BEH", ToJson(hist)>>)
=============================================================================
