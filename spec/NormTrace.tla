------------------------------ MODULE NormTrace ------------------------------
EXTENDS Integers, Sequences, FiniteSets, TLC, Json, IOUtils
One == 1000000
Eps == 30
Near1(x) == x >= One - Eps /\ x <= One + Eps
BuildFails(ev) ==
  IF ev.raised THEN {"raised"}
  ELSE CASE ev.kind = "probe" -> IF \A i \in 1..Len(ev.intensity_fp) : Near1(ev.intensity_fp[i]) THEN {} ELSE {"probe_reciprocal_space_intensity"}
    [] ev.kind = "plane_normalized" -> IF \A i \in 1..Len(ev.intensity_fp) : Near1(ev.intensity_fp[i]) THEN {} ELSE {"plane_wave_reciprocal_space_intensity"}
    [] ev.kind = "plane_raw" -> IF Near1(ev.modulus_min_fp) /\ Near1(ev.modulus_max_fp) THEN {} ELSE {"plane_wave_unit_modulus"}
    [] OTHER -> {"unknown_event"}
Traces == JsonDeserialize(IOEnv.TRACE_FILE)
VARIABLES tid, l, bad
tvars == <<tid, l, bad>>
TInit == tid \in 1..Len(Traces) /\ l = 1 /\ bad = << >>
TNext == /\ l <= Len(Traces[tid])
         /\ LET f == BuildFails(Traces[tid][l]) IN bad' = IF f = {} THEN bad ELSE Append(bad, <<l, f>>)
         /\ l' = l + 1 /\ UNCHANGED tid
TSpec == TInit /\ [][TNext]_tvars
Verdict == (l > Len(Traces[tid])) => PrintT(<<"V", tid, bad>>)
=============================================================================
