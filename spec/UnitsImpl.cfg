SPECIFICATION Spec
CONSTANTS
  MaxLen = 3
  Emit = FALSE
INVARIANT TableLawful
INVARIANT PathIndependent
INVARIANT RoundTrip
CHECK_DEADLOCK FALSE
