----------------------------- MODULE Accelerator -----------------------------
(* Growth beyond the listed properties (the electron-energy relations of C24   *)
(* are real analysis and not applicable; the state machine around them is not):*)
(* two Accelerator objects a and b (abtem/core/energy.py), each with an energy *)
(* (undefined = 0) and a lock flag, edited by the energy setter and by match.  *)
(* The transcription follows the code:                                          *)
(*   energy setter : raises when the object is locked, else assigns            *)
(*   x.match(y, check) : check and both defined and different -> raise;        *)
(*                       y undefined -> y.energy := x.energy (through y's      *)
(*                       setter, which raises when y is locked);               *)
(*                       different -> x.energy := y.energy (raises when x is   *)
(*                       locked)                                                *)
(* TLC checks: a locked energy never changes; a raising call changes nothing;  *)
(* after a match that returns, both energies agree whenever one is defined.    *)
(* The histories are replayed on the real class and compared state by state    *)
(* (reported as drift only).                                                    *)
EXTENDS Integers, Sequences, TLC, Json
CONSTANTS Energies, MaxLen, Emit
VARIABLES en, lock, hist, ok
vars == <<en, lock, hist, ok>>
Objs == {"a", "b"}
Other(x) == IF x = "a" THEN "b" ELSE "a"
Init == /\ en \in [Objs -> Energies \cup {0}] /\ lock \in [Objs -> BOOLEAN] /\ ok = TRUE
        /\ hist = <<[op |-> "New", ea |-> en["a"], eb |-> en["b"], la |-> lock["a"], lb |-> lock["b"]]>>
Log(op, x, v, chk, raised, en2) == hist' = Append(hist, [op |-> op, x |-> x, v |-> v, check |-> chk, raised |-> raised, ea |-> en2["a"], eb |-> en2["b"]])
Set(x, v) == /\ Len(hist) < MaxLen
             /\ LET raised == lock[x]
                    en2 == IF raised THEN en ELSE [en EXCEPT ![x] = v] IN
                  /\ en' = en2 /\ Log("Set", x, v, FALSE, raised, en2)
                  /\ ok' = (ok /\ (lock[x] => en2[x] = en[x]))
             /\ UNCHANGED lock
Match(x, chk) ==
  LET y == Other(x)
      mismatch == en[x] # 0 /\ en[y] # 0 /\ en[x] # en[y]
      raised == (chk /\ mismatch) \/ (en[y] = 0 /\ lock[y]) \/ (en[y] # 0 /\ en[x] # en[y] /\ lock[x])
      en2 == IF raised THEN en ELSE IF en[y] = 0 THEN [en EXCEPT ![y] = en[x]] ELSE [en EXCEPT ![x] = en[y]] IN
  /\ Len(hist) < MaxLen
  /\ en' = en2 /\ Log("Match", x, 0, chk, raised, en2)
  /\ ok' = (ok /\ (\A o \in Objs : lock[o] /\ en[o] # 0 => en2[o] = en[o])                 \* a locked, defined energy never changes
               /\ (raised => en2 = en)                                                   \* a raising call changes nothing
               /\ (~raised => (en2[x] = en2[y])))                                        \* after a match both agree
  /\ UNCHANGED lock
Next == (\E x \in Objs, v \in Energies \cup {0} : Set(x, v)) \/ (\E x \in Objs, chk \in BOOLEAN : Match(x, chk))
Spec == Init /\ [][Next]_vars
MachineOK == ok
EmitHistory == (Emit /\ Len(hist) = MaxLen) => PrintT(<<"HIST", ToJson(hist)>>)
=============================================================================
