------------------------------ MODULE Ensemble ------------------------------
(* Property-level specification of ensemble partitioning (property C19).      *)
(* An ensemble has k axes; axis d has a sequence members[d] of member         *)
(* identities (positions, values+weights, seeds, array items, axis values);   *)
(* a member of the product ensemble is one identity per axis.                 *)
(* C19: "Splitting any ensemble into blocks with any valid chunking and       *)
(* reassembling the blocks yields exactly the original members in the         *)
(* original order.  Lazy and eager partitioning agree."                       *)
EXTENDS Chunks

RangesOf(c) == [i \in 1..Len(c) |-> <<SumSeq(SubSeq(c, 1, i)) - c[i], SumSeq(SubSeq(c, 1, i))>>]
RECURSIVE BlockIndexSet(_)
BlockIndexSet(chunks) == IF chunks = << >> THEN {<< >>}
                         ELSE {<<i>> \o t : i \in 1..Len(Head(chunks)), t \in BlockIndexSet(Tail(chunks))}

(* one block: [idx : block index per axis (1-based), axes : per-axis identities, slices : per-axis <<start, stop>>] *)
BlockOK(members, chunks, b) ==
   /\ Len(b.idx) = Len(chunks) /\ Len(b.axes) = Len(chunks)
   /\ \A d \in 1..Len(chunks) :
        /\ b.idx[d] \in 1..Len(chunks[d])
        /\ LET r == RangesOf(chunks[d])[b.idx[d]] IN
             b.axes[d] = SubSeq(members[d], r[1] + 1, r[2])      \* exactly these members, in order

SlicesOK(chunks, b) == \A d \in 1..Len(chunks) : b.idx[d] \in 1..Len(chunks[d]) /\ b.slices[d] = RangesOf(chunks[d])[b.idx[d]]

(* every block index exactly once *)
CoversOnce(chunks, blocks) ==
   /\ Len(blocks) = Cardinality(BlockIndexSet(chunks))
   /\ \A i, j \in 1..Len(blocks) : i # j => blocks[i].idx # blocks[j].idx

PartitionFails(ev) ==
  IF ev.raised THEN {"raised"}
  ELSE
     (IF Partitions(ev.shape, ev.chunks) THEN {} ELSE {"chunks_do_not_partition"})
\cup (IF \A d \in 1..Len(ev.shape) : Len(ev.members[d]) = ev.shape[d] THEN {} ELSE {"shape"})
\cup (IF CoversOnce(ev.chunks, ev.eager) THEN {} ELSE {"eager_blocks_not_exactly_once"})
\cup (IF CoversOnce(ev.chunks, ev.lazy) THEN {} ELSE {"lazy_blocks_not_exactly_once"})
\cup (IF \A i \in 1..Len(ev.eager) : BlockOK(ev.members, ev.chunks, ev.eager[i]) THEN {} ELSE {"eager_members"})
\cup (IF \A i \in 1..Len(ev.lazy) : BlockOK(ev.members, ev.chunks, ev.lazy[i]) THEN {} ELSE {"lazy_members"})
\cup (IF \A i \in 1..Len(ev.eager) : SlicesOK(ev.chunks, ev.eager[i]) THEN {} ELSE {"slices"})
\cup (IF ev.product_ok THEN {} ELSE {"block_is_not_a_product_of_its_axes"})
\* growth (GraphNames.tla): a task key of this object's lazy blocks also names a task with another payload in the sibling's graph
\cup (IF ev.names_shared THEN {"growth_distinct_objects_share_task_names"} ELSE {})
=============================================================================
