------------------------------ MODULE ScanImpl ------------------------------
(* Implementation-shaped model of the gpts/sampling resolution of scans:      *)
(*   LineScan.__init__ -> _adjust_gpts -> _adjust_sampling                    *)
(*   GridScan.__init__ -> Grid(extent, gpts, sampling, endpoint)              *)
(* for one axis of length L.  TLC enumerates every case, checks that the      *)
(* resolved (gpts, sampling) make linspace(start, end, gpts, endpoint)        *)
(* satisfy Scan.tla, and emits the cases (with the predicted resolution).     *)
EXTENDS Scan, TLC, Json

CONSTANTS Lengths, GptsSet, SamplingSet, Emit
VARIABLES c, done
vars == <<c, done>>

(* spec: <<"g", n>> or <<"s", num, den>> *)
Specs == {<<"g", n>> : n \in GptsSet} \cup {<<"s", s[1], s[2]>> : s \in SamplingSet}
Ceil(a) == RCeil(a)

ResolveLine(L, sp, endp) ==
  LET g0 == IF sp[1] = "g" THEN sp[2] ELSE Ceil(RDiv(L, <<sp[2], sp[3]>>))
      s == IF endp /\ g0 > 1 THEN RDiv(L, RInt(g0 - 1)) ELSE RDiv(L, RInt(g0))
  IN <<g0, s>>
(* Grid.__init__ with extent given: gpts None -> ceil(e/s) (+1 endpoint); sampling always re-derived from extent *)
ResolveGrid(L, sp, endp) ==
  LET g0 == IF sp[1] = "g" THEN sp[2] ELSE Ceil(RDiv(L, <<sp[2], sp[3]>>)) + (IF endp THEN 1 ELSE 0)
      iv == IF endp THEN g0 - 1 ELSE g0
      s == IF iv = 0 THEN RInt(0) ELSE RDiv(L, RInt(iv))
  IN <<g0, s>>

(* probe-shift scenarios: grid shape x extent x class of position *)
ProbeGpts == {<<8, 8>>, <<9, 12>>, <<12, 9>>, <<48, 24>>}
ProbeExtents == {<<4, 4>>, <<10, 6>>}
PosClasses == {"origin", "on_pixel", "half_pixel", "generic", "negative", "beyond_extent", "several"}
Init == /\ \/ \E k \in {"line", "grid"}, L \in Lengths, sp \in Specs, e \in BOOLEAN :
                c = [kind |-> k, L |-> L, spec |-> sp, endpoint |-> e]
           \/ \E g \in ProbeGpts, x \in ProbeExtents, pc \in PosClasses :
                c = [kind |-> "probe", gpts |-> g, extent |-> x, pos |-> pc]
        /\ done = FALSE
Next == ~done /\ done' = TRUE /\ UNCHANGED c
Spec == Init /\ [][Next]_vars

Res == IF c.kind = "line" THEN ResolveLine(c.L, c.spec, c.endpoint) ELSE ResolveGrid(c.L, c.spec, c.endpoint)
(* np.linspace(0, L, n, endpoint) *)
Lin(n, L, endp) == [i \in 1..n |-> IF n = 1 THEN RInt(0)
                                   ELSE RMul(RInt(i - 1), RDiv(L, RInt(IF endp THEN n - 1 ELSE n)))]
(* design-level claim: the resolved sampling is the spacing of the generated positions and reaches the end *)
Degenerate == c.endpoint /\ Res[1] = 1
ResolvedOK == (done /\ c.kind # "probe") => (Degenerate \/ (/\ AxisPositionsOK(Lin(Res[1], c.L, c.endpoint), Res[1], RInt(0), Res[2])
                                      /\ AxisEndOK(Res[1], RInt(0), c.L, Res[2], c.endpoint)))
EmitCase == (Emit /\ done) => IF c.kind = "probe" THEN PrintT(<<"CASE", ToJson([c |-> c])>>)
                            ELSE PrintT(<<"CASE", ToJson([c |-> c, gpts |-> Res[1], sampling |-> Res[2]])>>)
=============================================================================
