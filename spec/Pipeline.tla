------------------------------- MODULE Pipeline -------------------------------
(* Property-level specification of lazy vs eager evaluation (property C01).    *)
(* A scenario is a simulation pipeline; a variant is one way of evaluating it  *)
(* lazily (max_batch, scheduler).  C01: "returns the same measurement values,  *)
(* shape, type and axes metadata whether evaluated eagerly or lazily.  The     *)
(* lazy result does not depend on max_batch, on the dask chunking it induces,  *)
(* or on the dask scheduler, and both modes either succeed or fail together."  *)
EXTENDS Integers, Sequences, FiniteSets

Builders == {"probe", "plane"}
Potentials == {"atoms", "fp_mean", "fp_nomean", "atoms_ensemble", "crystal", "array"}
ExitPlanes == {"none", "int", "tuple"}
Detectors == {"waves", "annular", "flexible", "segmented", "pixelated", "two"}
Scans == {"none", "custom", "line", "grid", "grid_uneven", "grid_mixed_endpoint"}      \* grid_uneven: 2 x 8 positions; max_batch 6 splits it as (2) x (3, 3, 2) (a remainder block of more than one position)
\* grid_mixed_endpoint: 3 x 4 positions, endpoint = (TRUE, FALSE): the two axes follow different spacing rules
\* beam tilt of the builder: none, a series along the SECOND component only, a scalar first component with a series along the second
Tilts == {"none", "y_series", "x_scalar_y_series"}
Batches == {"1", "3", "6", "auto"}
Schedulers == {"synchronous", "threads"}
Variants == {<<b, s>> : b \in Batches, s \in Schedulers}

(* which combinations are simulations the library offers *)
Valid(s) == /\ (s.builder = "plane" => s.scan = "none")
            /\ (s.scan = "none" => s.detector \in {"waves", "pixelated"})
            /\ (s.ctf => s.detector \in {"waves", "pixelated"})
            \* ctf_series: the CTF that is applied carries a weighted defocus series centred on zero (one member has defocus exactly 0), averaged
            \* (ensemble_mean): with an averaged frozen-phonon potential there are then two averaged ensemble axes
            /\ (s.ctf_series => s.ctf /\ s.tilt = "none" /\ s.exit_planes = "none")
            \* tilt series are combined with the plainest pipelines (the tilt axis is one more ensemble axis in front of everything else)
            /\ (s.tilt # "none" => /\ s.exit_planes = "none" /\ ~s.ctf /\ s.potential \in {"atoms", "fp_nomean", "array"}
                                   /\ s.detector \in {"waves", "annular", "pixelated"} /\ s.scan \in {"none", "custom", "grid"})

Tol == 50000
VariantFails(ev, v) ==
  IF v.outcome # ev.eager_outcome THEN {"modes_do_not_succeed_or_fail_together"}
  ELSE IF v.outcome # "ok" THEN {}
  ELSE (IF v.type_eq THEN {} ELSE {"type"})
  \cup (IF v.shape_eq THEN {} ELSE {"shape"})
  \cup (IF v.axes_eq THEN {} ELSE {"axes_metadata"})
  \cup (IF v.meta_eq THEN {} ELSE {"metadata"})
  \cup (IF v.err_ppb <= Tol THEN {} ELSE {"values"})
  \cup (IF v.blocks = v.expected_blocks THEN {} ELSE {"blocks_not_executed_exactly_once"})
ScenarioFails(ev) ==
     UNION {VariantFails(ev, ev.variants[i]) : i \in 1..Len(ev.variants)}
\cup (IF {<<ev.variants[i].mb, ev.variants[i].sched>> : i \in 1..Len(ev.variants)} = Variants THEN {} ELSE {"variant_not_observed"})
=============================================================================
