SPECIFICATION Spec
CONSTANTS
  MaxN = 9
  Emit = FALSE
INVARIANT MasksSameSize
INVARIANT CropOK
INVARIANT UpDownIdentity
INVARIANT RollAdditive
INVARIANT RollPeriodic
CHECK_DEADLOCK FALSE
