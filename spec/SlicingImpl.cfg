SPECIFICATION Spec
CONSTANTS
  MaxH = 5
  Emit = FALSE
INVARIANT ExactlyOneSlice
INVARIANT BoundaryGoesUp
INVARIANT SumsToHeight
CHECK_DEADLOCK FALSE
