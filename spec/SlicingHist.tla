----------------------------- MODULE SlicingHist -----------------------------
(* History machine for C09 ("every atom is assigned to exactly one slice ...   *)
(* the potential of a union of atom sets is the sum of the potentials"):       *)
(* a Potential object is inspected - its sliced atoms are queried for windows  *)
(* of slices, for all elements or for one element, it is projected, slices are *)
(* generated for a window - and then built.  What the build contains must not  *)
(* depend on the inspections: every atom of every element is in exactly one    *)
(* slice of the built potential.  The transcription of SliceIndexedAtoms keeps *)
(* no memory between calls (get_atoms_in_slices indexes self.atoms anew); the  *)
(* named deviation CacheIgnoresElement is a per-window cache keyed without the *)
(* element filter, for which TLC returns QueryElement(w, Z); Build.            *)
EXTENDS Integers, Sequences, FiniteSets, TLC, Json
CONSTANTS MaxLen, Emit, CacheIgnoresElement
VARIABLES cache, hist, ok
vars == <<cache, hist, ok>>
Elements == {"A", "B"}
Windows == {<<0, 1>>, <<1, 3>>, <<0, 3>>}          \* (first, last) slice windows of a 3-slice potential
BuildWindows == {<<0, -1>>, <<1, -1>>, <<2, -1>>}  \* last = -1: the single-slice form get_atoms_in_slices(i) the build itself uses
(* content of a window query: the set of elements whose atoms are returned *)
Answer(w, filt) == IF CacheIgnoresElement /\ w \in DOMAIN cache THEN cache[w] ELSE filt
Remember(w, filt) == IF w \in DOMAIN cache THEN cache ELSE [x \in DOMAIN cache \cup {w} |-> IF x = w THEN filt ELSE cache[x]]
Init == cache = << >> /\ hist = << >> /\ ok = TRUE
Query(w, filt, name) == /\ Len(hist) < MaxLen
                        /\ cache' = Remember(w, Answer(w, filt))
                        /\ hist' = Append(hist, [a |-> name, first |-> w[1], last |-> w[2], element |-> IF filt = Elements THEN "all" ELSE CHOOSE e \in filt : TRUE])
                        /\ UNCHANGED ok
QueryAll == \E w \in Windows : Query(w, Elements, "QueryAll")
QueryElement == \E w \in Windows \cup BuildWindows : \E e \in Elements : Query(w, {e}, "QueryElement")
Project == /\ Len(hist) < MaxLen /\ hist' = Append(hist, [a |-> "Project", first |-> 0, last |-> 0, element |-> "all"])
           /\ ok' = (ok /\ \A w \in BuildWindows : Answer(w, Elements) = Elements)
           /\ cache' = cache
GenerateWindow == \E w \in Windows : /\ Len(hist) < MaxLen
                                     /\ hist' = Append(hist, [a |-> "GenerateWindow", first |-> w[1], last |-> w[2], element |-> "all"])
                                     /\ UNCHANGED <<cache, ok>>
Build == /\ Len(hist) < MaxLen
         /\ ok' = (ok /\ \A w \in BuildWindows : Answer(w, Elements) = Elements)       \* the build sees every element in every slice
         /\ hist' = Append(hist, [a |-> "Build", first |-> 0, last |-> 0, element |-> "all"])
         /\ cache' = cache
Next == QueryAll \/ QueryElement \/ Project \/ GenerateWindow \/ Build
Spec == Init /\ [][Next]_vars
BuildContainsEveryAtom == ok
EmitHistory == (Emit /\ Len(hist) = MaxLen /\ hist[Len(hist)].a \in {"Build", "Project"}) => PrintT(<<"HIST", ToJson(hist)>>)
=============================================================================
