---------------------------- MODULE MultisliceImpl ----------------------------
(* Implementation-shaped model of multislice.multislice_and_detect with        *)
(* potentials._validate_exit_planes: the configuration loop (the wave is       *)
(* restarted from a copy of the incident wave for every configuration), the    *)
(* optional entrance-plane detection, the slice loop and the detection after   *)
(* the slices listed as exit planes.  One loop iteration / detection = one     *)
(* step.  TLC checks that what is recorded equals Multislice!AtPlane for every *)
(* number of configurations, slices and every exit_planes argument.            *)
EXTENDS Multislice, TLC, Json
CONSTANTS MaxSlices, MaxCfgs, Emit,
          ResetPerConfig,       \* TRUE: the code as fixed; FALSE reproduces the carried-over wave defect
          ShortcutAnyPlane      \* FALSE: the code as fixed (be1ddf9a); TRUE reproduces "one exit plane + one configuration: the exit waves
                                \* stand in for the record even when the plane is not the exit surface"
VARIABLES n, ncfg, spec, planes, pc, cfg, sl, pl, wave, meas
vars == <<n, ncfg, spec, planes, pc, cfg, sl, pl, wave, meas>>

(* _validate_exit_planes(exit_planes, num_slices): spec = <<"none">> | <<"int", k>> | <<"tuple", seq>> *)
RECURSIVE RangeStep(_, _, _)
RangeStep(a, b, s) == IF a >= b THEN << >> ELSE <<a>> \o RangeStep(a + s, b, s)
Validate(sp, ns) ==
  IF sp[1] = "none" THEN <<ns - 1>>
  ELSE IF sp[1] = "int" THEN
         IF sp[2] >= ns THEN <<ns - 1>>
         ELSE LET r == RangeStep(sp[2] - 1, ns, sp[2])
                  r2 == IF r[Len(r)] # ns - 1 THEN Append(r, ns - 1) ELSE r
              IN <<-1>> \o r2
  ELSE sp[2]
RECURSIVE IncreasingSeqs(_, _)
(* all strictly increasing sequences over lo..hi *)
IncreasingSeqs(lo, hi) == IF lo > hi THEN {<< >>}
                          ELSE IncreasingSeqs(lo + 1, hi) \cup {<<lo>> \o t : t \in IncreasingSeqs(lo + 1, hi)}
Specs(ns) == {<<"none">>} \cup {<<"int", k>> : k \in 1..(ns + 1)}
             \* an explicit tuple is taken as given: it need not end at the last slice (then nothing is recorded for the full run)
             \cup {<<"tuple", t>> : t \in {t \in IncreasingSeqs(-1, ns - 1) : t # << >>}}

Init == /\ n \in 1..MaxSlices /\ ncfg \in 1..MaxCfgs
        /\ spec \in Specs(n) /\ planes = Validate(spec, n)
        /\ pc = "cfgstart" /\ cfg = 0 /\ sl = 0 /\ pl = 0 /\ wave = Incident
        /\ meas = << >>
Record == meas' = Append(meas, [cfg |-> cfg, plane |-> planes[pl + 1], wave |-> wave])
CfgStart == /\ pc = "cfgstart" /\ cfg < ncfg
            /\ wave' = IF ResetPerConfig THEN Incident ELSE wave
            /\ sl' = 0 /\ pl' = 0 /\ pc' = "entrance" /\ UNCHANGED <<n, ncfg, spec, planes, cfg, meas>>
Entrance == /\ pc = "entrance"
            /\ IF planes[1] = -1 THEN Record /\ pl' = 1 ELSE UNCHANGED <<meas, pl>>
            /\ pc' = "slice" /\ UNCHANGED <<n, ncfg, spec, planes, cfg, sl, wave>>
Slice == /\ pc = "slice" /\ sl < n
         /\ wave' = StepT(wave, cfg, sl) /\ sl' = sl + 1
         /\ pc' = IF pl < Len(planes) /\ planes[pl + 1] = sl THEN "detect" ELSE "slice"
         /\ UNCHANGED <<n, ncfg, spec, planes, cfg, pl, meas>>
Detect == /\ pc = "detect" /\ Record /\ pl' = pl + 1 /\ pc' = "slice"
          /\ UNCHANGED <<n, ncfg, spec, planes, cfg, sl, wave>>
(* multislice_and_detect allocates no measurements when the ensemble shape sums to one (a single configuration) and there is one *)
(* exit plane: the waves after the last slice are returned instead of what was recorded                                       *)
Shortcut == ncfg = 1 /\ Len(planes) = 1 /\ (ShortcutAnyPlane \/ planes[1] = n - 1)
CfgEnd == /\ pc = "slice" /\ sl = n /\ cfg' = cfg + 1 /\ pc' = "cfgstart"
          /\ meas' = IF Shortcut THEN <<[cfg |-> cfg, plane |-> planes[1], wave |-> wave]>> ELSE meas
          /\ UNCHANGED <<n, ncfg, spec, planes, sl, pl, wave>>
Next == CfgStart \/ Entrance \/ Slice \/ Detect \/ CfgEnd
Spec == Init /\ [][Next]_vars

PlanesWellFormed == PlanesOK(planes, n)
(* every recorded measurement is the wave through exactly the slices up to its plane of ITS configuration *)
RecordsCorrect == \A i \in 1..Len(meas) : meas[i].wave = AtPlane(meas[i].cfg, meas[i].plane)
(* at the end every (configuration, plane) was recorded exactly once, in order; the last plane is the full run *)
Complete == (pc = "cfgstart" /\ cfg = ncfg) =>
              /\ Len(meas) = ncfg * Len(planes)
              /\ \A k \in 0..(ncfg - 1), p \in 1..Len(planes) :
                    LET m == meas[k * Len(planes) + p] IN m.cfg = k /\ m.plane = planes[p]
              /\ (spec[1] # "tuple" => planes[Len(planes)] = n - 1)
EmitCase == (Emit /\ pc = "cfgstart" /\ cfg = ncfg) =>
              PrintT(<<"CASE", ToJson([n |-> n, ncfg |-> ncfg, spec |-> spec, planes |-> planes])>>)
=============================================================================
