-------------------------------- MODULE Decomp --------------------------------
(* Property-level specification of parameter ensembles (property C03).          *)
(* A transform with distribution-valued parameters p_1 .. p_k (value sequences  *)
(* v_1 .. v_k) denotes the product ensemble whose member (i_1 .. i_k) is the    *)
(* simulation with the scalars (v_1[i_1] .. v_k[i_k]); the ensemble axis of     *)
(* p_j lists v_j in order; an averaged axis holds the mean over its members.    *)
EXTENDS Integers, Sequences, FiniteSets, TLC, Json
Tol == 50000
AllLe(s, t) == \A i \in 1..Len(s) : s[i] <= t
EnsembleFails(ev) ==
  IF ev.raised # ev.scalar_raised THEN {"ensemble_and_scalar_runs_do_not_fail_together"}
  ELSE IF ev.raised THEN {}
  ELSE (IF ev.shape_ok THEN {} ELSE {"ensemble_shape"})
  \cup (IF ev.axes_ok THEN {} ELSE {"axis_metadata_lists_the_values_in_order"})
  \cup (IF AllLe(ev.members_ppb, Tol) THEN {} ELSE {"member_differs_from_scalar_run"})
  \cup (IF ev.mean_ppb <= Tol THEN {} ELSE {"averaged_axis_is_not_the_mean"})

CONSTANTS Emit
VARIABLES c, done
vars == <<c, done>>
(* which parameters of which object can be distributions *)
ParamsOf == [probe |-> {"defocus", "C30", "C12", "phi12", "semiangle_cutoff", "tilt_x", "positions"},
             plane_wave |-> {"tilt_x", "tilt_y"},
             ctf |-> {"defocus", "C30", "semiangle_cutoff", "focal_spread", "angular_spread"},
             aperture |-> {"semiangle_cutoff"},
             temporal |-> {"focal_spread"},
             spatial |-> {"angular_spread", "defocus"}]
Objects == DOMAIN ParamsOf
ParamSets(o) == {{p} : p \in ParamsOf[o]} \cup {{p, q} : p \in ParamsOf[o], q \in ParamsOf[o]}
(* batch: max_batch of the lazy graph ("two" splits a 5-member axis unevenly: 2, 2, 1); companion: the scalar parameters   *)
(* that accompany the distributions are zero or non-zero (a tilt given as (distribution, scalar), a CTF with a fixed Cs) *)
Init == /\ \E o \in Objects : \E ps \in ParamSets(o) : \E n1 \in {1, 2, 3, 5}, n2 \in {2}, soft \in BOOLEAN, mean \in BOOLEAN, lz \in BOOLEAN,
                                                       b \in {"auto", "two"}, comp \in {"zero", "nonzero"}, wt \in BOOLEAN :
             /\ (b = "two" => lz /\ n1 = 5) /\ (n1 = 5 => b = "two")
             \* weighted: the distributions carry non-unit weights (a focal series); a transfer function applied to existing waves
             \* yields member i = weight_i x the scalar run (the builders renormalise; apertures and envelopes do not use the weights)
             /\ (wt => o \in {"ctf", "spatial"} /\ ps \subseteq {"defocus", "C30"})        \* only the aberration kernel carries the weights
             /\ c = [obj |-> o, params |-> ps, n1 |-> n1, n2 |-> n2, soft |-> soft, mean |-> mean, lazy |-> lz, batch |-> b, companion |-> comp,
                     weighted |-> wt]
        /\ done = FALSE
Next == ~done /\ done' = TRUE /\ UNCHANGED c
Spec == Init /\ [][Next]_vars
EmitCase == (Emit /\ done) => PrintT(<<"CASE", ToJson(c)>>)
=============================================================================
