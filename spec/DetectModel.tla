----------------------------- MODULE DetectModel -----------------------------
(* Scenario enumeration for C12 and the set algebra behind it, checked by TLC  *)
(* on the integer lattice: rings over adjacent ranges are disjoint and their   *)
(* union is the ring of the union; flexible bins of width w tile [0, K w).     *)
EXTENDS Detect, TLC, Json
CONSTANTS Sizes, Emit
VARIABLES c, done
vars == <<c, done>>
Q(k) == <<4 * k + 1, 4>>          \* k + 1/4 : never the radius of a lattice pixel
Limits == {<<0, 1>>} \cup {Q(k) : k \in 1..5}
(* flexible steps whose bin edges offset + k w never hit an integer radius inside the simulated range *)
Steps == {<<9, 8>>, <<13, 8>>}
Segs == {<<1, 1>>, <<2, 1>>, <<2, 4>>, <<3, 2>>}
(* from the centre (offset 0) also a step that is no binary fraction: its edges 7 j / 20 meet a lattice radius only at j = 20 *)
StepsFor(lo) == IF lo = <<0, 1>> THEN Steps \cup {<<7, 20>>} ELSE Steps
Init == /\ \E n \in Sizes, lo \in Limits, mid \in Limits, hi \in Limits, sg \in Segs : \E st \in StepsFor(lo) :
             /\ RLt(lo, mid) /\ RLt(mid, hi) /\ RLe(hi, RInt(n \div 2))
             /\ c = [n |-> n, inner |-> lo, mid |-> mid, outer |-> hi, step |-> st, segs |-> sg]
        /\ done = FALSE
Next == ~done /\ done' = TRUE /\ UNCHANGED c
Spec == Init /\ [][Next]_vars
Additive == Ring(c.n, c.inner, c.mid) \cup Ring(c.n, c.mid, c.outer) = Ring(c.n, c.inner, c.outer)
            /\ Ring(c.n, c.inner, c.mid) \cap Ring(c.n, c.mid, c.outer) = {}
BinsTile == LET K == 3 IN UNION {Ring(c.n, RMul(RInt(k - 1), c.step), RMul(RInt(k), c.step)) : k \in 1..K} = Ring(c.n, RInt(0), RMul(RInt(K), c.step))
EmitCase == (Emit /\ done) => PrintT(<<"CASE", ToJson(c)>>)
=============================================================================
