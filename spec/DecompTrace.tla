----------------------------- MODULE DecompTrace -----------------------------
EXTENDS Integers, Sequences, FiniteSets, TLC, Json, IOUtils
Tol == 50000
AllLe(s, t) == \A i \in 1..Len(s) : s[i] <= t
EnsembleFails(ev) ==
  IF ev.raised # ev.scalar_raised THEN {"ensemble_and_scalar_runs_do_not_fail_together"}
  ELSE IF ev.raised THEN {}
  ELSE (IF ev.shape_ok THEN {} ELSE {"ensemble_shape"})
  \cup (IF ev.axes_ok THEN {} ELSE {"axis_metadata_lists_the_values_in_order"})
  \cup (IF AllLe(ev.members_ppb, Tol) THEN {} ELSE {"member_differs_from_scalar_run"})
  \cup (IF ev.mean_ppb <= Tol THEN {} ELSE {"averaged_axis_is_not_the_mean"})
Traces == JsonDeserialize(IOEnv.TRACE_FILE)
VARIABLES tid, l, bad
tvars == <<tid, l, bad>>
TInit == tid \in 1..Len(Traces) /\ l = 1 /\ bad = << >>
TNext == /\ l <= Len(Traces[tid])
         /\ LET f == EnsembleFails(Traces[tid][l]) IN bad' = IF f = {} THEN bad ELSE Append(bad, <<l, f>>)
         /\ l' = l + 1 /\ UNCHANGED tid
TSpec == TInit /\ [][TNext]_tvars
Verdict == (l > Len(Traces[tid])) => PrintT(<<"V", tid, bad>>)
=============================================================================
