--------------------------------- MODULE Norm ---------------------------------
(* Property-level specification of wave normalisation (property C05).           *)
(* C05: "Every probe built by Probe.build has unit total intensity in           *)
(* reciprocal space, for any aperture, aberrations, tilt and probe position.    *)
(* A PlaneWave built with normalize=True has unit reciprocal-space intensity    *)
(* and one built without it has unit modulus at every pixel."                   *)
(* Observations are fixed point (x 10^6) per built wave function.               *)
EXTENDS Integers, Sequences, FiniteSets, TLC, Json
One == 1000000
Eps == 30        \* 3e-5, single precision
Near1(x) == x >= One - Eps /\ x <= One + Eps
BuildFails(ev) ==
  IF ev.raised THEN {"raised"}
  ELSE CASE ev.kind = "probe" -> IF \A i \in 1..Len(ev.intensity_fp) : Near1(ev.intensity_fp[i]) THEN {} ELSE {"probe_reciprocal_space_intensity"}
    [] ev.kind = "plane_normalized" -> IF \A i \in 1..Len(ev.intensity_fp) : Near1(ev.intensity_fp[i]) THEN {} ELSE {"plane_wave_reciprocal_space_intensity"}
    [] ev.kind = "plane_raw" -> IF Near1(ev.modulus_min_fp) /\ Near1(ev.modulus_max_fp) THEN {} ELSE {"plane_wave_unit_modulus"}
    [] OTHER -> {"unknown_event"}

CONSTANTS Emit
VARIABLES c, done
vars == <<c, done>>
Grids == {<<16, 16>>, <<17, 17>>, <<16, 21>>, <<25, 18>>}
Cutoffs == {"small", "mid", "near_antialias", "beyond_antialias"}
Aberrations == {"none", "defocus", "C30", "C12", "C21", "C23", "C32", "C34", "C45", "C56", "cs_defocus", "astig_coma",
                "defocus_gaussian", "cs_series"}            \* parameter distributions: every member of the built ensemble is a probe
Tilts == {"none", "tilted", "tilt_distribution", "tilt_pairs"}
Positions == {"origin", "off_grid", "several", "outside_cell", "grid_scan"}
Edits == {"energy", "extent", "gpts", "sampling", "cutoff", "defocus", "Cs", "tilt"}
PlaneEdits == {"energy", "extent", "gpts", "sampling", "tilt"}
Init == /\ \/ \E g \in Grids, cu \in Cutoffs, s \in BOOLEAN, ab \in Aberrations, t \in Tilts, p \in Positions, lz \in BOOLEAN :
                c = [kind |-> "probe", gpts |-> g, cutoff |-> cu, soft |-> s, ab |-> ab, tilt |-> t, pos |-> p, lazy |-> lz]
           \/ \E g \in Grids, t \in Tilts, nm \in BOOLEAN, lz \in BOOLEAN :
                c = [kind |-> IF nm THEN "plane_normalized" ELSE "plane_raw", gpts |-> g, cutoff |-> "mid", soft |-> TRUE, ab |-> "none", tilt |-> t,
                     pos |-> "origin", lazy |-> lz]
           \* histories: one builder object is built, edited through its public attributes, and built again - the second build is normalised too
           \/ \E e1 \in Edits, e2 \in Edits \cup {"none"}, g \in {<<16, 16>>, <<16, 21>>}, lz \in BOOLEAN, k \in {"probe", "plane_normalized", "plane_raw"} :
                /\ (k # "probe" => e1 \in PlaneEdits /\ e2 \in PlaneEdits \cup {"none"})
                /\ c = [kind |-> k, gpts |-> g, cutoff |-> "mid", soft |-> TRUE, ab |-> "cs_defocus", tilt |-> "tilted", pos |-> "several", lazy |-> lz,
                        edits |-> IF e2 = "none" THEN <<e1>> ELSE <<e1, e2>>]
        /\ done = FALSE
Next == ~done /\ done' = TRUE /\ UNCHANGED c
Spec == Init /\ [][Next]_vars
EmitCase == (Emit /\ done) => PrintT(<<"CASE", ToJson(c)>>)
=============================================================================
