---------------------------- MODULE PotentialCache ----------------------------
(* Property-level specification of reusing a potential after grid changes (C11) *)
(* C11: "After a potential has been built, changing its gpts or sampling and    *)
(* building it again gives the same result as a newly constructed potential     *)
(* with the new grid.  No result depends on which grids the object was used     *)
(* with before."  A build result is the symbolic value <<"pot", grid>> of the   *)
(* grid its ingredients were computed for; a fresh potential yields             *)
(* <<"pot", current grid>>.                                                     *)
EXTENDS Integers, Sequences, FiniteSets

Fresh(grid) == <<"pot", grid>>
BuildOK(result, grid) == result = Fresh(grid)

Tol == 20000
EventFails(ev) ==
  IF ev.a # "build" THEN {}
  ELSE (IF ev.raised = ev.fresh_raised THEN {} ELSE {"reused_and_fresh_potential_do_not_fail_together"})
  \cup (IF ev.raised \/ ev.fresh_raised \/ ev.err_ppb <= Tol THEN {} ELSE {"result_depends_on_previous_grids"})
=============================================================================
