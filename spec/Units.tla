-------------------------------- MODULE Units --------------------------------
(* Property-level specification of unit conversion (property C33).            *)
(* A conversion factor is 10^e * (180/pi)^d, written <<e, d>> ("log domain"): *)
(* multiplying factors adds the pairs, the identity is <<0, 0>>.              *)
(* C33: "Converting from a to b and then to c gives the same result as        *)
(* converting from a to c directly, and converting a to b and back to a is    *)
(* the identity, within each category".                                       *)
EXTENDS Integers, Sequences

Categories == [real |-> {"Å", "Angstrom", "nm", "um", "mm", "m"},
               reciprocal |-> {"1/Å", "1/Angstrom", "1/nm", "1/um", "1/mm", "1/m"},
               angular |-> {"rad", "mrad", "deg"}]
CategoryNames == {"real", "reciprocal", "angular"}
AllUnits == UNION {Categories[c] : c \in CategoryNames}
CategoryOf(u) == CHOOSE c \in CategoryNames : u \in Categories[c]

Add(f, g) == <<f[1] + g[1], f[2] + g[2]>>
Neg(f) == <<-f[1], -f[2]>>
One == <<0, 0>>

(* F is any family of conversion factors F[a][b]; the two laws of C33: *)
Composes(F, a, b, c) == Add(F[a][b], F[b][c]) = F[a][c]
Inverts(F, a, b) == Add(F[a][b], F[b][a]) = One
Lawful(F, units) == /\ \A a, b, c \in units : Composes(F, a, b, c)
                    /\ \A a, b \in units : Inverts(F, a, b)
=============================================================================
