------------------------------- MODULE Transfer -------------------------------
(* Property-level specification of apertures and partial-coherence envelopes  *)
(* (property C23).  Observations of one evaluated kernel are fixed-point      *)
(* integers (value x 10^6): extrema over all pixels, the value at zero        *)
(* scattering angle, extrema over the pixel zones defined by the statement.   *)
(* C23: "Aperture transmissions lie in [0, 1]; a hard aperture is 1 exactly   *)
(* up to the cutoff and 0 beyond it, and a soft aperture is 1 below the       *)
(* cutoff minus half a pixel and 0 above the cutoff plus half a pixel.        *)
(* Temporal and spatial envelopes with non-negative spread lie in [0, 1] and  *)
(* equal 1 at zero scattering angle, and a CTF never transmits more than its  *)
(* aperture."                                                                 *)
EXTENDS Integers, Sequences, FiniteSets

One == 1000000
Eps == 20           \* 2e-5: single precision evaluation
InUnit(ev) == ev.min_fp >= -Eps /\ ev.max_fp <= One + Eps
IsOne(x) == x >= One - Eps /\ x <= One + Eps
IsZero(x) == x >= -Eps /\ x <= Eps

KernelFails(ev) ==
  IF ev.raised THEN {"raised"}
  ELSE IF ~ev.shape_ok THEN {"kernel_not_on_the_current_grid"}
  ELSE CASE ev.kind = "aperture" ->
         (IF InUnit(ev) THEN {} ELSE {"transmission_in_unit_interval"})
    \cup (IF ev.n_inner = 0 \/ (IsOne(ev.inner_min) /\ IsOne(ev.inner_max)) THEN {} ELSE {"one_inside_cutoff"})
    \cup (IF ev.n_outer = 0 \/ (IsZero(ev.outer_min) /\ IsZero(ev.outer_max)) THEN {} ELSE {"zero_outside_cutoff"})
    \cup (IF ev.soft \/ ev.binary THEN {} ELSE {"hard_aperture_is_binary"})
    \* on a coordinate axis the radial extent of a pixel is that axis' own angular sampling, whatever "a pixel" means elsewhere
    \cup (IF ev.n_axis_inner = 0 \/ IsOne(ev.axis_inner_min) THEN {} ELSE {"soft_edge_wider_than_a_pixel_along_an_axis"})
    \cup (IF ev.n_axis_outer = 0 \/ IsZero(ev.axis_outer_max) THEN {} ELSE {"soft_edge_wider_than_a_pixel_along_an_axis"})
    [] ev.kind \in {"temporal", "spatial"} ->
         (IF InUnit(ev) THEN {} ELSE {"envelope_in_unit_interval"})
    \cup (IF IsOne(ev.at_zero) THEN {} ELSE {"envelope_is_one_at_zero_angle"})
    [] ev.kind = "ctf" ->
         (IF ev.excess_fp <= Eps THEN {} ELSE {"ctf_exceeds_aperture"})
    [] OTHER -> {"unknown_event"}
=============================================================================
