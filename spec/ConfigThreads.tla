---------------------------- MODULE ConfigThreads ----------------------------
(* Growth beyond C34 (whose quantifier is "histories", i.e. LIFO nestings):    *)
(* abtem.config is ONE process-global mapping, and config.set records, per     *)
(* context, the values it replaced.  When contexts of several threads          *)
(* interleave, the records are undone in an order that is LIFO per thread but  *)
(* not globally.  This module states what the implementation does in that case *)
(* (an implementation-shaped model: each Enter records the value it sees, each *)
(* Exit writes its record back) so that the real code can be replayed against  *)
(* it, and lets TLC decide which guarantees survive:                           *)
(*   RestoredWhenGloballyNested : holds - if the interleaving happens to be    *)
(*                                LIFO across threads, everything is restored; *)
(*   RestoredAfterAll           : VIOLATED - two threads, one key: A enters,   *)
(*                                B enters, A exits, B exits leaves A's value; *)
(*   DisjointKeysRestored       : holds - threads that touch different keys do *)
(*                                not disturb each other.                      *)
(* None of this is claimed for C34; the conformance replay reports drift only. *)
EXTENDS Integers, Sequences, FiniteSets, TLC, Json
CONSTANTS Threads, Keys, Vals, MaxDepth, MaxLen, Emit, DisjointKeys
VARIABLES cfg, stack, order, hist
vars == <<cfg, stack, order, hist>>
Init0 == [k \in Keys |-> 0]
Init == cfg = Init0 /\ stack = [t \in Threads |-> << >>] /\ order = << >> /\ hist = << >>
Allowed(t, k) == ~DisjointKeys \/ (\A u \in Threads : u # t => \A i \in 1..Len(stack[u]) : stack[u][i].k # k)
Enter(t, k, v) == /\ Len(stack[t]) < MaxDepth /\ Len(hist) < MaxLen /\ Allowed(t, k)
                  /\ stack' = [stack EXCEPT ![t] = Append(@, [k |-> k, old |-> cfg[k]])]
                  /\ cfg' = [cfg EXCEPT ![k] = v]
                  /\ order' = Append(order, t)
                  /\ hist' = Append(hist, [a |-> "Enter", t |-> t, k |-> k, v |-> v])
Exit(t) == /\ stack[t] # << >> /\ Len(hist) < MaxLen
           /\ LET top == stack[t][Len(stack[t])] IN cfg' = [cfg EXCEPT ![top.k] = top.old]
           /\ stack' = [stack EXCEPT ![t] = SubSeq(@, 1, Len(@) - 1)]
           /\ order' = IF order # << >> /\ order[Len(order)] = t THEN SubSeq(order, 1, Len(order) - 1) ELSE Append(order, -1)
           /\ hist' = Append(hist, [a |-> "Exit", t |-> t, k |-> "", v |-> 0])
Next == (\E t \in Threads, k \in Keys, v \in Vals : Enter(t, k, v)) \/ (\E t \in Threads : Exit(t))
Spec == Init /\ [][Next]_vars
AllClosed == \A t \in Threads : stack[t] = << >>
(* order holds the global entry order while every exit so far was the innermost open context; a -1 marks a non-LIFO exit *)
GloballyNested == \A i \in 1..Len(order) : order[i] # -1
RestoredAfterAll == AllClosed => cfg = Init0
RestoredWhenGloballyNested == (AllClosed /\ GloballyNested) => cfg = Init0
DisjointKeysRestored == (DisjointKeys /\ AllClosed) => cfg = Init0
EmitHistory == (Emit /\ AllClosed /\ Len(hist) = MaxLen) => PrintT(<<"HIST", ToJson([hist |-> hist, final |-> cfg])>>)
=============================================================================
