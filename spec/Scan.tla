-------------------------------- MODULE Scan --------------------------------
(* Property-level specification of scan geometry (property C20).              *)
(* C20: "A GridScan or LineScan yields exactly its gpts positions, equally    *)
(* spaced by its reported sampling from the start point, ending at the end    *)
(* point when endpoint is set and one step short otherwise, and its ensemble  *)
(* axes metadata lists the same coordinates."                                 *)
(* Coordinates are exact rationals; a 2-D point is <<x, y>>.                  *)
EXTENDS Rational

PAdd(p, q) == <<RAdd(p[1], q[1]), RAdd(p[2], q[2])>>
PScale(a, p) == <<RMul(a, p[1]), RMul(a, p[2])>>
PEq(p, q) == REq(p[1], q[1]) /\ REq(p[2], q[2])

(* one axis of a grid scan: n positions x_i = start + (i-1) s *)
AxisPositionsOK(xs, n, start, s) == /\ Len(xs) = n
                                    /\ \A i \in 1..n : REq(xs[i], RAdd(start, RMul(RInt(i - 1), s)))
(* "ending at the end point when endpoint is set and one step short otherwise" *)
(* (a single position with endpoint set cannot reach a different end point:    *)
(*  nothing is demanded of the last position then)                             *)
AxisEndOK(n, start, end, s, endpoint) ==
    IF endpoint THEN (n > 1 => REq(RAdd(start, RMul(RInt(n - 1), s)), end))
    ELSE REq(RAdd(start, RMul(RInt(n), s)), end)
(* "its ensemble axes metadata lists the same coordinates": offset + i x sampling *)
AxisMetaOK(meta, start, s) == REq(meta.offset, start) /\ REq(meta.sampling, s)

GridScanFails(ev) ==
     (IF ev.shape = ev.gpts THEN {} ELSE {"shape"})
\cup (IF \A d \in 1..2 : AxisPositionsOK(ev.axes[d], ev.gpts[d], ev.start[d], ev.sampling[d]) THEN {} ELSE {"positions"})
\cup (IF \A d \in 1..2 : AxisEndOK(ev.gpts[d], ev.start[d], ev.end[d], ev.sampling[d], ev.endpoint[d]) THEN {} ELSE {"end"})
\cup (IF \A d \in 1..2 : AxisMetaOK(ev.meta[d], ev.start[d], ev.sampling[d]) THEN {} ELSE {"metadata"})
\cup (IF ev.product_ok THEN {} ELSE {"meshgrid"})      \* positions[i][j] = (x_i, y_j), decided from the full array

(* a line scan: direction u = (end - start) / L with L^2 = |end - start|^2 (L logged, checked exactly) *)
LineScanFails(ev) ==
  LET d == <<RSub(ev.end[1], ev.start[1]), RSub(ev.end[2], ev.start[2])>>
      lenOK == REq(RMul(ev.length, ev.length), RAdd(RMul(d[1], d[1]), RMul(d[2], d[2])))
      u == PScale(RDiv(RInt(1), ev.length), d)
      n == ev.gpts[1]
  IN (IF lenOK THEN {} ELSE {"length"})
\cup (IF ev.shape = ev.gpts THEN {} ELSE {"shape"})
\cup (IF Len(ev.points) = n /\ \A i \in 1..Len(ev.points) :
            PEq(ev.points[i], PAdd(ev.start, PScale(RMul(RInt(i - 1), ev.sampling[1]), u))) THEN {} ELSE {"positions"})
\cup (IF AxisEndOK(n, RInt(0), ev.length, ev.sampling[1], ev.endpoint[1]) THEN {} ELSE {"end"})
\cup (IF AxisMetaOK(ev.meta[1], RInt(0), ev.sampling[1]) THEN {} ELSE {"metadata"})

(* "A probe built at position r equals the probe built at the origin shifted  *)
(*  periodically by r": the harness logs the deviation in ppb of the maximum. *)
ProbeTol == 20000      \* 2e-5, single precision pipeline
ProbeFails(ev) == IF ev.raised THEN {"probe_raised"} ELSE IF ev.err_ppb <= ProbeTol THEN {} ELSE {"probe_shift"}
=============================================================================
