------------------------------ MODULE Multislice ------------------------------
(* Property-level specification of the multislice loop (C02, C04, C07).        *)
(* A wave is a symbolic term: <<"inc">> is the incident wave and               *)
(* <<"step", k, i, w>> is w after transmission through and propagation behind  *)
(* slice i of configuration k.                                                 *)
EXTENDS Integers, Sequences, FiniteSets

Incident == <<"inc">>
StepT(w, k, i) == <<"step", k, i, w>>
RECURSIVE Through(_, _)
(* the wave after slices 0 .. n-1 of configuration k, starting from the incident wave *)
Through(k, n) == IF n = 0 THEN Incident ELSE StepT(Through(k, n - 1), k, n - 1)

(* C07: what must be recorded at exit plane p (a slice index, -1 = entrance plane) of configuration k *)
AtPlane(k, p) == Through(k, p + 1)
(* C02: "for each configuration, exactly the result of simulating through a potential built from that *)
(*       single displaced configuration starting from the same incident wave"                         *)
IndependentRun(k, nslices) == Through(k, nslices)

(* exit_planes argument -> list of slice indices after which a measurement is taken (statement of C07: *)
(* "the last exit plane equals the full simulation, and an entrance plane equals the incident wave")   *)
PlanesOK(planes, n) == /\ Len(planes) >= 1
                       /\ \A i \in 1..Len(planes) : planes[i] >= -1 /\ planes[i] <= n - 1
                       /\ \A i \in 1..(Len(planes) - 1) : planes[i] < planes[i + 1]

(* ---------------- event-level acceptance of a recorded run (hooks MsBegin .. MsEnd) ---------------- *)
(* run state: [n, planes, inter, cfgs, cfg, slice, plane, depth, norm, open] *)
Tol6 == 2      \* fixed point 1e-6 on thicknesses
NormSlack(norm) == (norm \div 50000) + 2          \* 2e-5 relative (single precision) on the intensity
EventFails(rs, ev) ==
  CASE ev.e = "MsBegin" -> IF rs.open THEN {"begin_inside_run"} ELSE
                           (IF PlanesOK(ev.exit_planes, ev.slices) THEN {} ELSE {"exit_planes_malformed"})
    [] ev.e = "MsConfig" ->
         (IF rs.open THEN {} ELSE {"config_outside_run"})
    \cup (IF rs.cfg = 0 \/ (rs.slice = rs.n /\ (~rs.inter \/ rs.plane = Len(rs.planes))) THEN {} ELSE {"previous_configuration_incomplete"})
    [] ev.e = "MsSlice" ->
         (IF ev.slice = rs.slice /\ rs.slice < rs.n THEN {} ELSE {"slice_order"})
    \cup (IF rs.inter /\ rs.plane < Len(rs.planes) /\ rs.planes[rs.plane + 1] < rs.slice THEN {"missed_exit_plane_detection"} ELSE {})
    \cup (IF ev.depth - (rs.depth + ev.thickness) \in -Tol6..Tol6 THEN {} ELSE {"depth_is_cumulative_thickness"})
    \cup (IF ev.norm <= rs.norm + NormSlack(rs.norm) THEN {} ELSE {"intensity_increased"})          \* C04
    [] ev.e = "MsDetect" ->
         \* the hook reports every exit plane the loop reaches; without intermediate measurements (one configuration, one
         \* plane) nothing is recorded there and the final wave is detected after the loop, but the plane must be the listed one
         (IF rs.plane < Len(rs.planes) /\ ev.plane = rs.plane /\ rs.planes[rs.plane + 1] = ev.after_slice
             /\ ev.after_slice = rs.slice - 1 THEN {} ELSE {"detection_not_at_listed_exit_plane"})
    \cup (IF ev.depth - rs.depth \in -Tol6..Tol6 THEN {} ELSE {"detection_depth"})
    [] ev.e = "MsEnd" ->
         IF rs.open /\ rs.cfg = rs.cfgs /\ rs.slice = rs.n /\ (~rs.inter \/ rs.plane = Len(rs.planes)) THEN {} ELSE {"run_incomplete"}
    [] OTHER -> {"unknown_event"}
NextRun(rs, ev) ==
  CASE ev.e = "MsBegin" -> [n |-> ev.slices, planes |-> ev.exit_planes, inter |-> ev.intermediate, cfgs |-> ev.configs, cfg |-> 0,
                            slice |-> 0, plane |-> 0, depth |-> 0, norm |-> ev.norm, open |-> TRUE, norm0 |-> ev.norm]
    [] ev.e = "MsConfig" -> [rs EXCEPT !.cfg = rs.cfg + 1, !.slice = 0, !.plane = 0, !.depth = 0, !.norm = ev.norm]
    [] ev.e = "MsSlice" -> [rs EXCEPT !.slice = rs.slice + 1, !.depth = ev.depth, !.norm = ev.norm]
    [] ev.e = "MsDetect" -> [rs EXCEPT !.plane = rs.plane + 1]
    [] ev.e = "MsEnd" -> [rs EXCEPT !.open = FALSE]
    [] OTHER -> rs
InitRun == [n |-> 0, planes |-> << >>, inter |-> FALSE, cfgs |-> 0, cfg |-> 0, slice |-> 0, plane |-> 0, depth |-> 0, norm |-> 0,
            open |-> FALSE, norm0 |-> 0]
=============================================================================
