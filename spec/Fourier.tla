------------------------------- MODULE Fourier -------------------------------
(* Property-level specification of Fourier cropping / interpolation and       *)
(* shifting as index algebra on Z_n (property C15).                           *)
(* Freq(n, i) is the integer frequency stored at index i (0-based) of an      *)
(* n-point FFT (numpy.fft.fftfreq * n).                                       *)
EXTENDS Integers, Sequences, FiniteSets

Freq(n, i) == IF i < (n + 1) \div 2 THEN i ELSE i - n
(* the band kept when going between n1 and n2 points: the frequencies of the *)
(* smaller grid (m = min): even m: -m/2 .. m/2 - 1, odd m: -(m-1)/2 .. (m-1)/2 *)
Band(m) == {Freq(m, i) : i \in 0..(m - 1)}
Min(a, b) == IF a < b THEN a ELSE b

(* C15: "upsampling followed by downsampling returns the original", "'values' *)
(* preserves the mean", "downsample keeps the band-limited content": all      *)
(* follow from the crop being the frequency-preserving map on the common band *)
(* cmap[j + 1] = (input index + 1) copied to output index j, or 0 (zero fill) *)
CropMapOK(n1, n2, cmap) ==
   /\ Len(cmap) = n2
   /\ \A j \in 0..(n2 - 1) :
        IF Freq(n2, j) \in Band(Min(n1, n2))
        THEN cmap[j + 1] >= 1 /\ cmap[j + 1] <= n1 /\ Freq(n1, cmap[j + 1] - 1) = Freq(n2, j)
        ELSE cmap[j + 1] = 0
(* consequences, stated for the design check *)
DCKept(cmap) == cmap[1] = 1
Compose(c1, c2) == [j \in 1..Len(c2) |-> IF c2[j] = 0 THEN 0 ELSE c1[c2[j]]]     \* first c1 (n1 -> n2) then c2 (n2 -> n3)
Identity(n) == [j \in 1..n |-> j]

(* shifting by p whole pixels is the roll i -> (i + p) mod n; rolls compose additively *)
RollMap(n, p) == [j \in 1..n |-> ((j - 1 - p) % n) + 1]        \* output index j holds input index RollMap[j]

Tol32 == 20000   \* 2e-5 (single precision)
Tol64 == 1       \* 1e-9 (double precision), in ppb
TolOf(ev) == IF ev.double THEN Tol64 ELSE Tol32
EvFails(ev) ==
  CASE ev.k = "crop" ->
         IF ev.raised THEN {"raised"}
         ELSE (IF \A d \in 1..Len(ev.n1) : CropMapOK(ev.n1[d], ev.n2[d], ev.maps[d]) THEN {} ELSE {"frequency_map"})
         \cup (IF ev.product_ok THEN {} ELSE {"not_separable"})
    [] ev.k = "interp" ->
         IF ev.raised THEN {"raised"}
         ELSE (IF ev.roundtrip_ppb <= TolOf(ev) THEN {} ELSE {"up_down_roundtrip"})
         \cup (IF ev.mean_ppb <= TolOf(ev) THEN {} ELSE {"values_mean"})
         \cup (IF ev.intensity_ppb <= TolOf(ev) THEN {} ELSE {"intensity"})
    [] ev.k = "shift" ->
         IF ev.raised THEN {"raised"}
         ELSE (IF ev.roll_ppb <= TolOf(ev) THEN {} ELSE {"whole_pixel_shift_is_roll"})
         \cup (IF ev.compose_ppb <= TolOf(ev) THEN {} ELSE {"shifts_compose"})
    [] ev.k = "downsample" ->
         IF ev.raised THEN {"raised"}
         ELSE (IF ev.content_ppb <= TolOf(ev) THEN {} ELSE {"band_limited_content"})
         \cup (IF ev.shape_ok THEN {} ELSE {"shape"})
    [] OTHER -> {"unknown_event"}
=============================================================================
