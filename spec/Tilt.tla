-------------------------------- MODULE Tilt --------------------------------
(* Property-level specification of beam tilt in the multislice propagator       *)
(* (property C39).  A wave with beam tilt (tx, ty) that is propagated through   *)
(* slices of thickness dz_1 .. dz_K equals the untilted propagation shifted by  *)
(* tan(t) * (dz_1 + .. + dz_K) along each axis.  Tangents are carried as exact  *)
(* rationals in pixels per Angstrom (tan(t) / sampling), thicknesses as exact   *)
(* rationals in Angstrom, so the shift in pixels is a rational TLC computes;    *)
(* when it is an integer the shift observed in the real result (decoded by      *)
(* cross-correlation with the untilted run) must be exactly that integer.       *)
(* Several tilt sources (a base tilt plus a tilt ensemble axis) add up; every   *)
(* member of a tilt ensemble is shifted by its own tilt, in the order listed.   *)
EXTENDS Integers, Sequences, FiniteSets, TLC, Json, Rational

Tol == 50000
RECURSIVE RSum(_)
RSum(s) == IF s = << >> THEN RInt(0) ELSE RAdd(Head(s), RSum(Tail(s)))
ExpectedShift(tanpx, dz) == RMul(tanpx, RSum(dz))           \* pixels
MemberFails(m, dz) ==
  LET e == <<ExpectedShift(m.tan_px[1], dz), ExpectedShift(m.tan_px[2], dz)>> IN
  (IF m.integer => (RIsInt(e[1]) /\ RIsInt(e[2]) /\ m.observed = <<RFloor(e[1]), RFloor(e[2])>>)
   THEN {} ELSE {"shift_is_not_thickness_times_tan_tilt"})
  \cup (IF m.err_ppb <= Tol THEN {} ELSE {"tilted_propagation_is_not_the_shifted_untilted_propagation"})
TiltFails(ev) ==
  IF ev.raised # ev.reference_raised THEN {"tilted_and_untilted_runs_do_not_fail_together"}
  ELSE IF ev.raised THEN {}
  ELSE (IF ev.shape_ok THEN {} ELSE {"tilt_ensemble_shape"})
  \cup UNION {MemberFails(ev.members[i], ev.dz) : i \in 1..Len(ev.members)}
  \cup (IF ev.modulus_ppb <= Tol THEN {} ELSE {"tilted_plane_wave_modulus_is_not_one"})
  \cup (IF ev.lazy_ppb <= Tol THEN {} ELSE {"lazy_and_eager_differ"})

(* ---- scenario space ---- *)
CONSTANTS Emit
VARIABLES c, done
vars == <<c, done>>
(* sequence_*: the tilt is accumulated by tilt transforms applied one after the other to waves that already carry a tilt *)
(* (x on the builder then y by a transform, x then y by two transforms, a pair added to a pair): the total acts as one tilt *)
Forms == {"base", "pairs", "per_axis", "axis_and_scalar", "pairs_with_other_axis", "per_axis_with_other_axis",
          "sequence_builder_then_y", "sequence_x_then_y", "sequence_pair_plus_pair",
          "base_plus_two_axes",          \* waves that carry a scalar base tilt receive an ensemble with one tilt axis per direction
          "propagator_reused"}           \* one propagator object propagated waves of another base tilt (same grid, energy, distance) before
Thicknesses == {<<2>>, <<2, 3>>, <<3, 1, 2>>, <<1, 1, 1, 1>>}          \* halves of an Angstrom
Grids == {<<16, 16>>, <<20, 12>>}
Init == /\ \E f \in Forms, dz \in Thicknesses, g \in Grids, frac \in BOOLEAN, lz \in BOOLEAN, neg \in BOOLEAN :
             c = [form |-> f, dz |-> dz, grid |-> g, fractional |-> frac, lazy |-> lz, negative |-> neg]
        /\ done = FALSE
Next == ~done /\ done' = TRUE /\ UNCHANGED c
Spec == Init /\ [][Next]_vars
EmitCase == (Emit /\ done) => PrintT(<<"CASE", ToJson(c)>>)
=============================================================================
