----------------------------- MODULE ChunksTrace -----------------------------
(* Trace specification for C18: every recorded call of validate_chunks /       *)
(* equal_sized_chunks / chunk_ranges / iterate_chunk_ranges / generate_chunks  *)
(* on the real code must satisfy the property-level predicates of Chunks.tla.  *)
EXTENDS Chunks, Json, IOUtils, TLC

Traces == JsonDeserialize(IOEnv.TRACE_FILE)
VARIABLES tid, l, bad
tvars == <<tid, l, bad>>

CallFails(ev) ==
  IF ev.raised THEN {}        \* C18 constrains returned values only
  ELSE IF ev.f = "validate" THEN
         (IF Partitions(ev.shape, ev.res) THEN {} ELSE {"partition"})
    \cup (IF ~Partitions(ev.shape, ev.res) \/ WithinLimit(ev.shape, ev.spec, ev.limit, ev.res) THEN {} ELSE {"limit"})
    \cup (IF Len(ev.ranges) = Len(ev.res) /\ \A d \in 1..Len(ev.res) : RangesCover(ev.res[d], ev.ranges[d])
          THEN {} ELSE {"ranges"})
    \cup (IF ev.iter THEN {} ELSE {"iterate"})
  ELSE IF ev.f = "equal" THEN
         (IF EqualSized(ev.n, IF ev.n = 0 THEN 0 ELSE ev.m, ev.res) THEN {} ELSE {"equal"})
    \cup (IF RangesCover(ev.res, ev.ranges) THEN {} ELSE {"generate"})
  ELSE IF ev.f = "equal_size" THEN
         (IF EqualSizedBySize(ev.n, ev.m, ev.res) THEN {} ELSE {"equal_size"})
  ELSE {"unknown_call"}

TInit == tid \in 1..Len(Traces) /\ l = 1 /\ bad = <<>>
TNext == /\ l <= Len(Traces[tid])
         /\ LET f == CallFails(Traces[tid][l]) IN bad' = IF f = {} THEN bad ELSE Append(bad, <<l, f>>)
         /\ l' = l + 1 /\ UNCHANGED tid
TSpec == TInit /\ [][TNext]_tvars
Verdict == (l > Len(Traces[tid])) => PrintT(<<"V", tid, bad>>)
=============================================================================
