SPECIFICATION Spec
CONSTANTS
  N0 = 3
  Depth = 2
  Emit = FALSE
INVARIANT ValuesFromUniverse
INVARIANT SlicePositionsInRange
INVARIANT ReverseTwice
INVARIANT FullSliceIdentity
INVARIANT EvenOddPartition
VIEW DesignView
CHECK_DEADLOCK FALSE
