SPECIFICATION TSpec
INVARIANT Verdict
CHECK_DEADLOCK FALSE
