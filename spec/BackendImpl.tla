---------------------------- MODULE BackendImpl ----------------------------
(* Implementation-shaped model of abtem/core/fft.py and of the configuration  *)
(* contexts a session runs under (C38).                                        *)
(*                                                                             *)
(* What can make a result depend on more than the pipeline:                    *)
(*  - _fftw_dispatch transforms IN PLACE (pyfftw.FFTW(array, array)); the      *)
(*    caller's array survives only because of the copy taken when overwrite_x  *)
(*    is false;                                                                *)
(*  - get_fftw_object first asks for a plan with FFTW_WISDOM_ONLY; without     *)
(*    wisdom _new_fftw_object plans on a zero DUMMY of the same shape (planning*)
(*    with MEASURE/PATIENT/EXHAUSTIVE overwrites the arrays it plans on), adds *)
(*    the wisdom, and the retry plans from wisdom (nothing overwritten); when  *)
(*    wisdom may not be created the pyfftw.builders fallback is used;          *)
(*  - the planner's wisdom is global to the process: it survives configuration *)
(*    contexts, so what a call does depends on the session's history;          *)
(*  - CachedFFTWConvolution keeps plan objects per propagator; its remembered  *)
(*    shape is never assigned (self._shape stays None), so the plans are       *)
(*    rebuilt for every array - for its current shape and dtype.               *)
(* The model carries array contents as symbolic terms, so "the result is the   *)
(* transform of the input" and "the caller's array still holds the input" are  *)
(* term equalities TLC checks in every reachable state of every session.       *)
EXTENDS Backend, TLC, Json

CONSTANTS MaxLen,            \* session length (number of actions)
          MaxDepth,          \* nesting depth of configuration contexts
          CfgEfforts, CfgThreads,
          Emit,
          PlanOnData,        \* deviation: plan directly on the caller's data (no dummy)
          NoCopy,            \* deviation: drop the copy taken when overwrite_x is false
          RememberShape      \* deviation: CachedFFTWConvolution assigns self._shape (plans reused across dtypes)

VARIABLES stack, wisdom, conv, hist, ok
vars == <<stack, wisdom, conv, hist, ok>>

Base == [fft |-> "fftw", effort |-> "FFTW_MEASURE", threads |-> 1, precision |-> "float32"]
Cur == stack[Len(stack)]
Dtype(cfg) == IF cfg.precision = "float64" THEN "c128" ELSE "c64"

(* the FFT calls of an abstract pipeline: <<shape class, direction, overwrite_x, through the cached convolution>> *)
Pipes == {"transform", "roundtrip_in_place", "two_shapes", "propagate", "no_fft"}
Calls(p) == CASE p = "transform" -> << <<"A", "fwd", FALSE, FALSE>> >>
              [] p = "roundtrip_in_place" -> << <<"A", "fwd", TRUE, FALSE>>, <<"A", "bwd", TRUE, FALSE>> >>
              [] p = "two_shapes" -> << <<"A", "fwd", FALSE, FALSE>>, <<"B", "bwd", FALSE, FALSE>> >>
              [] p = "propagate" -> << <<"A", "fwd", FALSE, TRUE>>, <<"A", "fwd", TRUE, TRUE>> >>
              [] OTHER -> << >>

Key(cfg, call) == [shape |-> call[1], dir |-> call[2], dtype |-> Dtype(cfg), effort |-> cfg.effort, threads |-> cfg.threads, destroy |-> call[3]]
Measures(cfg) == cfg.effort # "FFTW_ESTIMATE"

(* one dispatch: returns [out, caller, wisdom, conv]: the result term, the content of the caller's array afterwards, the new wisdom *)
(* x is the symbolic content of the caller's array                                                                              *)
Garbage == <<"garbage">>
T(dir, x) == IF x = Garbage THEN Garbage ELSE <<dir, x>>
Dispatch(cfg, call, x, w, cv) ==
  IF cfg.fft = "numpy" THEN [out |-> T(call[2], x), caller |-> x, wisdom |-> w, conv |-> cv]
  ELSE IF call[4]
  THEN \* CachedFFTWConvolution.__call__: plans kept per object; rebuilt when the remembered shape differs
       LET fresh == (cv = << >>) \/ (IF RememberShape THEN cv[1] # call[1] ELSE TRUE)
           planned == IF fresh THEN <<call[1], Dtype(cfg)>> ELSE cv
           stale == planned[2] # Dtype(cfg)                  \* a plan made for another dtype is applied to this array
           work == IF call[3] \/ NoCopy THEN "caller" ELSE "copy"
           res == IF stale THEN Garbage ELSE T(call[2], x) IN
       [out |-> res, caller |-> IF work = "caller" THEN res ELSE x, wisdom |-> w, conv |-> planned]
  ELSE \* _fftw_dispatch -> get_fftw_object
       LET work == IF call[3] \/ NoCopy THEN "caller" ELSE "copy"
           key == Key(cfg, call)
           known == key \in w
           \* planning without wisdom: on a dummy (as coded) or, with the deviation, on the data itself
           destroyed == ~known /\ PlanOnData /\ Measures(cfg)
           content == IF destroyed THEN Garbage ELSE x
           res == T(call[2], content) IN
       [out |-> res, caller |-> IF work = "caller" THEN res ELSE x, wisdom |-> w \cup {key}, conv |-> cv]

RECURSIVE RunCalls(_, _, _, _, _, _)
(* folds the calls of a pipeline: each call's input is the previous output (first input: the pipeline's input "x") *)
(* returns [out, intact, wisdom, conv]; intact = no caller-owned array was modified without overwrite_x           *)
RunCalls(cfg, calls, x, w, cv, intact) ==
  IF calls = << >> THEN [out |-> x, intact |-> intact, wisdom |-> w, conv |-> cv]
  ELSE LET d == Dispatch(cfg, Head(calls), x, w, cv)
           kept == Head(calls)[3] \/ d.caller = x IN
       RunCalls(cfg, Tail(calls), d.out, d.wisdom, d.conv, intact /\ kept)

RECURSIVE Pure(_, _)
Pure(calls, x) == IF calls = << >> THEN x ELSE Pure(Tail(calls), <<Head(calls)[2], x>>)

Updates == {[k \in S |-> full[k]] : S \in {{"fft"}, {"effort"}, {"threads"}, {"precision"}, {"fft", "effort"}, {"fft", "precision"}, Keys},
                                    full \in [fft : Ffts, effort : CfgEfforts, threads : CfgThreads, precision : Precisions]}

Init == stack = <<Base>> /\ wisdom = {} /\ conv = << >> /\ hist = <<[e |-> "Begin", base |-> Base]>> /\ ok = TRUE
Enter(kv) == /\ Len(stack) <= MaxDepth /\ Len(hist) < MaxLen
             /\ stack' = Append(stack, Merge(Cur, kv))
             /\ hist' = Append(hist, [e |-> "Enter", kv |-> kv])
             /\ UNCHANGED <<wisdom, conv, ok>>
Exit == /\ Len(stack) > 1 /\ Len(hist) < MaxLen
        /\ stack' = SubSeq(stack, 1, Len(stack) - 1)
        /\ hist' = Append(hist, [e |-> "Exit"])
        /\ UNCHANGED <<wisdom, conv, ok>>
Run(p) == /\ Len(hist) < MaxLen
          /\ LET r == RunCalls(Cur, Calls(p), <<"x">>, wisdom, IF p = "propagate" THEN << >> ELSE conv, TRUE) IN
               /\ wisdom' = r.wisdom
               /\ conv' = conv                          \* a propagator (and its cached plans) lives for one run
               /\ ok' = (ok /\ r.intact /\ r.out = Pure(Calls(p), <<"x">>))
               /\ hist' = Append(hist, [e |-> "Run", pipe |-> p])
          /\ UNCHANGED stack
Next == (\E kv \in Updates : Enter(kv)) \/ Exit \/ (\E p \in Pipes : Run(p))
Spec == Init /\ [][Next]_vars

(* every run of every session returns the pure transform of its input and leaves caller-owned arrays alone, *)
(* whatever the backend, effort, threads, precision and the wisdom accumulated so far                        *)
ResultIndependentOfHistory == ok
View == <<stack, wisdom, conv, ok, Len(hist)>>
EmitSession == (Emit /\ Len(hist) = MaxLen) => PrintT(<<"SESSION", ToJson(hist)>>)
=============================================================================
