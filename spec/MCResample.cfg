SPECIFICATION Spec
CONSTANTS
  Samplings <- MC_Samplings
  SigmaValues <- MC_Sigmas
INVARIANT SameSmoothing
CHECK_DEADLOCK FALSE
