------------------------------- MODULE Config -------------------------------
(* Property-level specification of abtem.config.set used as a context manager  *)
(* (property C34).  The configuration is an opaque value; contexts nest LIFO.  *)
(*   Enter       : a set(...) context is entered (its constructor returned)    *)
(*   EnterFails  : a set(...) constructor raised; no context was entered       *)
(*   Exit        : the innermost context is left, normally or by an exception  *)
(* C34: "After leaving any nesting of config.set contexts, normally or through *)
(* an exception, the configuration is exactly what it was before entering,     *)
(* including keys that did not exist before."                                  *)
EXTENDS Sequences, Naturals

Front(s) == SubSeq(s, 1, Len(s) - 1)
Last(s) == s[Len(s)]

(* stack = the configuration values observed immediately before each open     *)
(* context was entered (innermost last).                                       *)
EnterStep(stack, cfg, stack2) == stack2 = Append(stack, cfg)
EnterFailsStep(stack, stack2) == stack2 = stack
(* the one obligation of C34, per context (by induction: per nesting) *)
ExitStep(stack, cfg2, stack2) == /\ stack # <<>>
                                 /\ stack2 = Front(stack)
                                 /\ cfg2 = Last(stack)
=============================================================================
