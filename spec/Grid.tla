-------------------------------- MODULE Grid --------------------------------
(* Property-level specification of abtem.core.grid.Grid  (property C17).       *)
(*                                                                             *)
(* A grid state is a record                                                    *)
(*   [e, g, s : None or a tuple with one entry per dimension                   *)
(*              (e, s : rationals <<num,den>>, g : positive integers),         *)
(*    lockE, lockG, lockS : BOOLEAN, endp : tuple of BOOLEAN]                  *)
(* Each public assignment is ONE step; the step relation says only what the    *)
(* statement of C17 demands.                                                   *)
EXTENDS Rational, FiniteSets

Dims(st) == DOMAIN st.endp
Defined(st) == ~IsNone(st.e) /\ ~IsNone(st.g) /\ ~IsNone(st.s)

(* C17: "a fully defined grid satisfies extent = gpts x sampling (or          *)
(*       (gpts-1) x sampling with endpoint) in every dimension"               *)
Intervals(st, d) == IF st.endp[d] THEN st.g[d] - 1 ELSE st.g[d]
ConsistentDim(st, d) == REq(st.e[d], RMul(RInt(Intervals(st, d)), st.s[d]))
Consistent(st) == Defined(st) => \A d \in Dims(st) : ConsistentDim(st, d)

(* C17: "Locked quantities never change" (literal reading, DESIGN 2.5):       *)
(* a set lock flag and a defined field => no assignment changes that field.   *)
LockEKept(a, b) == (a.lockE /\ ~IsNone(a.e)) => (~IsNone(b.e) /\ \A d \in Dims(a) : REq(a.e[d], b.e[d]))
LockGKept(a, b) == (a.lockG /\ ~IsNone(a.g)) => b.g = a.g
LockSKept(a, b) == (a.lockS /\ ~IsNone(a.s)) => (~IsNone(b.s) /\ \A d \in Dims(a) : REq(a.s[d], b.s[d]))
FlagsKept(a, b) == /\ a.lockE = b.lockE /\ a.lockG = b.lockG /\ a.lockS = b.lockS /\ a.endp = b.endp

(* C17: "reciprocal sampling is 1/(gpts x sampling)".  rs is the value the    *)
(* object reports after the step (None when it reports nothing).              *)
RecipOK(st, rs) == (Defined(st) /\ ~IsNone(rs)) =>
    \A d \in Dims(st) : RIsZero(st.s[d]) \/ REq(RMul(rs[d], RMul(RInt(st.g[d]), st.s[d])), RInt(1))

(* The set of clauses of C17 that the step a -> b breaks.  The first sentence *)
(* of C17 quantifies over ANY sequence of assignments, so consistency and     *)
(* locks are demanded after raising calls too; nothing else is demanded of a  *)
(* raising call (weakest reading).                                            *)
StepFails(a, b, raised, rs) ==
       (IF Consistent(b) THEN {} ELSE {"consistent"})
  \cup (IF LockEKept(a, b) THEN {} ELSE {"lock_extent"})
  \cup (IF LockGKept(a, b) THEN {} ELSE {"lock_gpts"})
  \cup (IF LockSKept(a, b) THEN {} ELSE {"lock_sampling"})
  \cup (IF RecipOK(b, rs) THEN {} ELSE {"reciprocal"})
  \cup (IF FlagsKept(a, b) THEN {} ELSE {"flags"})

Step(a, b, raised, rs) == StepFails(a, b, raised, rs) = {}
=============================================================================
