----------------------------- MODULE Conversions -----------------------------
(* Property-level specification of polar <-> Cartesian aberration coefficient *)
(* conversion (property C22).  Angles are integers in units of pi/288 (full   *)
(* circle = 576), so that division by the azimuthal order m in {1,2,3,4} is   *)
(* exact on the lattice pi/24 * Z.  Magnitudes are signed integers.           *)
(* A term C cos(m (theta - phi)) is unchanged by (C, phi) -> (-C, phi + pi/m) *)
(* and by phi -> phi + 2 pi / m:  C22 demands that polar -> Cartesian ->      *)
(* polar returns a pair in the same class.                                    *)
EXTENDS Integers, Sequences

Full == 576
Half == 288
Mod(a) == a % Full
SameTerm(m, C, phi, C2, phi2) ==
   \/ (C = 0 /\ C2 = 0)
   \/ (C2 = C /\ Mod(m * (phi2 - phi)) = 0)
   \/ (C2 = -C /\ Mod(m * (phi2 - phi)) = Half)
Orders == [C12 |-> 2, C21 |-> 1, C23 |-> 3, C32 |-> 2, C34 |-> 4]
Pairs == DOMAIN Orders
AngleName == [C12 |-> "phi12", C21 |-> "phi21", C23 |-> "phi23", C32 |-> "phi32", C34 |-> "phi34"]

Tol == 100   \* chi deviation relative to max |chi|, ppb (double precision)
RoundTripFails(ev) ==
  IF ev.raised THEN {"raised"}
  ELSE (IF \A i \in 1..Len(ev.terms) : LET t == ev.terms[i] IN
              t.decodable /\ SameTerm(Orders[t.sym], t.C, t.phi, t.C2, t.phi2) THEN {} ELSE {"same_aberration_class"})
  \cup (IF ev.iso_ok THEN {} ELSE {"isotropic_coefficient"})
  \cup (IF ev.chi_ppb <= Tol THEN {} ELSE {"chi_differs"})
=============================================================================
