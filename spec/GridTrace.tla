------------------------------ MODULE GridTrace ------------------------------
(* Trace specification for C17: validates executions recorded from the real   *)
(* abtem.core.grid.Grid against the property-level step relation of Grid.tla. *)
(* Many traces per TLC run; every line carries the full projected state, so   *)
(* the search is linear in the total number of lines.  The verdict is total:  *)
(* for every trace the list of <<line, failed clauses>> is printed.           *)
EXTENDS Grid, Json, IOUtils, TLC

Traces == JsonDeserialize(IOEnv.TRACE_FILE)

VARIABLES tid, l, st, bad
tvars == <<tid, l, st, bad>>

ToState(ev, flags) == [e |-> ev.e, g |-> ev.g, s |-> ev.s,
                       lockE |-> flags.lockE, lockG |-> flags.lockG, lockS |-> flags.lockS, endp |-> flags.endp]

InitFails(s0, rs) == (IF Consistent(s0) THEN {} ELSE {"consistent"})
                \cup (IF RecipOK(s0, rs) THEN {} ELSE {"reciprocal"})

TInit == /\ tid \in 1..Len(Traces)
         /\ l = 2
         /\ st = ToState(Traces[tid][1], Traces[tid][1])
         /\ LET f == InitFails(st, Traces[tid][1].r) IN bad = IF f = {} THEN <<>> ELSE << <<1, f>> >>

TNext == /\ l <= Len(Traces[tid])
         /\ LET ev == Traces[tid][l]
                post == ToState(ev, Traces[tid][1])
                f == StepFails(st, post, ev.raised, ev.r)
            IN /\ st' = post
               /\ bad' = IF f = {} THEN bad ELSE Append(bad, <<l, f>>)
         /\ l' = l + 1
         /\ UNCHANGED tid

TSpec == TInit /\ [][TNext]_tvars

Verdict == (l > Len(Traces[tid])) => PrintT(<<"V", tid, bad>>)
=============================================================================
