-------------------------------- MODULE Deltas --------------------------------
(* Property-level specification of potential covariance (property C08) at the  *)
(* level where it is decided: the placement of atoms on the periodic pixel     *)
(* grid.  An atom sits at pixel p in Z_n x Z_m plus a sub-pixel fraction in    *)
(* eighths; its image on the grid is the bilinear weight function W : pixels   *)
(* -> rationals (weights sum to one).  Every later step of the independent-    *)
(* atom potential (convolution with the atomic form, slicing) is translation   *)
(* invariant and linear, so                                                    *)
(*   translate by whole pixels  =>  roll of W                                  *)
(*   repeat the cell (rx, ry) on an (rx n, ry m) grid  =>  tiling of W         *)
(*   any sub-pixel translation  =>  sum of W unchanged (slice mean)            *)
EXTENDS Rational, FiniteSets

Frac(f) == <<f, 8>>
Wrap(i, n) == i % n
(* weights of one atom: position (px + fx/8, py + fy/8) on an n x m grid *)
AtomWeights(n, m, a) ==
  LET x == Frac(a[2]) y == Frac(a[4]) xy == RMul(x, y)
      w00 == RAdd(RSub(RSub(RInt(1), x), y), xy)
      w10 == RSub(x, xy)  w01 == RSub(y, xy)  w11 == xy
      i0 == Wrap(a[1], n) i1 == Wrap(a[1] + 1, n) j0 == Wrap(a[3], m) j1 == Wrap(a[3] + 1, m)
      contrib(i, j) == RAdd(RAdd(IF <<i, j>> = <<i0, j0>> THEN w00 ELSE RInt(0), IF <<i, j>> = <<i1, j0>> THEN w10 ELSE RInt(0)),
                            RAdd(IF <<i, j>> = <<i0, j1>> THEN w01 ELSE RInt(0), IF <<i, j>> = <<i1, j1>> THEN w11 ELSE RInt(0)))
  IN [i \in 0..(n - 1) |-> [j \in 0..(m - 1) |-> contrib(i, j)]]
RECURSIVE SumWeights(_, _, _)
SumWeights(n, m, atoms) == IF atoms = << >> THEN [i \in 0..(n - 1) |-> [j \in 0..(m - 1) |-> RInt(0)]]
   ELSE LET r == SumWeights(n, m, Tail(atoms)) w == AtomWeights(n, m, Head(atoms)) IN
        [i \in 0..(n - 1) |-> [j \in 0..(m - 1) |-> RAdd(r[i][j], w[i][j])]]
Roll(W, n, m, s) == [i \in 0..(n - 1) |-> [j \in 0..(m - 1) |-> W[Wrap(i - s[1], n)][Wrap(j - s[2], m)]]]
Tile(W, n, m, r) == [i \in 0..(r[1] * n - 1) |-> [j \in 0..(r[2] * m - 1) |-> W[i % n][j % m]]]
TranslateAtoms(atoms, s) == [k \in 1..Len(atoms) |-> <<atoms[k][1] + s[1], atoms[k][2], atoms[k][3] + s[2], atoms[k][4]>>]
RepeatAtoms(atoms, n, m, r) ==     \* supercell: copies at offsets (a n, b m)
  LET idx == [k \in 1..(Len(atoms) * r[1] * r[2]) |-> k - 1] IN
  [k \in 1..(Len(atoms) * r[1] * r[2]) |->
     LET base == atoms[((k - 1) % Len(atoms)) + 1] c == (k - 1) \div Len(atoms) a == c % r[1] b == c \div r[1] IN
     <<base[1] + a * n, base[2], base[3] + b * m, base[4]>>]
RECURSIVE Total(_, _, _)
Total(W, n, m) == LET RECURSIVE row(_, _) row(i, j) == IF j < 0 THEN RInt(0) ELSE RAdd(W[i][j], row(i, j - 1))
                      RECURSIVE all(_) all(i) == IF i < 0 THEN RInt(0) ELSE RAdd(row(i, m - 1), all(i - 1))
                  IN all(n - 1)

Tol == 50000
EvFails(ev) == IF ev.raised THEN {"raised"}
  ELSE (IF ev.k # "translate" \/ ev.err_ppb <= Tol THEN {} ELSE {"translation_is_not_a_roll"})
  \cup (IF ev.k # "repeat" \/ ev.err_ppb <= Tol THEN {} ELSE {"supercell_is_not_the_tiled_unit_cell"})
  \cup (IF ev.k # "subpixel" \/ ev.err_ppb <= Tol THEN {} ELSE {"slice_mean_changes_under_subpixel_translation"})
=============================================================================
