----------------------------- MODULE FourierImpl -----------------------------
(* Implementation-shaped model of abtem.core.fft._fft_interpolation_masks_1d  *)
(* and fft_crop (new[mask_out] = array[mask_in]: the k-th selected input index *)
(* is copied to the k-th selected output index).  TLC enumerates every (n1,n2) *)
(* and checks the crop map against Fourier.tla, the up/down round trip, and    *)
(* the roll algebra; it emits the shape and shift cases.                       *)
EXTENDS Fourier, TLC, Json
CONSTANTS MaxN, Emit
VARIABLES c, done
vars == <<c, done>>

(* index sets of a[:k] and a[-k:] for an n-vector (python slicing) *)
Head_(n, k) == {i \in 0..(n - 1) : i < k}
Tail_(n, k) == IF k = 0 THEN 0..(n - 1) ELSE {i \in 0..(n - 1) : i >= n - k}     \* a[-0:] is the whole array
HalfMask(n, m) ==   \* the mask of the larger grid n selecting the m-point band
   IF m = 1 THEN {0}
   ELSE IF m % 2 = 0 THEN Head_(n, m \div 2) \cup Tail_(n, m \div 2)
   ELSE Head_(n, m \div 2 + 1) \cup Tail_(n, -((-m) \div 2) - 1)                   \* python: -m // 2 + 1 (floor division)
Mask1(n1, n2) == IF n2 > n1 THEN 0..(n1 - 1) ELSE HalfMask(n1, n2)
Mask2(n1, n2) == IF n2 > n1 THEN HalfMask(n2, n1) ELSE 0..(n2 - 1)
RECURSIVE SortedSeq(_)
SortedSeq(S) == IF S = {} THEN << >> ELSE LET m == CHOOSE x \in S : \A y \in S : x <= y IN <<m>> \o SortedSeq(S \ {m})
CropMap(n1, n2) == LET s1 == SortedSeq(Mask1(n1, n2)) s2 == SortedSeq(Mask2(n1, n2)) IN
   [j \in 1..n2 |-> IF (j - 1) \in Mask2(n1, n2)
                    THEN s1[CHOOSE k \in 1..Len(s2) : s2[k] = j - 1] + 1 ELSE 0]

Init == /\ \/ \E a \in 1..MaxN, b \in 1..MaxN : c = [k |-> "crop", n1 |-> a, n2 |-> b]
           \/ \E n \in 1..MaxN, p \in -MaxN..MaxN, q \in -3..3 : c = [k |-> "shift", n |-> n, p |-> p, q |-> q]
        /\ done = FALSE
Next == ~done /\ done' = TRUE /\ UNCHANGED c
Spec == Init /\ [][Next]_vars

MasksSameSize == c.k = "crop" => Cardinality(Mask1(c.n1, c.n2)) = Cardinality(Mask2(c.n1, c.n2))
CropOK == c.k = "crop" => CropMapOK(c.n1, c.n2, CropMap(c.n1, c.n2)) /\ DCKept(CropMap(c.n1, c.n2))
(* Down(Up(x)) = x, in index terms *)
UpDownIdentity == (c.k = "crop" /\ c.n2 >= c.n1) => Compose(CropMap(c.n1, c.n2), CropMap(c.n2, c.n1)) = Identity(c.n1)
RollAdditive == c.k = "shift" => Compose(RollMap(c.n, c.p), RollMap(c.n, c.q)) = RollMap(c.n, c.p + c.q)
RollPeriodic == c.k = "shift" => RollMap(c.n, c.p) = RollMap(c.n, c.p + c.n)
EmitCase == (Emit /\ done) => PrintT(<<"CASE", ToJson(c)>>)
=============================================================================
