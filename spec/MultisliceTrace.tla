--------------------------- MODULE MultisliceTrace ---------------------------
(* Trace specification for C02 / C04 / C07: one trace = the hook events of one *)
(* (eager) multislice run followed by one Result record carrying the numeric   *)
(* comparisons the harness made against independent runs.  The events must be  *)
(* a behaviour of the Multislice run machine; the Result must satisfy the      *)
(* property's acceptance predicate.                                            *)
EXTENDS Multislice, Json, IOUtils, TLC
Traces == JsonDeserialize(IOEnv.TRACE_FILE)
VARIABLES tid, l, rs, bad
tvars == <<tid, l, rs, bad>>

Tol == 50000        \* 5e-5 relative to the maximum of the reference (single precision pipeline), ppb
AllLe(s, t) == \A i \in 1..Len(s) : s[i] <= t
RECURSIVE SumTo(_, _)
SumTo(s, k) == IF k = 0 THEN 0 ELSE s[k] + SumTo(s, k - 1)

ResultFails(r, ev) ==
  IF ev.raised THEN {"raised"}
  ELSE CASE ev.kind = "c07" ->
         (IF Len(ev.planes_ppb) = Len(ev.planes) * ev.ncfg /\ AllLe(ev.planes_ppb, Tol) THEN {} ELSE {"exit_plane_equals_truncated_run"})
    \cup (IF ev.explicit \/ ev.planes[Len(ev.planes)] = Len(ev.slice_fp) - 1 THEN {} ELSE {"last_exit_plane_is_full_run"})
    \cup (IF Len(ev.axis_fp) = Len(ev.planes) /\ \A p \in 1..Len(ev.planes) :
               ev.axis_fp[p] - SumTo(ev.slice_fp, ev.planes[p] + 1) \in -(Tol6 * 8)..(Tol6 * 8) THEN {} ELSE {"thickness_axis_is_cumulative"})
    \cup (IF ev.lazy_ppb <= Tol THEN {} ELSE {"lazy_series_equals_eager_series"})
    \* the same pre-built wave functions sent through the potential twice, and re-read afterwards
    \cup (IF ev.reuse_ppb <= Tol THEN {} ELSE {"incident_waves_reusable_after_the_run"})
    [] ev.kind = "c02" ->
         (IF AllLe(ev.members_ppb, Tol) THEN {} ELSE {"member_equals_independent_run"})
    \cup (IF ev.mean_ppb <= Tol THEN {} ELSE {"ensemble_mean_is_mean_of_members"})
    \cup (IF ev.positions_same THEN {} ELSE {"configurations_depend_on_chunking_or_mode"})
    \cup (IF ev.shape_ok THEN {} ELSE {"shape"})
    \cup (IF ev.lazy_ppb <= Tol THEN {} ELSE {"lazy_run_equals_eager_run"})
    \cup (IF AllLe(ev.joint_ppb, Tol) THEN {} ELSE {"ensembles_computed_together_keep_their_own_configurations"})
    [] ev.kind = "c04" ->
         \* a double-precision run is held to 1e-7 (observed 1e-15): the second-order correction of the propagator is a 1e-5 effect
         LET tol == IF ev.double THEN 100 ELSE Tol IN
         (IF ev.vacuum /\ ev.band_limited /\ ev.conserved_ppb > tol THEN {"vacuum_preserves_band_limited_intensity"} ELSE {})
    \cup (IF ev.reverse_ppb <= tol THEN {} ELSE {"propagation_not_reversible"})
    \* in-place propagation of a second, fainter wave by a propagator object that has already propagated another wave of the same shape
    \cup (IF ev.reuse_gain_ppb <= tol THEN {} ELSE {"propagation_created_intensity"})
    [] OTHER -> {"unknown_result"}

TInit == tid \in 1..Len(Traces) /\ l = 1 /\ rs = InitRun /\ bad = << >>
TNext == /\ l <= Len(Traces[tid])
         /\ LET ev == Traces[tid][l]
                f == IF ev.e = "Result" THEN ResultFails(rs, ev) ELSE EventFails(rs, ev) IN
              /\ bad' = IF f = {} THEN bad ELSE Append(bad, <<l, f>>)
              /\ rs' = IF ev.e = "Result" THEN rs ELSE NextRun(rs, ev)
         /\ l' = l + 1 /\ UNCHANGED tid
TSpec == TInit /\ [][TNext]_tvars
Verdict == (l > Len(Traces[tid])) => PrintT(<<"V", tid, IF rs.open THEN Append(bad, <<l, {"run_not_ended"}>>) ELSE bad>>)
=============================================================================
