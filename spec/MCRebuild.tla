----------------------------- MODULE MCRebuild -----------------------------
EXTENDS Rebuild
(* as coded: every route carries every field *)
MC_Carried == [rebuild |-> {"energy", "algorithm", "lock"}, copy |-> {"energy", "algorithm", "lock"}, pickle |-> {"energy", "algorithm", "lock"}]
(* deviations: the rebuild in the tasks forgets the algorithm (C04-m5); pickling forgets a lock (C17-m5) *)
MC_Forgetful == [rebuild |-> {"energy", "lock"}, copy |-> {"energy", "algorithm", "lock"}, pickle |-> {"energy", "algorithm"}]
=============================================================================
