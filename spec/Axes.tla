-------------------------------- MODULE Axes --------------------------------
(* Property-level specification of axis metadata as value sequences (C35):    *)
(*  - slicing an ordinal axis gives the sliced values (Python/NumPy indexing  *)
(*    semantics: slices with negative/None parts, integer lists, boolean      *)
(*    masks, single integers),                                                *)
(*  - concatenating ordinal axes gives the concatenated values,               *)
(*  - linear axis coordinates are offset + i x sampling,                      *)
(*  - to_dict / from_dict is the identity on every field.                     *)
(* Values are opaque ids (interned by the harness).  None is << >>, a present *)
(* optional integer n is <<n>>.                                               *)
EXTENDS Rational, FiniteSets

IsNoneI(x) == x = << >>
Min2(a, b) == IF a < b THEN a ELSE b
Max2(a, b) == IF a > b THEN a ELSE b

(* Python's slice.indices(n) -> <<start, stop, step>> (0-based) *)
PyIndices(n, s, e, k) ==
  LET step == IF IsNoneI(k) THEN 1 ELSE k[1] IN
  IF step > 0
  THEN <<IF IsNoneI(s) THEN 0 ELSE IF s[1] < 0 THEN Max2(s[1] + n, 0) ELSE Min2(s[1], n),
         IF IsNoneI(e) THEN n ELSE IF e[1] < 0 THEN Max2(e[1] + n, 0) ELSE Min2(e[1], n), step>>
  ELSE <<IF IsNoneI(s) THEN n - 1 ELSE IF s[1] < 0 THEN Max2(s[1] + n, -1) ELSE Min2(s[1], n - 1),
         IF IsNoneI(e) THEN -1 ELSE IF e[1] < 0 THEN Max2(e[1] + n, -1) ELSE Min2(e[1], n - 1), step>>

RECURSIVE RangeSeq(_, _, _)
RangeSeq(i, stop, step) == IF (step > 0 /\ i >= stop) \/ (step < 0 /\ i <= stop) THEN << >>
                           ELSE <<i>> \o RangeSeq(i + step, stop, step)

(* positions (0-based) selected by each kind of index expression *)
SlicePositions(n, s, e, k) == LET t == PyIndices(n, s, e, k) IN RangeSeq(t[1], t[2], t[3])
ListPositions(n, idx) == [j \in 1..Len(idx) |-> IF idx[j] < 0 THEN idx[j] + n ELSE idx[j]]
RECURSIVE MaskPositions(_, _)
MaskPositions(mask, j) == IF j > Len(mask) THEN << >>
                          ELSE (IF mask[j] THEN <<j - 1>> ELSE << >>) \o MaskPositions(mask, j + 1)

Take(vals, pos) == [j \in 1..Len(pos) |-> vals[pos[j] + 1]]
InRange(n, pos) == \A j \in 1..Len(pos) : pos[j] >= 0 /\ pos[j] < n

(* C35: "slicing an ordinal axis gives the sliced values" *)
Sliced(vals, op) ==
  LET n == Len(vals) IN
  CASE op.k = "slice" -> Take(vals, SlicePositions(n, op.start, op.stop, op.step))
    [] op.k = "list"  -> Take(vals, ListPositions(n, op.idx))
    [] op.k = "mask"  -> Take(vals, MaskPositions(op.mask, 1))
    [] op.k = "int"   -> Take(vals, ListPositions(n, <<op.i>>))
(* C35: "concatenating ordinal axes gives the concatenated values" *)
Concatenated(vals, other) == vals \o other

(* C35: "linear axis coordinates are offset + i x sampling" *)
LinearCoords(offset, sampling, n, coords) ==
   /\ Len(coords) = n
   /\ \A i \in 1..n : REq(coords[i], RAdd(offset, RMul(RInt(i - 1), sampling)))
=============================================================================
