SPECIFICATION Spec
CONSTANTS
  MaxM = 4
  SingleBlockOnly = FALSE
  Emit = FALSE
INVARIANT SameAsEager
INVARIANT MembersDistinct
CHECK_DEADLOCK FALSE
