SPECIFICATION Spec
CONSTANTS
  MaxSlices = 4
  MaxCfgs = 2
  Emit = FALSE
  ResetPerConfig = TRUE
  ShortcutAnyPlane = FALSE
INVARIANT PlanesWellFormed
INVARIANT RecordsCorrect
INVARIANT Complete
CHECK_DEADLOCK FALSE
