------------------------------ MODULE AxesTrace ------------------------------
(* Trace specification for C35: operations recorded on the real axis classes  *)
(* of abtem.core.axes are validated against Axes.tla.                         *)
EXTENDS Axes, Json, IOUtils, TLC

Traces == JsonDeserialize(IOEnv.TRACE_FILE)
VARIABLES tid, l, vals, bad
tvars == <<tid, l, vals, bad>>

EvFails(v, ev) ==
  CASE ev.op.k \in {"slice", "list", "mask", "int"} ->
         IF ev.raised THEN {"raised_on_valid_index"}
         ELSE IF ev.vals = Sliced(v, ev.op) THEN {} ELSE {"sliced_values"}
    [] ev.op.k = "concat" ->
         IF ev.raised THEN {"raised_on_concatenate"}
         ELSE IF ev.vals = Concatenated(v, ev.op.other) THEN {} ELSE {"concatenated_values"}
    [] ev.op.k = "roundtrip" ->
         IF ev.raised THEN {"roundtrip_raised"}
         ELSE (IF ev.before.cls = ev.after.cls THEN {} ELSE {"roundtrip_type"})
         \cup (IF ev.before.fields = ev.after.fields THEN {} ELSE {"roundtrip_fields"})
    [] ev.op.k = "coords" ->
         IF LinearCoords(ev.offset, ev.sampling, ev.n, ev.coords) THEN {} ELSE {"linear_coordinates"}
    [] OTHER -> {"unknown_event"}

TInit == /\ tid \in 1..Len(Traces) /\ l = 2 /\ vals = Traces[tid][1].vals /\ bad = << >>
TNext == /\ l <= Len(Traces[tid])
         /\ LET ev == Traces[tid][l] f == EvFails(vals, ev) IN
              /\ bad' = IF f = {} THEN bad ELSE Append(bad, <<l, f>>)
              /\ vals' = IF ev.op.k \in {"slice", "list", "mask", "int", "concat"} /\ ~ev.raised THEN ev.vals ELSE vals
         /\ l' = l + 1 /\ UNCHANGED tid
TSpec == TInit /\ [][TNext]_tvars
Verdict == (l > Len(Traces[tid])) => PrintT(<<"V", tid, bad>>)
=============================================================================
