------------------------------ MODULE ScanHist ------------------------------
(* History machine for C20 (quantifier "all ... scan limits, gpts/sampling     *)
(* choices"): a LineScan object is edited through its public setters after it  *)
(* has been created - end, start (both change the length), sampling, gpts -    *)
(* and after every edit its positions must again have the geometry its         *)
(* parameters describe (Scan.tla: spacing = the reported sampling, end point   *)
(* reached / one step short).  The transcription follows abtem/scan.py:        *)
(*   end / start setter -> _adjust_gpts: gpts := ceil(L / sampling); then      *)
(*                         _adjust_sampling: sampling := L / (gpts [- 1])      *)
(*   sampling setter    -> sampling := s; _adjust_gpts                         *)
(*   gpts setter        -> gpts := n; _adjust_sampling                         *)
(* The named deviation SkipWhenGptsUnchanged returns from _adjust_gpts early   *)
(* when the recomputed gpts equals the old one; TLC then finds SetLength with  *)
(* an unchanged point count leaving a stale sampling.                          *)
EXTENDS Scan, TLC, Json
CONSTANTS Lengths, SamplingSet, GptsSet, MaxLen, Emit, SkipWhenGptsUnchanged
VARIABLES L, g, s, endp, hist
vars == <<L, g, s, endp, hist>>
Sampling(len, n, e) == IF e /\ n > 1 THEN RDiv(len, RInt(n - 1)) ELSE RDiv(len, RInt(n))
AdjustGpts(len, n, smp, e) ==           \* returns <<gpts, sampling>>
  LET n2 == RCeil(RDiv(len, smp)) IN
  IF SkipWhenGptsUnchanged /\ n2 = n THEN <<n, smp>> ELSE <<n2, Sampling(len, n2, e)>>
Init == /\ L \in Lengths /\ g \in GptsSet /\ endp \in BOOLEAN /\ s = Sampling(L, g, endp)
        /\ hist = <<[a |-> "New", L |-> L, gpts |-> g, endpoint |-> endp]>>
SetLength == \E len \in Lengths : /\ len # L /\ Len(hist) < MaxLen
                                  /\ LET r == AdjustGpts(len, g, s, endp) IN g' = r[1] /\ s' = r[2]
                                  /\ L' = len /\ hist' = Append(hist, [a |-> "SetLength", v |-> len]) /\ UNCHANGED endp
SetSampling == \E smp \in SamplingSet : /\ Len(hist) < MaxLen
                                        /\ LET r == AdjustGpts(L, g, smp, endp) IN g' = r[1] /\ s' = r[2]
                                        /\ hist' = Append(hist, [a |-> "SetSampling", v |-> smp]) /\ UNCHANGED <<L, endp>>
SetGpts == \E n \in GptsSet : /\ n # g /\ Len(hist) < MaxLen
                              /\ g' = n /\ s' = Sampling(L, n, endp)
                              /\ hist' = Append(hist, [a |-> "SetGpts", v |-> n]) /\ UNCHANGED <<L, endp>>
Next == SetLength \/ SetSampling \/ SetGpts
Spec == Init /\ [][Next]_vars
Lin(n, len, e) == [i \in 1..n |-> IF n = 1 THEN RInt(0) ELSE RMul(RInt(i - 1), RDiv(len, RInt(IF e THEN n - 1 ELSE n)))]
Degenerate == endp /\ g = 1
GeometryAfterEveryEdit == Degenerate \/ (/\ AxisPositionsOK(Lin(g, L, endp), g, RInt(0), s) /\ AxisEndOK(g, RInt(0), L, s, endp))
EmitHistory == (Emit /\ Len(hist) = MaxLen) => PrintT(<<"HIST", ToJson(hist)>>)
=============================================================================
