------------------------------ MODULE BlochImpl ------------------------------
(* Implementation-shaped model of the discrete parts of abtem/bloch:            *)
(*  - get_reflection_condition(hkl, centering): parity formulas on Miller       *)
(*    indices (Python's % on negative numbers is non-negative, as in TLA+);     *)
(*    checked against Bloch!Allowed (the lattice sum) on the cube |h| <= N.     *)
(*    Broken = TRUE is the code before the fix: the A/B/C branches call         *)
(*    .all(axis=1) on a one-dimensional array and raise.                        *)
(*  - ravel_hkl / retrieve_structure_factor_values: Miller indices are shifted  *)
(*    by gpts div 2 and raveled to one integer key, the structure factors are   *)
(*    looked up by key; checked: the key is injective on the grid, the          *)
(*    difference of two allowed reflections is allowed, and lies inside a table *)
(*    that reaches twice as far as the selected reflections.                    *)
EXTENDS Integers, Sequences, FiniteSets, TLC
CONSTANTS N, Broken
B == INSTANCE Bloch WITH Emit <- FALSE, c <- 0, done <- FALSE
Cube(m) == {<<h, k, l>> : h \in (-m)..m, k \in (-m)..m, l \in (-m)..m}

(* get_reflection_condition; Raises models the AxisError of the code before the fix *)
Raises(cen) == Broken /\ cen \in {"A", "B", "C"}
Condition(h, cen) ==
  CASE cen = "F" -> LET even == \A i \in 1..3 : h[i] % 2 = 0   odd == \A i \in 1..3 : h[i] % 2 = 1 IN even \/ odd
    [] cen = "I" -> (h[1] + h[2] + h[3]) % 2 = 0
    [] cen = "A" -> (h[2] + h[3]) % 2 = 0
    [] cen = "B" -> (h[1] + h[3]) % 2 = 0
    [] cen = "C" -> (h[1] + h[2]) % 2 = 0
    [] cen = "P" -> TRUE

(* ravel_hkl with gpts = 2 m + 1 per axis *)
Ravel(h, m) == LET g == 2 * m + 1 IN ((h[1] + m) * g + (h[2] + m)) * g + (h[3] + m)

VARIABLES cen, done
vars == <<cen, done>>
Init == cen \in B!Centerings /\ done = FALSE
Next == ~done /\ done' = TRUE /\ UNCHANGED cen
Spec == Init /\ [][Next]_vars
ConditionIsTheLatticeSum == ~Raises(cen) /\ \A h \in Cube(N) : Condition(h, cen) = B!Allowed(h, cen)
AllowedClosedUnderDifferences ==
  \A a \in Cube(N) : \A b \in Cube(N) : (B!Allowed(a, cen) /\ B!Allowed(b, cen)) => B!Allowed(B!Minus(b, a), cen)
DifferencesInsideTheDoubleTable == \A a \in Cube(N) : \A b \in Cube(N) : B!Minus(b, a) \in Cube(2 * N)
RavelInjective == \A a \in Cube(2 * N) : \A b \in Cube(2 * N) : (Ravel(a, 2 * N) = Ravel(b, 2 * N)) => a = b
=============================================================================
