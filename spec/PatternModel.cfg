SPECIFICATION Spec
CONSTANTS
  MaxN = 9
  Emit = FALSE
INVARIANT MapOK
INVARIANT ShiftInverse
INVARIANT FftShiftTwiceOnlyEven
CHECK_DEADLOCK FALSE
