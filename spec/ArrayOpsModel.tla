---------------------------- MODULE ArrayOpsModel ----------------------------
(* History machine: every sequence (<= Depth) of structural operations on an  *)
(* array object with two ensemble axes.  One public call = one step.  TLC     *)
(* checks the invariants of the abstract state and emits the histories that   *)
(* are replayed on real Waves / measurements (eager and lazy).                *)
EXTENDS ArrayOps, TLC, Json
CONSTANTS Depth, Emit
VARIABLES st, hist
vars == <<st, hist>>

N(x) == << >>
Sl(s, e, k) == [t |-> "slice", start |-> s, stop |-> e, step |-> k]
ItemsFor(ax) ==
     {[t |-> "int", i |-> i] : i \in {0, -1} \cap (-ax.n)..(ax.n - 1)}
\cup {Sl(<< >>, << >>, << >>), Sl(<<1>>, << >>, << >>), Sl(<< >>, << >>, <<2>>), Sl(<<0>>, <<1>>, << >>), Sl(<< >>, <<-1>>, << >>),
      Sl(<<-2>>, << >>, << >>), Sl(<< >>, << >>, <<-1>>), Sl(<<-1>>, << >>, <<-2>>)}
\cup (IF ax.kind # "linear" /\ ax.n >= 1 THEN {[t |-> "list", idx |-> <<0, -1>>], [t |-> "mask", mask |-> [i \in 1..ax.n |-> i % 2 = 1]]} ELSE {})
(* two advanced (list / mask) indices are broadcast together by NumPy (pointwise selection): not an axis-wise operation *)
Fancy(x) == x.t \in {"list", "mask"}
IndexOps == LET a == st.axes IN
     (IF Len(a) >= 1 THEN {<<x>> : x \in ItemsFor(a[1])} ELSE {})
\cup (IF Len(a) >= 2 THEN {<<x, y>> \in ItemsFor(a[1]) \X ItemsFor(a[2]) : ~(Fancy(x) /\ Fancy(y))} ELSE {})
\cup (IF Len(a) >= 1 THEN {<<[t |-> "none"], x>> : x \in ItemsFor(a[1])} ELSE {<<[t |-> "none"]>>})
\cup (IF Len(a) = 1 THEN {<<x, [t |-> "int", i |-> 0]>> : x \in ItemsFor(a[1])} ELSE {})      \* one index too many: a base axis
\cup (IF Len(a) = 0 THEN {<<[t |-> "int", i |-> 0]>>} ELSE {})

Ops == {[k |-> "index", items |-> it] : it \in IndexOps}
  \cup {[k |-> "squeeze"]}
  \cup {[k |-> "expand", pos |-> p] : p \in 0..Len(st.axes)}
  \cup {[k |-> "reduce", fn |-> f, axis |-> a, keepdims |-> kd] : f \in {"sum", "mean", "max", "std", "min"}, a \in (0..(Len(st.axes) - 1)) \cup {-1},
                                                                 kd \in BOOLEAN}
  \cup {[k |-> "stack", pos |-> p] : p \in 0..Len(st.axes)}
  \cup {[k |-> "concat", axis |-> a] : a \in {a \in 0..(Len(st.axes) - 1) : st.axes[a + 1].kind = "ordinal"}}
  \cup {[k |-> "arith", fn |-> f, other |-> o] : f \in {"add", "sub", "mul", "truediv", "rmul", "rtruediv", "pow"},
                                                   o \in {"scalar", "array", "self"}}

Init == /\ st \in {[axes |-> <<Ordinal(1, <<1, 2, 3>>), Linear(2, 2, <<1, 2>>, <<1, 4>>)>>, meta |-> {}],
                   [axes |-> <<Linear(2, 4, <<-1, 1>>, <<3, 8>>), Ordinal(1, <<7>>)>>, meta |-> {}]}
        /\ hist = <<[op |-> [k |-> "init"], axes |-> st.axes]>>
Step(op) == LET e == Expected(st, op) IN
            /\ st' = IF e.raises THEN st ELSE [axes |-> e.axes, meta |-> e.meta]
            /\ hist' = Append(hist, [op |-> op, raises |-> e.raises, axes |-> e.axes])
ValidOp(op) == IF op.k # "arith" THEN TRUE
               ELSE IF op.other \in {"scalar", "array"} THEN TRUE
               ELSE op.fn \in {"add", "sub", "mul", "truediv", "pow"}
Next == Len(hist) <= Depth /\ Len(st.axes) <= 3 /\ \E op \in Ops : ValidOp(op) /\ Step(op)
Spec == Init /\ [][Next]_vars

(* invariants of the abstract state *)
AxesWellFormed == \A i \in 1..Len(st.axes) : LET a == st.axes[i] IN
                     /\ a.n >= 0 /\ (a.kind = "ordinal" => Len(a.vals) = a.n) /\ (a.kind = "linear" => ~RIsZero(a.samp))
DesignView == <<st, Len(hist)>>
AtBound == (Emit /\ Len(hist) = Depth + 1) => PrintT(<<"BEH", ToJson(hist)>>)
=============================================================================
