---------------------------- MODULE PipelineModel ----------------------------
(* (1) Scenario space of C01, enumerated (or sampled with -simulate) by TLC.    *)
(* (2) Schedule model of one lazy evaluation: B independent blocks executed by *)
(* W workers in any interleaving; every block reads the shared per-potential   *)
(* integrator cache (keyed by element and grid; a miss computes and stores the  *)
(* value for the block's grid, which is the same for all blocks) and produces   *)
(* a result that depends on the block only; the assembled result is ordered by  *)
(* block index.  TLC explores every interleaving and checks confluence: the     *)
(* assembled result equals the sequential one.                                  *)
EXTENDS Pipeline, TLC, Json
CONSTANTS Blocks, Workers, Emit, Mode          \* Mode = "scenarios" | "schedules"
VARIABLES scn, pending, running, results, cache, done
vars == <<scn, pending, running, results, cache, done>>

ScenarioSet == {s \in [builder : Builders, potential : Potentials, exit_planes : ExitPlanes, detector : Detectors, scan : Scans,
                       ctf : BOOLEAN, tilt : Tilts, ctf_series : BOOLEAN] : Valid(s)}
Init == /\ IF Mode = "scenarios" THEN scn \in ScenarioSet ELSE scn = [builder |-> "probe"]
        /\ pending = IF Mode = "scenarios" THEN {} ELSE 1..Blocks
        /\ running = [w \in 1..Workers |-> 0] /\ results = [b \in 1..Blocks |-> << >>] /\ cache = 0 /\ done = FALSE
Grid == 7       \* the grid all blocks of one evaluation share
Schedule(b, w) == /\ b \in pending /\ running[w] = 0
                  /\ running' = [running EXCEPT ![w] = b] /\ pending' = pending \ {b}
                  /\ UNCHANGED <<scn, results, cache, done>>
(* the block reads the cache (hit iff stored for this grid), computes, publishes *)
Finish(w) == /\ running[w] # 0
             /\ LET b == running[w] used == IF cache = Grid THEN cache ELSE Grid IN
                  /\ cache' = used
                  /\ results' = [results EXCEPT ![b] = <<"block", b, used>>]
             /\ running' = [running EXCEPT ![w] = 0] /\ UNCHANGED <<scn, pending, done>>
Emitted == /\ Mode = "scenarios" /\ ~done /\ done' = TRUE /\ UNCHANGED <<scn, pending, running, results, cache>>
Next == (\E b \in 1..Blocks, w \in 1..Workers : Schedule(b, w)) \/ (\E w \in 1..Workers : Finish(w)) \/ Emitted
Spec == Init /\ [][Next]_vars
AllDone == pending = {} /\ \A w \in 1..Workers : running[w] = 0
Sequential == [b \in 1..Blocks |-> <<"block", b, Grid>>]
Confluent == (Mode = "schedules" /\ AllDone) => results = Sequential
ExactlyOnce == Mode = "schedules" => \A b \in 1..Blocks :
                  Cardinality({w \in 1..Workers : running[w] = b}) + (IF b \in pending THEN 1 ELSE 0) + (IF results[b] # << >> THEN 1 ELSE 0) = 1
EmitCase == (Emit /\ Mode = "scenarios" /\ done) => PrintT(<<"CASE", ToJson(scn)>>)
=============================================================================
