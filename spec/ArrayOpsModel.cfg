SPECIFICATION Spec
CONSTANTS
  Depth = 2
  Emit = FALSE
INVARIANT AxesWellFormed
VIEW DesignView
CHECK_DEADLOCK FALSE
