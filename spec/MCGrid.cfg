SPECIFICATION Spec
CONSTANTS
  Extents <- MC_Extents
  Gpts <- MC_Gpts
  Samplings <- MC_Samplings
  Depth = 3
  Emit = FALSE
INVARIANT InitOK
PROPERTY StepOK
CHECK_DEADLOCK FALSE
