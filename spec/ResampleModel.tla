---------------------------- MODULE ResampleModel ----------------------------
(* Implementation-shaped model of the axis bookkeeping behind the documented    *)
(* commutation (property C16): _gaussian_source_size walks the ensemble axes    *)
(* and gives the j-th SCAN axis sigma[j] / scan_sampling[j] pixels and every    *)
(* other axis (other ensemble axes, the two detector axes) zero; integrating    *)
(* the detector axes turns the two scan axes into the base axes of an Images    *)
(* object (other ensemble axes stay in front, in order) and                     *)
(* Images.gaussian_filter gives base axis j sigma[j] / sampling[j] pixels.      *)
(* TLC checks for every layout of up to two other ensemble axes around the two  *)
(* scan axes that both routes smooth the same physical axis with the same       *)
(* width in pixels (exact rationals), whatever the samplings.                   *)
EXTENDS Integers, Sequences, FiniteSets, TLC, Rational
CONSTANTS Samplings, SigmaValues
(* an axis: <<kind, id, sampling>>, kind "scan" | "other" | "detector" *)
LayoutsOf == {<<"s", "s">>, <<"o", "s", "s">>, <<"s", "o", "s">>, <<"s", "s", "o">>, <<"o", "s", "o", "s">>, <<"o", "o", "s", "s">>}
VARIABLES lay, samp, sigma, done
vars == <<lay, samp, sigma, done>>
Init == /\ lay \in LayoutsOf
        /\ samp \in [1..2 -> Samplings]            \* sampling of the first / second scan axis
        /\ sigma \in [1..2 -> SigmaValues]
        /\ done = FALSE
Next == ~done /\ done' = TRUE /\ UNCHANGED <<lay, samp, sigma>>
Spec == Init /\ [][Next]_vars
ScanIndex(i) == Cardinality({j \in 1..i : lay[j] = "s"})          \* the i-th axis is the ScanIndex(i)-th scan axis
(* route 1: _gaussian_source_size on the diffraction patterns: pixel sigma per ensemble axis (detector axes get 0) *)
SourceSigma == [i \in 1..Len(lay) |-> IF lay[i] = "s" THEN RDiv(sigma[ScanIndex(i)], samp[ScanIndex(i)]) ELSE RInt(0)]
(* route 2: integrate, then Images.gaussian_filter: the Images axes are the other axes in order followed by the scan axes in order *)
ImageAxes == SelectSeq([i \in 1..Len(lay) |-> i], LAMBDA i : lay[i] = "o") \o SelectSeq([i \in 1..Len(lay) |-> i], LAMBDA i : lay[i] = "s")
FilterSigma == [p \in 1..Len(ImageAxes) |->
                  IF p <= Len(ImageAxes) - 2 THEN RInt(0)
                  ELSE LET j == p - (Len(ImageAxes) - 2) IN RDiv(sigma[j], samp[j])]
SameSmoothing == \A p \in 1..Len(ImageAxes) : FilterSigma[p] = SourceSigma[ImageAxes[p]]
=============================================================================
