---------------------------- MODULE TransferHist ----------------------------
(* History machine for transfer functions (C23, quantifier "all cutoffs,      *)
(* soft/hard edges, grids, energies ..."): one Aperture / CTF / envelope       *)
(* object is evaluated, edited through its public setters (energy, extent,     *)
(* gpts, semiangle_cutoff, spreads), copied, and evaluated again.  What an     *)
(* evaluation returns must be the kernel of the object's CURRENT parameters:   *)
(* the bounds of Transfer.tla are judged against the scattering angles of the  *)
(* current energy and grid.  The transcription of BaseTransferFunction has no  *)
(* memory between evaluations (_angular_grid recomputes polar frequencies and  *)
(* multiplies by the current wavelength); the named deviation CacheAngularGrid *)
(* is the cache keyed on (gpts, sampling) only, for which TLC returns the      *)
(* history Evaluate; SetEnergy; Evaluate.                                      *)
EXTENDS Integers, Sequences, FiniteSets, TLC, Json
CONSTANTS MaxLen, Emit, CacheAngularGrid
VARIABLES kind, p, cache, hist, ok
vars == <<kind, p, cache, hist, ok>>
Kinds == {"aperture", "ctf", "temporal", "spatial"}
P0 == [energy |-> 80, extent |-> 1, gpts |-> 1, cutoff |-> "mid", soft |-> FALSE, spread |-> 1]
(* the angular grid the evaluation uses is a function of (energy, extent, gpts) *)
AngularGrid(q) == <<q.energy, q.extent, q.gpts>>
Used == IF CacheAngularGrid /\ cache # << >> /\ cache[1] = <<p.extent, p.gpts>> THEN cache[2] ELSE AngularGrid(p)
Init == /\ kind \in Kinds /\ p = P0 /\ cache = << >> /\ ok = TRUE
        /\ hist = <<[a |-> "New", kind |-> kind]>>
Step(a, q) == /\ Len(hist) < MaxLen /\ p' = q /\ hist' = Append(hist, a) /\ UNCHANGED <<kind, cache, ok>>
SetEnergy == \E e \in {80, 300} : e # p.energy /\ Step([a |-> "SetEnergy", v |-> e], [p EXCEPT !.energy = e])
SetExtent == \E x \in {1, 2, 3} : x # p.extent /\ Step([a |-> "SetExtent", v |-> x], [p EXCEPT !.extent = x])
SetGpts == \E g \in {1, 2} : g # p.gpts /\ Step([a |-> "SetGpts", v |-> g], [p EXCEPT !.gpts = g])
SetCutoff == kind \in {"aperture", "ctf"} /\ \E cc \in {"one_pixel", "mid", "near_nyquist"} : cc # p.cutoff /\ Step([a |-> "SetCutoff", v |-> cc], [p EXCEPT !.cutoff = cc])
SetSpread == kind \in {"ctf", "temporal", "spatial"} /\ \E s \in {0, 2} : s # p.spread /\ Step([a |-> "SetSpread", v |-> s], [p EXCEPT !.spread = s])
Copy == Step([a |-> "Copy"], p)
Evaluate == /\ Len(hist) < MaxLen
            /\ ok' = (ok /\ Used = AngularGrid(p))
            /\ cache' = <<<<p.extent, p.gpts>>, Used>>
            /\ hist' = Append(hist, [a |-> "Evaluate"])
            /\ UNCHANGED <<kind, p>>
Next == SetEnergy \/ SetExtent \/ SetGpts \/ SetCutoff \/ SetSpread \/ Copy \/ Evaluate
Spec == Init /\ [][Next]_vars
EvaluationUsesCurrentParameters == ok
LastIsEvaluate == hist[Len(hist)].a = "Evaluate"
EmitHistory == (Emit /\ Len(hist) = MaxLen /\ LastIsEvaluate /\ \E i \in 2..(Len(hist) - 2) : hist[i].a = "Evaluate") => PrintT(<<"HIST", ToJson(hist)>>)
=============================================================================
