SPECIFICATION Spec
CONSTANTS
  Emit = TRUE
INVARIANT EmitCase
INVARIANT TableSatisfiesTheMomentConditions
CHECK_DEADLOCK FALSE
