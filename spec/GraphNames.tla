---------------------------- MODULE GraphNames ----------------------------
(* Task identity in a dask graph (growth; the mechanism behind C19-m5 and   *)
(* C02-m5).  A lazy abTEM object is a set of named tasks; the name of a task *)
(* is derived from SOME of the fields of the object that created it.  When   *)
(* several lazy objects are computed together - dask.compute(a, b),          *)
(* abtem.stack([a, b]).compute(), a ComputableList, one to_zarr call - the   *)
(* graphs are merged by name: of the tasks that carry one name exactly one is *)
(* kept, and every object that referred to the name receives its result.     *)
(*                                                                           *)
(* Objects are vectors of field values; Name projects an object on the       *)
(* fields the name is derived from.  The design question TLC answers: for    *)
(* which sets of naming fields does every object of every joint computation  *)
(* get the result of ITS OWN fields?  (Exactly when the name determines the  *)
(* payload: NameFields must contain every field the payload depends on, or   *)
(* the name must be unique per creation - dask's default uuid names.)        *)
EXTENDS Naturals, FiniteSets, TLC

CONSTANTS Fields,          \* fields the payload of a block depends on, e.g. {"start", "extent", "gpts", "block"}
          Values,          \* values a field can take
          NameFields,      \* fields the task name is derived from (a subset of Fields)
          Unique,          \* TRUE: names also carry a token that is unique per creation (dask's default)
          MaxObjects

VARIABLES created,         \* the lazy objects created so far: [id, fields]
          submitted,       \* ids computed together in the current joint computation
          results          \* id -> fields whose payload the object received
vars == <<created, submitted, results>>

Objects == [Fields -> Values]
Name(o) == <<[f \in NameFields |-> o.fields[f]], IF Unique THEN o.id ELSE 0>>

Init == created = {} /\ submitted = {} /\ results = << >>
Create(fs) == /\ Cardinality(created) < MaxObjects
              /\ created' = created \cup {[id |-> Cardinality(created) + 1, fields |-> fs]}
              /\ UNCHANGED <<submitted, results>>
(* a joint computation of a set of created objects: one task per name survives the merge *)
Compute(S) == /\ S # {} /\ S \subseteq created
              /\ submitted' = {o.id : o \in S}
              /\ \E keep \in [{Name(o) : o \in S} -> S] :
                    /\ \A n \in DOMAIN keep : Name(keep[n]) = n
                    /\ results' = [i \in {o.id : o \in S} |-> keep[Name(CHOOSE o \in S : o.id = i)].fields]
              /\ UNCHANGED created
Next == (\E fs \in Objects : Create(fs)) \/ (\E S \in SUBSET created : Compute(S))
Spec == Init /\ [][Next]_vars

(* every object of a joint computation receives the payload of its own fields *)
OwnResults == \A o \in created : o.id \in submitted => results[o.id] = o.fields

(* Binding: C19 builds, for every ensemble, a sibling that differs in its payload fields, computes the lazy blocks of both in ONE  *)
(* graph (the verdict: each gets its own members, Ensemble.tla clauses lazy_members) and records whether a task key occurs in both *)
(* graphs with different payloads (Ensemble.tla clause growth_distinct_objects_share_task_names, reported as drift).              *)
=============================================================================
