SPECIFICATION Spec
CONSTANTS
  Depth = 2
  Emit = FALSE
  Focus <- FocusAll
INVARIANT AliasSameCell
INVARIANT DefocusMirrorsC10
INVARIANT EveryNameKnown
INVARIANT AnglesHaveMagnitudes
VIEW DesignView
CHECK_DEADLOCK FALSE
