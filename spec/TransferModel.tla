---------------------------- MODULE TransferModel ----------------------------
(* Scenario space of C23: TLC enumerates every valid combination; the set it  *)
(* emits is the set the trace validation must see (coverage is checked by the *)
(* harness against this list).                                                *)
EXTENDS Transfer, TLC, Json
CONSTANTS Emit
VARIABLES c, done
vars == <<c, done>>
Grids == {<<16, 16>>, <<17, 16>>, <<17, 17>>, <<16, 24>>}
Extents == {<<8, 8>>, <<8, 12>>, <<6, 18>>, <<18, 6>>}
Energies == {80, 300}
CutoffClasses == {"sub_pixel", "one_pixel", "mid", "mid_b", "near_nyquist", "beyond_axis_nyquist"}   \* the last: above the largest on-axis angle, below the corner angle
Spreads == {0, 1, 2, 3}       \* index into the harness' table of focal / angular spreads; 3 = a WEIGHTED series of spreads (every member is judged)
AberrationSets == {"none", "defocus", "cs_defocus", "astigmatism", "coma"}
Init == /\ \/ \E g \in Grids, x \in Extents, e \in Energies, cc \in CutoffClasses, s \in BOOLEAN :
                c = [kind |-> "aperture", gpts |-> g, extent |-> x, energy |-> e, cutoff |-> cc, soft |-> s, spread |-> 0, ab |-> "none"]
           \/ \E g \in Grids, x \in Extents, e \in Energies, sp \in Spreads :
                c = [kind |-> "temporal", gpts |-> g, extent |-> x, energy |-> e, cutoff |-> "mid", soft |-> TRUE, spread |-> sp, ab |-> "none"]
           \/ \E g \in Grids, x \in Extents, e \in Energies, sp \in Spreads, a \in AberrationSets :
                c = [kind |-> "spatial", gpts |-> g, extent |-> x, energy |-> e, cutoff |-> "mid", soft |-> TRUE, spread |-> sp, ab |-> a]
           \/ \E g \in Grids, x \in {<<8, 8>>, <<8, 12>>, <<6, 18>>}, cc \in CutoffClasses \ {"mid_b", "beyond_axis_nyquist"}, s \in BOOLEAN, sp \in Spreads, a \in AberrationSets :
                c = [kind |-> "ctf", gpts |-> g, extent |-> x, energy |-> 300, cutoff |-> cc, soft |-> s, spread |-> sp, ab |-> a]
        /\ done = FALSE
Next == ~done /\ done' = TRUE /\ UNCHANGED c
Spec == Init /\ [][Next]_vars
EmitCase == (Emit /\ done) => PrintT(<<"CASE", ToJson(c)>>)
=============================================================================
