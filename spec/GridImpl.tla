------------------------------ MODULE GridImpl ------------------------------
(* Implementation-shaped model of abtem.core.grid.Grid: a transcription of    *)
(* __init__, the extent/gpts/sampling setters and _adjust_extent/_adjust_gpts *)
(* /_adjust_sampling at the granularity of their branches, one dimension      *)
(* (the setters treat dimensions independently; raising is shared).           *)
(* TLC checks that every step of this model is a step of Grid.tla (C17), and  *)
(* emits the explored histories for replay against the real class.            *)
EXTENDS Grid, TLC, Json

CONSTANTS Extents, Gpts, Samplings,   \* alphabets (sets of rationals / ints)
          Depth,                      \* history length bound
          Emit                        \* print histories at the depth bound

VARIABLES st, hist, raised
vars == <<st, hist, raised>>

Opt(S) == S \cup {None}
V(x) == IF IsNone(x) THEN None ELSE x[1]         \* 1-dimensional tuple -> value
T(x) == IF IsNone(x) THEN None ELSE <<x>>
(* gpts values are kept boxed (<<n>>) throughout so that "None" = << >> can   *)
(* share a set with them (TLC cannot compare an integer with a tuple).        *)

Iv(g, endp) == IF endp THEN g[1] - 1 ELSE g[1]

(* _adjust_extent(gpts, sampling) *)
AdjExtent(e, g, s, endp) == IF ~IsNone(g) /\ ~IsNone(s) THEN RMul(RInt(Iv(g, endp)), s) ELSE e
(* _adjust_gpts(extent, sampling): int(ceil(r / d)) (+1 with endpoint); r/d raises for d = 0 *)
AdjGptsRaises(e, s) == ~IsNone(e) /\ ~IsNone(s) /\ RIsZero(s)
AdjGpts(e, g, s, endp) == IF ~IsNone(e) /\ ~IsNone(s)
                          THEN <<RCeil(RDiv(e, s)) + (IF endp THEN 1 ELSE 0)>> ELSE g
(* _adjust_sampling(extent, gpts) with _safe_divide *)
AdjSampling(e, g, s, endp) == IF ~IsNone(e) /\ ~IsNone(g)
                              THEN (IF Iv(g, endp) = 0 THEN RInt(0) ELSE RDiv(e, RInt(Iv(g, endp)))) ELSE s

Mk(e, g, s, base) == [base EXCEPT !.e = T(e), !.g = g, !.s = T(s)]

(* Grid.__init__ *)
Construct(e0, g0, s0, endp, lE, lG, lS) ==
  LET e1 == IF IsNone(e0) THEN AdjExtent(e0, g0, s0, endp) ELSE e0
      g1 == IF IsNone(g0) THEN AdjGpts(e1, g0, s0, endp) ELSE g0
      s1 == IF IsNone(s0) \/ ~IsNone(e0) THEN AdjSampling(e1, g1, s0, endp) ELSE s0
  IN [e |-> T(e1), g |-> g1, s |-> T(s1), lockE |-> lE, lockG |-> lG, lockS |-> lS, endp |-> <<endp>>]

InitArgsOK(e0, g0, s0) == ~(IsNone(e0) /\ IsNone(g0) /\ ~IsNone(s0) /\ FALSE)

Init == \E e0 \in Opt(Extents), g0 \in Opt(Gpts), s0 \in Opt(Samplings), endp, lE, lG, lS \in BOOLEAN :
          /\ ~(IsNone(g0) /\ AdjGptsRaises(e0, s0))
          /\ st = Construct(e0, g0, s0, endp, lE, lG, lS)
          /\ hist = << [a |-> "Init", e |-> e0, g |-> g0, s |-> s0, endp |-> endp,
                        lockE |-> lE, lockG |-> lG, lockS |-> lS] >>
          /\ raised = FALSE

Log(a, arg) == hist' = Append(hist, [a |-> a, arg |-> arg])
Raise == st' = st /\ raised' = TRUE
(* _enforce_locks(old): restore the previous state and raise if a locked, defined *)
(* quantity was changed by the setter body; otherwise commit.                    *)
Commit(c) == IF LockEKept(st, c) /\ LockGKept(st, c) /\ LockSKept(st, c)
             THEN st' = c /\ raised' = FALSE
             ELSE Raise

(* extent.setter *)
SetExtent(v) ==
  LET e == V(st.e) g == st.g s == V(st.s) endp == st.endp[1] IN
  /\ Log("SetExtent", v)
  /\ IF st.lockE /\ ~IsNone(e) /\ ~REq(v, e) THEN Raise
     ELSE IF st.lockS \/ IsNone(g)
          THEN IF AdjGptsRaises(v, s) THEN Raise
               ELSE LET g1 == AdjGpts(v, g, s, endp) s1 == AdjSampling(v, g1, s, endp)
                    IN Commit(Mk(v, g1, s1, st))
          ELSE Commit(Mk(v, g, AdjSampling(v, g, s, endp), st))

SetExtentNone == /\ Log("SetExtentNone", None)
                 /\ Commit([st EXCEPT !.e = None])

(* gpts.setter *)
SetGpts(n) ==
  LET e == V(st.e) g == st.g s == V(st.s) endp == st.endp[1] IN
  /\ Log("SetGpts", n)
  /\ IF st.lockG THEN Raise
     ELSE IF st.lockS THEN Commit(Mk(AdjExtent(e, n, s, endp), n, s, st))
          ELSE IF ~IsNone(e) THEN Commit(Mk(e, n, AdjSampling(e, n, s, endp), st))
          ELSE Commit(Mk(AdjExtent(e, n, s, endp), n, s, st))

(* sampling.setter *)
SetSampling(d) ==
  LET e == V(st.e) g == st.g s == V(st.s) endp == st.endp[1] IN
  /\ Log("SetSampling", d)
  /\ IF st.lockS THEN Raise
     ELSE LET viaG == ~st.lockG /\ ~IsNone(e) IN
          IF viaG /\ AdjGptsRaises(e, d) THEN Raise
          ELSE LET e1 == IF viaG THEN e ELSE AdjExtent(e, g, d, endp)
                   g1 == IF viaG THEN AdjGpts(e, g, d, endp) ELSE g
                   s1 == IF IsNone(e1) \/ IsNone(g1) THEN d ELSE AdjSampling(e1, g1, s, endp)
               IN Commit(Mk(e1, g1, s1, st))

Next == /\ Len(hist) <= Depth
        /\ \/ \E v \in Extents : SetExtent(v)
           \/ SetExtentNone
           \/ \E n \in Gpts : SetGpts(n)
           \/ \E d \in Samplings : SetSampling(d)

Spec == Init /\ [][Next]_vars

(* ---- design-level claim: every implementation step is a C17 step ---- *)
Recip(s) == IF Defined(s) /\ ~RIsZero(s.s[1]) THEN <<RDiv(RInt(1), RMul(RInt(s.g[1]), s.s[1]))>> ELSE None
(* Known finding C17-endpoint-single-point (DESIGN 7): a dimension with        *)
(* endpoint = TRUE and gpts = 1 keeps a non-zero extent with sampling 0         *)
(* (_safe_divide).  The design claim is checked for everything else.            *)
Degenerate(s) == ~IsNone(s.g) /\ \E d \in Dims(s) : s.endp[d] /\ s.g[d] = 1
Excused(s) == IF Degenerate(s) THEN {"consistent"} ELSE {}
InitOK == Len(hist) = 1 => (Consistent(st) \/ Degenerate(st))
StepOK == [][StepFails(st, st', raised', Recip(st')) \ Excused(st') = {}]_vars

(* ---- the same claim, but collecting rather than stopping: used to enumerate *)
(*      the classes of counterexamples (candidate defects) in one run         *)
Classes == (IF Len(hist) = 1 /\ ~Consistent(st) THEN PrintT(<<"CEX", "Init", {"consistent"}, hist>>) ELSE TRUE)
ClassStep == [][ LET f == StepFails(st, st', raised', Recip(st')) IN
                  f # {} => PrintT(<<"CEX", hist'[Len(hist')].a, f, hist'>>) ]_vars

DesignView == <<st, raised, Len(hist)>>      \* hist is an observation variable: hidden in design runs

(* ---- behaviour emission ---- *)
AtBound == (Emit /\ Len(hist) = Depth + 1) => PrintT(<<"BEH", ToJson(hist)>>)
=============================================================================
