--------------------------- MODULE PropagationModel ---------------------------
(* Scenario space of C04 / C39 and which clauses each scenario exercises.      *)
(* One multislice step is T (unit modulus for a real potential) followed by    *)
(* P x A (|.| <= 1): intensity never increases; in vacuum A is the only loss,  *)
(* so a wave band-limited inside the antialias aperture keeps its intensity,   *)
(* and P(-dz) P(dz) = A^2 = identity on such a wave.                           *)
EXTENDS Integers, Sequences, TLC, Json
CONSTANTS MaxSlices, Emit
VARIABLES c, done
vars == <<c, done>>
Potentials == {"vacuum", "atoms", "random_real", "random_negative"}
WaveKinds == {"plane", "probe", "random_bandlimited", "random_full"}
Tilts == {"none", "pos", "neg"}
BandLimited(w) == w \in {"plane", "probe", "random_bandlimited"}
Init == /\ \E p \in Potentials, w \in WaveKinds, t \in Tilts, o \in {1, 2}, n \in 1..MaxSlices, u \in BOOLEAN :
             c = [pot |-> p, wave |-> w, tilt |-> t, order |-> o, slices |-> n, unequal |-> u,
                  conserved |-> (p = "vacuum" /\ BandLimited(w)), reversible |-> BandLimited(w)]
        /\ done = FALSE
Next == ~done /\ done' = TRUE /\ UNCHANGED c
Spec == Init /\ [][Next]_vars
(* every clause of C04 is exercised by some scenario *)
EmitCase == (Emit /\ done) => PrintT(<<"CASE", ToJson(c)>>)
=============================================================================
