---------------------------- MODULE PotentialBuild ----------------------------
(* Property-level specification of potential building and slice windows (C10). *)
(* The i-th slice of ensemble member k is the symbolic value <<"slice", k, i>>. *)
(* C10: "Building a potential eagerly or lazily gives the same array for every  *)
(* ensemble member, and generating slices in a window [first, last) yields      *)
(* exactly the corresponding part of the full slice sequence."                  *)
EXTENDS Integers, Sequences, FiniteSets

SliceOf(k, i) == <<"slice", k, i>>
(* what build(first, last) must hold at [member k][j] *)
BuiltOK(arr, members, first, last) ==
   /\ Len(arr) = members
   /\ \A k \in 1..members : /\ Len(arr[k]) = last - first
                            /\ \A j \in 1..(last - first) : arr[k][j] = SliceOf(k - 1, first + j - 1)
(* what generate_slices(first, last) must yield: <<slice index, exit-plane flag>> *)
WindowOK(yielded, n, first, last, exitAfter) ==
   /\ Len(yielded) = last - first
   /\ \A j \in 1..(last - first) : yielded[j] = <<first + j - 1, exitAfter[first + j]>>

Tol == 20000
BuildFails(ev) ==
  IF ev.raised THEN {"raised"}
  ELSE (IF ev.shape_ok THEN {} ELSE {"shape"})
  \cup (IF \A i \in 1..Len(ev.lazy_vs_eager_ppb) : ev.lazy_vs_eager_ppb[i] <= Tol THEN {} ELSE {"lazy_differs_from_eager"})
  \cup (IF \A i \in 1..Len(ev.eager_vs_member_ppb) : ev.eager_vs_member_ppb[i] <= Tol THEN {} ELSE {"eager_member_is_not_its_configuration"})
  \cup (IF \A i \in 1..Len(ev.lazy_vs_member_ppb) : ev.lazy_vs_member_ppb[i] <= Tol THEN {} ELSE {"lazy_member_is_not_its_configuration"})
WindowFails(ev) ==
  IF ev.raised THEN {"raised"}
  ELSE (IF Len(ev.indices) = ev.last - ev.first THEN {} ELSE {"window_length"})
  \cup (IF Len(ev.indices) = ev.last - ev.first /\ \A j \in 1..Len(ev.indices) : ev.indices[j] = ev.first + j - 1
        THEN {} ELSE {"window_is_not_the_corresponding_part"})
  \cup (IF ev.tags_ok THEN {} ELSE {"exit_plane_tags"})
  \cup (IF ev.thickness_ok THEN {} ELSE {"slice_thickness"})
=============================================================================
