SPECIFICATION Spec
CONSTANTS
  Grids = {1, 2, 3}
  Depth = 4
  Emit = FALSE
  KeyedByGrid = TRUE
PROPERTY BuildsFresh
VIEW DesignView
CHECK_DEADLOCK FALSE
