SPECIFICATION Spec
CONSTANTS
  N = 3
  M = 4
  Emit = FALSE
INVARIANT TranslationIsRoll
INVARIANT RepeatIsTile
INVARIANT MassConserved
CHECK_DEADLOCK FALSE
