SPECIFICATION Spec
CONSTANTS
  Emit = TRUE
INVARIANT EmitCase
CHECK_DEADLOCK FALSE
