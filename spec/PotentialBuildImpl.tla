-------------------------- MODULE PotentialBuildImpl --------------------------
(* Implementation-shaped model of _FieldBuilder.build (eager: one block per     *)
(* ensemble member written at the block's index; lazy: one map_blocks task per  *)
(* member) and of generate_slices(first, last) for Potential, PotentialArray    *)
(* and CrystalPotential (unit slices x repetitions, every slice counted, only   *)
(* the window yielded).  One loop iteration = one step.                         *)
EXTENDS PotentialBuild, TLC, Json
CONSTANTS MaxMembers, MaxSlices, Emit
VARIABLES c, pc, k, j, arr, yielded
vars == <<c, pc, k, j, arr, yielded>>

Kinds == {"potential", "array", "crystal"}
(* exit_plane_after for exit planes every 2 slices + last *)
ExitAfter(n) == [i \in 1..n |-> (i % 2 = 0) \/ i = n]
Init == /\ \E kind \in Kinds, m \in 1..MaxMembers, u \in 1..MaxSlices, r \in 1..2 :
             LET n == IF kind = "crystal" THEN u * r ELSE u IN
             /\ n <= MaxSlices
             /\ (kind = "crystal" \/ r = 1)
             /\ \E f \in 0..(n - 1), l \in 1..n : f < l /\
                  c = [kind |-> kind, members |-> m, unit |-> u, reps |-> r, n |-> n, first |-> f, last |-> l]
        /\ pc = "build" /\ k = 0 /\ j = 0
        /\ arr = [m \in 1..c.members |-> [i \in 1..(c.last - c.first) |-> <<"zero">>]]
        /\ yielded = << >>
(* eager build: for block index k (member), for j-th slice of the window *)
BuildStep == /\ pc = "build" /\ k < c.members
             /\ arr' = [arr EXCEPT ![k + 1][j + 1] = SliceOf(k, c.first + j)]       \* written at the block's own index
             /\ IF j + 1 < c.last - c.first THEN j' = j + 1 /\ k' = k ELSE j' = 0 /\ k' = k + 1
             /\ UNCHANGED <<c, pc, yielded>>
BuildDone == /\ pc = "build" /\ k = c.members /\ pc' = "gen" /\ k' = 0 /\ j' = 0 /\ UNCHANGED <<c, arr, yielded>>
(* generate_slices: every slice index is visited (the crystal potential draws a unit per repetition), only the window is yielded *)
GenStep == /\ pc = "gen" /\ j < c.n
           /\ yielded' = IF c.first <= j /\ j < c.last THEN Append(yielded, <<j, ExitAfter(c.n)[j + 1]>>) ELSE yielded
           /\ j' = j + 1 /\ UNCHANGED <<c, pc, k, arr>>
GenDone == /\ pc = "gen" /\ j = c.n /\ pc' = "done" /\ UNCHANGED <<c, k, j, arr, yielded>>
Next == BuildStep \/ BuildDone \/ GenStep \/ GenDone
Spec == Init /\ [][Next]_vars
BuildCorrect == pc \in {"gen", "done"} => BuiltOK(arr, c.members, c.first, c.last)
WindowCorrect == pc = "done" => WindowOK(yielded, c.n, c.first, c.last, ExitAfter(c.n))
EmitCase == (Emit /\ pc = "done") => PrintT(<<"CASE", ToJson(c)>>)
=============================================================================
