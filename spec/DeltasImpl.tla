------------------------------ MODULE DeltasImpl ------------------------------
(* Implementation-shaped model of integrals.superpose_deltas (floor, fractional *)
(* part, four scatter targets wrapped per axis, scatter-add) composed with the  *)
(* atom operations; TLC checks the three covariance claims of Deltas.tla for    *)
(* every atom position (pixel x eighths), shift and repetition on small grids,  *)
(* and emits position / shift classes for the numeric runs on real potentials.  *)
EXTENDS Deltas, TLC, Json
CONSTANTS N, M, Emit
VARIABLES c, done
vars == <<c, done>>
Positions == {<<px, fx, py, fy>> : px \in 0..(N - 1), fx \in {0, 3, 7}, py \in 0..(M - 1), fy \in {0, 3, 7}}
Shifts == {<<0, 0>>, <<1, 0>>, <<0, 1>>, <<N - 1, M - 1>>, <<2, M + 1>>, <<-1, -2>>}
(* col: a further atom of the same kind in the SAME pixel as the first one (an atomic column seen along the beam: the contributions *)
(* to a pixel add up), with another sub-pixel fraction; "next_pixel": the further atom sits in the NEIGHBOURING pixel along x (wrapped),  *)
(* so that the 2 x 2 bilinear footprints of the two atoms overlap although their floor pixels differ                               *)
Init == /\ \E a \in Positions, b \in {<<0, 3, 1, 7>>, <<N - 1, 7, M - 1, 7>>}, s \in Shifts, r \in {<<1, 1>>, <<2, 1>>, <<1, 2>>, <<2, 2>>}, col \in {"none", "same_pixel", "next_pixel"} :
             c = [atoms |-> CASE col = "same_pixel" -> <<a, b, <<a[1], (a[2] + 2) % 8, a[3], (a[4] + 5) % 8>>, a>>
                              [] col = "next_pixel" -> <<a, b, <<(a[1] + 1) % N, (a[2] + 3) % 8, a[3], (a[4] + 5) % 8>> >>      \* no two atoms share a floor pixel
                              [] OTHER -> <<a, b>>,
                  shift |-> s, rep |-> r, column |-> col]
        /\ done = FALSE
Next == ~done /\ done' = TRUE /\ UNCHANGED c
Spec == Init /\ [][Next]_vars
W0 == SumWeights(N, M, c.atoms)
TranslationIsRoll == SumWeights(N, M, TranslateAtoms(c.atoms, c.shift)) = Roll(W0, N, M, c.shift)
RepeatIsTile == SumWeights(c.rep[1] * N, c.rep[2] * M, RepeatAtoms(c.atoms, N, M, c.rep)) = Tile(W0, N, M, c.rep)
MassConserved == REq(Total(W0, N, M), RInt(Len(c.atoms)))
PosClass(p, n) == IF p = 0 THEN "first" ELSE IF p = n - 1 THEN "last" ELSE "inner"
EmitCase == (Emit /\ done) => PrintT(<<"CASE", ToJson([ax |-> PosClass(c.atoms[1][1], N), fx |-> c.atoms[1][2], ay |-> PosClass(c.atoms[1][3], M),
                                                      fy |-> c.atoms[1][4], shift |-> c.shift, rep |-> c.rep, column |-> c.column])>>)
=============================================================================
