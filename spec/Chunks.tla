------------------------------- MODULE Chunks -------------------------------
(* Property-level specification of abtem.core.chunks (property C18).           *)
(* All operators are over sequences of naturals; a "chunking" of an array is a *)
(* sequence (one entry per dimension) of sequences of chunk sizes.             *)
EXTENDS Integers, Sequences, FiniteSets

RECURSIVE SumSeq(_)
SumSeq(s) == IF s = <<>> THEN 0 ELSE Head(s) + SumSeq(Tail(s))
RECURSIVE MaxSeq(_)
MaxSeq(s) == IF Len(s) = 1 THEN s[1] ELSE LET m == MaxSeq(Tail(s)) IN IF s[1] > m THEN s[1] ELSE m
RECURSIVE MinSeq(_)
MinSeq(s) == IF Len(s) = 1 THEN s[1] ELSE LET m == MinSeq(Tail(s)) IN IF s[1] < m THEN s[1] ELSE m
RECURSIVE ProdMax(_)
ProdMax(ch) == IF ch = <<>> THEN 1 ELSE MaxSeq(Head(ch)) * ProdMax(Tail(ch))

(* C18: "Validated chunks always sum to the array shape in every dimension"   *)
Partitions(shape, ch) == /\ Len(ch) = Len(shape)
                         /\ \A d \in 1..Len(shape) : ch[d] # <<>> /\ SumSeq(ch[d]) = shape[d]
                                                     /\ \A i \in 1..Len(ch[d]) : ch[d][i] >= 1

(* A dimension specification is boxed:  <<0>> = "auto", <<-1>> = whole        *)
(* dimension, <<n>> = chunks of n, a longer tuple = explicit chunk sizes.     *)
IsAuto(c) == c = <<0>>
FixedMax(c, n) == IF c = <<-1>> THEN n ELSE IF Len(c) = 1 THEN (IF c[1] > n THEN n ELSE c[1]) ELSE MaxSeq(c)
RECURSIVE MinProd(_, _)
MinProd(shape, spec) == IF shape = <<>> THEN 1
                        ELSE (IF IsAuto(Head(spec)) THEN 1 ELSE FixedMax(Head(spec), Head(shape)))
                             * MinProd(Tail(shape), Tail(spec))
(* C18: "automatically chosen chunks never exceed the element limit when a    *)
(*       valid chunking exists" (one exists iff the non-automatic dimensions  *)
(*       alone fit: automatic dimensions can always use chunks of one item).  *)
ValidChunkingExists(shape, spec, limit) == MinProd(shape, spec) <= limit
WithinLimit(shape, spec, limit, ch) == ValidChunkingExists(shape, spec, limit) => ProdMax(ch) <= limit

(* C18: "equal-sized chunking splits n items into m chunks whose sizes differ *)
(*       by at most one"                                                      *)
EqualSized(n, m, c) == /\ Len(c) = m /\ SumSeq(c) = n
                       /\ (m > 0 => MaxSeq(c) - MinSeq(c) <= 1)
(* chunk_size form: the number of chunks is ceil(n / size), no chunk larger than size *)
EqualSizedBySize(n, size, c) == /\ SumSeq(c) = n
                                /\ (n > 0 => /\ Len(c) = (n + size - 1) \div size
                                             /\ MaxSeq(c) - MinSeq(c) <= 1 /\ MaxSeq(c) <= size)

(* C18: "chunk ranges are contiguous and cover the dimension"                 *)
RangesCover(c, r) == /\ Len(r) = Len(c)
                     /\ (Len(c) > 0 => r[1][1] = 0 /\ r[Len(c)][2] = SumSeq(c))
                     /\ \A i \in 1..Len(c) : r[i][2] - r[i][1] = c[i]
                     /\ \A i \in 1..(Len(c) - 1) : r[i][2] = r[i + 1][1]
=============================================================================
