------------------------------ MODULE NoiseImpl ------------------------------
(* Implementation-shaped model of noise.NoiseTransform._calculate_new_array:    *)
(* every block seeds a fresh RandomState from the transform's seed and draws    *)
(* the noise of its members in order, so the stream of the member at position p *)
(* of ANY block is <<seed, p>>.  TLC compares the member -> stream function of  *)
(* every chunking with that of the single-block (eager) evaluation.             *)
EXTENDS Noise, TLC, Json
CONSTANTS MaxM, SingleBlockOnly, Emit
VARIABLES M, chunks, done
vars == <<M, chunks, done>>
RECURSIVE Compositions(_)
Compositions(n) == IF n = 0 THEN {<< >>} ELSE UNION {{<<k>> \o t : t \in Compositions(n - k)} : k \in 1..n}
Init == /\ M \in 1..MaxM /\ chunks \in (IF SingleBlockOnly THEN {<<M>>} ELSE Compositions(M)) /\ done = FALSE
Next == ~done /\ done' = TRUE /\ UNCHANGED <<M, chunks>>
Spec == Init /\ [][Next]_vars
BlockOf(ch, j) == CHOOSE b \in 1..Len(ch) : SumSeq(SubSeq(ch, 1, b - 1)) < j /\ j <= SumSeq(SubSeq(ch, 1, b))
PosInBlock(ch, j) == j - SumSeq(SubSeq(ch, 1, BlockOf(ch, j) - 1))
Streams(ch) == [j \in 1..M |-> <<"seed", PosInBlock(ch, j)>>]             \* as coded: the block index does not enter
Eager == Streams(<<M>>)
SameAsEager == ChunkingIndependent(Streams(chunks), Eager)
MembersDistinct == DistinctStreams(Streams(chunks), M)
EmitCase == (Emit /\ done) => PrintT(<<"CASE", ToJson([M |-> M, chunks |-> chunks])>>)
=============================================================================
