------------------------------- MODULE Bloch -------------------------------
(* Property-level specification for Bloch-wave structure factors and dynamical  *)
(* diffraction (properties C27 and C26).                                        *)
(*                                                                              *)
(* Lattice centering: a centred cell has the extra lattice translations         *)
(* Trans(c) (in halves of the cell vectors).  Every atom at r comes with copies *)
(* at r + t, so F(h) carries the factor  L(h) = Sum_t exp(2 pi i h.t); with t   *)
(* in halves, exp(2 pi i h.t) = (-1)^(2 h.t) and L(h) is an integer.  A         *)
(* reflection is forbidden by the centering iff L(h) = 0.                       *)
(* Structure matrix: A[i][j] = F(h_j - h_i) (off the diagonal); it is Hermitian *)
(* because F(-h) = conj F(h), hence exp(i pi lambda z A) is unitary and the     *)
(* diffracted intensities sum to one.  The lookup needs every difference of     *)
(* two selected reflections to be a tabulated reflection: allowed reflections   *)
(* are closed under differences, and the table must reach twice as far.         *)
EXTENDS Integers, Sequences, FiniteSets, TLC, Json

Tol == 50000
AllLe(s, t) == \A i \in 1..Len(s) : s[i] <= t
Centerings == {"P", "I", "F", "A", "B", "C"}
(* extra lattice translations in halves of the cell vectors *)
Trans(c) == CASE c = "P" -> {<<0, 0, 0>>}
              [] c = "I" -> {<<0, 0, 0>>, <<1, 1, 1>>}
              [] c = "F" -> {<<0, 0, 0>>, <<0, 1, 1>>, <<1, 0, 1>>, <<1, 1, 0>>}
              [] c = "A" -> {<<0, 0, 0>>, <<0, 1, 1>>}
              [] c = "B" -> {<<0, 0, 0>>, <<1, 0, 1>>}
              [] c = "C" -> {<<0, 0, 0>>, <<1, 1, 0>>}
Dot(h, t) == h[1] * t[1] + h[2] * t[2] + h[3] * t[3]
Sign(n) == IF n % 2 = 0 THEN 1 ELSE -1
RECURSIVE SumSigns(_, _)
SumSigns(h, ts) == IF ts = {} THEN 0 ELSE LET t == CHOOSE x \in ts : TRUE IN Sign(Dot(h, t)) + SumSigns(h, ts \ {t})
LatticeSum(h, c) == SumSigns(h, Trans(c))
Allowed(h, c) == LatticeSum(h, c) # 0
Minus(a, b) == <<a[1] - b[1], a[2] - b[2], a[3] - b[3]>>

(* ---- C27 events ---- *)
ReflectionFails(ev) ==
  IF ev.raised THEN {"reflection_condition_raises"}
  ELSE IF \A i \in 1..Len(ev.hkl) : ev.allowed[i] = Allowed(<<ev.hkl[i][1], ev.hkl[i][2], ev.hkl[i][3]>>, ev.centering)
       THEN {} ELSE {"reflection_condition_differs_from_the_lattice_sum"}
StructureFactorFails(ev) ==
  IF ev.raised THEN {"structure_factor_raises"}
  ELSE (IF ev.friedel_ppb <= Tol THEN {} ELSE {"F_of_minus_h_is_not_the_conjugate"})
  \* a tabulated reflection with a non-vanishing structure factor whose Friedel partner is not tabulated at all: F(-h) is absent, not conj F(h)
  \cup (IF ev.friedel_missing = 0 THEN {} ELSE {"friedel_partner_not_tabulated"})
  \cup (IF \A i \in 1..Len(ev.mag) :
             (~Allowed(<<ev.mag[i][1], ev.mag[i][2], ev.mag[i][3]>>, ev.centering)) => ev.mag[i][4] <= Tol
        THEN {} ELSE {"forbidden_reflection_has_a_structure_factor"})
  \cup (LET all == {<<ev.mag[i][1], ev.mag[i][2], ev.mag[i][3]>> : i \in 1..Len(ev.mag)}
            tab == {<<ev.tabulated[i][1], ev.tabulated[i][2], ev.tabulated[i][3]>> : i \in 1..Len(ev.tabulated)}
        IN IF tab = {h \in all : Allowed(h, ev.centering)} THEN {} ELSE {"tabulated_reflections_are_not_exactly_the_allowed_ones"})
  \* centering = "auto": whatever centering the library detects, no reflection it leaves out may carry a structure factor
  \cup (IF ev.auto_dropped_nonzero = 0 THEN {} ELSE {"reflection_left_out_as_forbidden_has_a_structure_factor"})
  \cup (IF ev.translation_ppb <= Tol THEN {} ELSE {"lattice_translation_changes_the_structure_factors"})
  \cup (IF ev.imag_ppb <= Tol THEN {} ELSE {"reconstructed_potential_is_not_real"})
  \* one period of the projected potential is the cell: grid points x sampling = cell length on both axes, on the native grid and on a grid asked for
  \cup (IF ev.period_ppb <= Tol THEN {} ELSE {"reconstructed_potential_is_not_periodic_in_the_cell"})
  \cup (IF ev.lazy_ppb <= Tol THEN {} ELSE {"lazy_and_eager_differ"})
(* ---- C26 events ---- *)
DynamicalFails(ev) ==
  IF ev.raised THEN {"dynamical_calculation_raises"}
  ELSE (IF AllLe(ev.sum_ppb, Tol) THEN {} ELSE {"intensities_do_not_sum_to_one"})
  \cup (IF ev.zero_ppb <= Tol THEN {} ELSE {"zero_thickness_is_not_the_direct_beam"})
  \cup (IF ev.hermitian_ppb <= Tol THEN {} ELSE {"structure_matrix_is_not_hermitian"})
  \cup (IF ev.lazy_ppb <= Tol THEN {} ELSE {"lazy_and_eager_differ"})
  \cup (IF ev.expm_ppb <= Tol THEN {} ELSE {"matrix_exponential_and_eigendecomposition_differ"})
Fails(ev) == CASE ev.k = "refl" -> ReflectionFails(ev) [] ev.k = "sf" -> StructureFactorFails(ev) [] ev.k = "dyn" -> DynamicalFails(ev)
               [] OTHER -> {"unknown_event"}

(* ---- scenario space ---- *)
CONSTANTS Emit
VARIABLES c, done
vars == <<c, done>>
Crystals == {"Si", "Cu", "Fe", "Po", "orthoA", "orthoB", "orthoC", "Mg", "NaCl", "CsCl"}
(* primitive crystals in which one species alone sits on a centred sub-lattice (body / base centred oxygen, a third atom on a general site) *)
SfCrystals == Crystals \cup {"mixedI", "mixedC", "Po4"}          \* Po4: cubic, a = 4 A, so that g_max x a is an integer (reflections on the cutoff sphere)
(* small_chunks: the dask chunk-size configuration is a few kB, so that any internal batching over reflections takes several rounds *)
Init == /\ \/ \E x \in SfCrystals, th \in BOOLEAN, occ \in BOOLEAN, gm \in 1..2, lz \in BOOLEAN, sc \in BOOLEAN, hc \in BOOLEAN :
                 c = [k |-> "sf", crystal |-> x, thermal |-> th, partial_occupancy |-> occ, g_max |-> gm, lazy |-> lz, small_chunks |-> sc, hard_cutoff |-> hc]
           \* order: how the requested thickness list is arranged (each row must belong to the thickness it is requested for)
           \/ \E x \in Crystals, o \in 1..4, e \in 1..2, sg \in 1..2, gm \in 1..2, weq \in BOOLEAN, ord \in {"ascending", "descending", "unsorted", "repeated"},
                 src \in {"builder", "prebuilt", "prebuilt_reordered", "builder_occupancy"} :
                 \* prebuilt: the structure factors are built once (eagerly) and the array has already been used by an earlier calculation
                 \* prebuilt_reordered: a StructureFactorArray assembled by the user, the same reflections listed in another order
                 \* builder_occupancy: partial occupancies and thermal sigmas on the builder (the lazy route has to carry them into its tasks)
                 c = [k |-> "dyn", crystal |-> x, orientation |-> o, energy |-> e, sg_max |-> sg, g_max |-> gm, use_wave_eq |-> weq, order |-> ord,
                      prebuilt |-> (src \in {"prebuilt", "prebuilt_reordered"}), source |-> src]
        /\ done = FALSE
Next == ~done /\ done' = TRUE /\ UNCHANGED c
Spec == Init /\ [][Next]_vars
EmitCase == (Emit /\ done) => PrintT(<<"CASE", ToJson(c)>>)
=============================================================================
