------------------------------ MODULE TiltModel ------------------------------
(* Implementation-shaped model of how abTEM applies beam tilt                   *)
(* (FresnelPropagator._calculate_array and the multislice loop): for every      *)
(* slice the Fresnel kernel is multiplied by one phase ramp per tilt source -   *)
(* the base tilt of the waves and every ensemble axis that carries tilts - with *)
(* slope tan(t) * dz, and the kernel gets one dimension per ensemble axis, in   *)
(* order (tilt axes with their length, other axes with length one), built by    *)
(* walking the axes in reverse and prepending.  A phase ramp of slope d is a    *)
(* shift by d, ramps multiply, so slopes add.  TLC checks, for every axis       *)
(* layout and thickness list within the bounds, that after the last slice the   *)
(* accumulated slope of every ensemble member equals Tilt!ExpectedShift of the  *)
(* sum of its tilt sources, and that the kernel dimensions line up with the     *)
(* ensemble axes.  Tangents are integers here (pixels per Angstrom).            *)
EXTENDS Integers, Sequences, FiniteSets, TLC, Rational
CONSTANTS MaxSlices, Tangents
T == INSTANCE Tilt WITH Emit <- FALSE, c <- 0, done <- FALSE

(* an axis: [kind |-> "pairs" | "x" | "y" | "other", vals |-> sequence of <<tx, ty>>] *)
AxisKinds == {"pairs", "x", "y", "other"}
TanPairs == {<<a, b>> : a \in Tangents, b \in Tangents}
AxisValues(kind) == IF kind = "pairs" THEN {<<p, q>> : p \in TanPairs, q \in TanPairs}
                    ELSE IF kind = "x" THEN {<<<<a, 0>>, <<b, 0>>>> : a \in Tangents, b \in Tangents}
                    ELSE IF kind = "y" THEN {<<<<0, a>>, <<0, b>>>> : a \in Tangents, b \in Tangents}
                    ELSE {<<<<0, 0>>, <<0, 0>>>>}
Layouts == {<<"other">>, <<"pairs", "other">>, <<"x", "y", "other">>, <<"x", "other">>, <<"pairs", "other", "other">>, <<"x", "other", "y">>}

VARIABLES axes, base, dz, k, slope, kdims
vars == <<axes, base, dz, k, slope, kdims>>
Members == [1..Len(axes) -> 1..2]                       \* every axis has two entries (length-one behaviour is the same code path)
(* the kernel of one slice: dimensions built by the reversed walk, slope contributed per member *)
RECURSIVE Walk(_, _)
Walk(i, dims) == IF i = 0 THEN dims
                 ELSE Walk(i - 1, <<(IF axes[i].kind = "other" THEN 1 ELSE Len(axes[i].vals))>> \o dims)
SliceSlope(mem, thickness) ==
  LET src == [i \in 1..Len(axes) |-> IF axes[i].kind = "other" THEN <<0, 0>> ELSE axes[i].vals[mem[i]]]
      RECURSIVE Tot(_)
      Tot(i) == IF i = 0 THEN base ELSE <<Tot(i - 1)[1] + src[i][1], Tot(i - 1)[2] + src[i][2]>>
  IN  <<Tot(Len(axes))[1] * thickness, Tot(Len(axes))[2] * thickness>>
Init == /\ \E lay \in Layouts : \E vs \in [1..Len(lay) -> UNION {AxisValues(kd) : kd \in AxisKinds}] :
             /\ \A i \in 1..Len(lay) : vs[i] \in AxisValues(lay[i])
             /\ axes = [i \in 1..Len(lay) |-> [kind |-> lay[i], vals |-> vs[i]]]
        /\ base \in TanPairs
        /\ dz \in UNION {[1..n -> 1..2] : n \in 1..MaxSlices}
        /\ k = 0
        /\ slope = [m \in Members |-> <<0, 0>>]
        /\ kdims = << >>
Step == /\ k < Len(dz)
        /\ k' = k + 1
        /\ kdims' = Walk(Len(axes), << >>)
        /\ slope' = [m \in Members |-> <<slope[m][1] + SliceSlope(m, dz[k + 1])[1], slope[m][2] + SliceSlope(m, dz[k + 1])[2]>>]
        /\ UNCHANGED <<axes, base, dz>>
Spec == Init /\ [][Step]_vars
(* the sum of the tilt sources of a member *)
MemberTan(m) == LET RECURSIVE S(_)
                    S(i) == IF i = 0 THEN base
                            ELSE LET v == IF axes[i].kind = "other" THEN <<0, 0>> ELSE axes[i].vals[m[i]] IN <<S(i - 1)[1] + v[1], S(i - 1)[2] + v[2]>>
                IN S(Len(axes))
ShiftIsThicknessTimesTangent ==
  k = Len(dz) => \A m \in Members : \A a \in 1..2 :
      RInt(slope[m][a]) = T!ExpectedShift(RInt(MemberTan(m)[a]), [i \in 1..Len(dz) |-> RInt(dz[i])])
KernelDimsFollowTheEnsembleAxes ==
  k > 0 => /\ Len(kdims) = Len(axes)
           /\ \A i \in 1..Len(axes) : kdims[i] = IF axes[i].kind = "other" THEN 1 ELSE Len(axes[i].vals)
=============================================================================
