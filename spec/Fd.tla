--------------------------------- MODULE Fd ---------------------------------
(* Property-level specification of the real-space (finite-difference)          *)
(* multislice (property C37).                                                   *)
(*                                                                              *)
(* The centred second-derivative stencil of accuracy p has 2n+1 = p+1 rational  *)
(* coefficients c_-n .. c_n, fixed by the moment conditions                     *)
(*      Sum_k c_k k^m = 0 (m = 0, 1, 3, .., 2n),   Sum_k c_k k^2 = 2.           *)
(* The discrete Laplacian on a periodic N x M grid with spacings dx, dy is the  *)
(* operator with weight c_k / dx^2 from pixel ((i+k) mod N, j) and c_k / dy^2   *)
(* from pixel (i, (j+k) mod M) onto pixel (i, j).  It is circulant, so every    *)
(* discrete plane wave exp(2 pi i (p i/N + q j/M)) is an eigenvector with       *)
(* eigenvalue Sum_k c_k (exp(2 pi i k p/N)/dx^2 + exp(2 pi i k q/M)/dy^2): the  *)
(* weights decide the eigenvalues, and TLC decides the weights exactly.         *)
EXTENDS Integers, Sequences, FiniteSets, TLC, Json, Rational

Tol == 50000
Coeffs(acc) ==
  CASE acc = 2 -> <<R(1, 1), R(-2, 1), R(1, 1)>>
    [] acc = 4 -> <<R(-1, 12), R(4, 3), R(-5, 2), R(4, 3), R(-1, 12)>>
    [] acc = 6 -> <<R(1, 90), R(-3, 20), R(3, 2), R(-49, 18), R(3, 2), R(-3, 20), R(1, 90)>>
    [] acc = 8 -> <<R(-1, 560), R(8, 315), R(-1, 5), R(8, 5), R(-205, 72), R(8, 5), R(-1, 5), R(8, 315), R(-1, 560)>>
Half(acc) == acc \div 2
C(acc, k) == Coeffs(acc)[k + Half(acc) + 1]                  \* k in -n..n
RECURSIVE Pow(_, _)
Pow(b, e) == IF e = 0 THEN 1 ELSE b * Pow(b, e - 1)
RECURSIVE RSumOver(_, _, _)
RSumOver(F(_), lo, hi) == IF lo > hi THEN RInt(0) ELSE RAdd(F(lo), RSumOver(F, lo + 1, hi))
Moment(acc, m) == LET F(k) == RMul(C(acc, k), RInt(Pow(k, m))) IN RSumOver(F, -Half(acc), Half(acc))
MomentsOK(acc) == \A m \in 0..acc : Moment(acc, m) = IF m = 2 THEN RInt(2) ELSE RInt(0)

(* weight of source pixel (x, y) on output pixel (i, j) *)
Weight(acc, n, px, py, i, j, x, y) ==
  LET Fx(k) == IF y = j /\ x = (i + k) % n[1] THEN RMul(C(acc, k), px) ELSE RInt(0)
      Fy(k) == IF x = i /\ y = (j + k) % n[2] THEN RMul(C(acc, k), py) ELSE RInt(0)
  IN  RAdd(RSumOver(Fx, -Half(acc), Half(acc)), RSumOver(Fy, -Half(acc), Half(acc)))
InvSq(d) == RDiv(RInt(1), RMul(d, d))
(* fixed point at 10^-4 *)
Fixed(r) == RFloor(RAdd(RMul(r, RInt(10000)), R(1, 2)))
AbsI(a) == IF a < 0 THEN -a ELSE a

(* ev.columns[(x, y)] = response of the real operator to the one-hot at (x, y): ev.op is a sequence of <<i, j, x, y, w>>, w fixed point; *)
(* entries not listed are zero                                                                                                       *)
StencilFails(ev) ==
  IF ev.raised THEN {"stencil_raises"}
  ELSE LET px == InvSq(ev.d[1])  py == InvSq(ev.d[2])
           listed == {<<ev.op[t][1], ev.op[t][2], ev.op[t][3], ev.op[t][4]>> : t \in 1..Len(ev.op)}
           pix == (0..(ev.n[1] - 1)) \X (0..(ev.n[2] - 1))
           want(i, j, x, y) == Fixed(Weight(ev.acc, ev.n, px, py, i, j, x, y))
       IN (IF \A t \in 1..Len(ev.op) : AbsI(ev.op[t][5] - want(ev.op[t][1], ev.op[t][2], ev.op[t][3], ev.op[t][4])) <= 2
           THEN {} ELSE {"laplacian_weight_is_not_coefficient_over_spacing_squared"})
     \cup (IF \A o \in pix : \A s \in pix : (<<o[1], o[2], s[1], s[2]>> \notin listed) => AbsI(want(o[1], o[2], s[1], s[2])) <= 2
           THEN {} ELSE {"laplacian_misses_a_periodic_neighbour"})
EigenFails(ev) ==
  IF ev.raised THEN {"stencil_raises"}
  ELSE IF ev.err_ppb <= Tol THEN {} ELSE {"plane_wave_is_not_an_eigenvector_with_the_analytic_eigenvalue"}
VacuumFails(ev) ==
  IF ev.raised THEN {"real_space_multislice_raises"}
  ELSE (IF ev.intensity_ppb <= Tol THEN {} ELSE {"vacuum_propagation_changes_the_intensity"})
  \cup (IF ev.lazy_ppb <= Tol THEN {} ELSE {"lazy_and_eager_differ"})
  \* the same (prebuilt) potential object used for a second run gives the first run's result again
  \cup (IF ev.repeat_ppb <= Tol THEN {} ELSE {"second_run_through_the_same_potential_differs"})
Fails(ev) == CASE ev.k = "stencil" -> StencilFails(ev) [] ev.k = "eigen" -> EigenFails(ev) [] ev.k = "vacuum" -> VacuumFails(ev)
               [] OTHER -> {"unknown_event"}

(* ---- scenario space ---- *)
CONSTANTS Emit
VARIABLES c, done
vars == <<c, done>>
Accuracies == {2, 4, 6, 8, 10, 12, 14, 16, 18}       \* 20 and above are computed with sympy, which this sandbox does not have
Init == /\ \/ \E a \in {2, 4, 6}, g \in 1..4, s \in 1..3 : c = [k |-> "stencil", acc |-> a, grid |-> g, spacing |-> s]
           \/ \E a \in Accuracies, g \in 1..3, s \in 1..3, p \in 0..3, q \in {0, 2, 5} : c = [k |-> "eigen", acc |-> a, grid |-> g, spacing |-> s, p |-> p, q |-> q]
           \* pot: vacuum (intensity is judged) or a prebuilt non-zero potential array (lazy == eager and a second run on the same object are judged)
           \/ \E a \in {2, 6, 8}, o \in 1..3, sc \in {"propagator", "full"}, g \in 1..2, s \in 1..2, lz \in BOOLEAN, pt \in {"vacuum", "array"} :
                 c = [k |-> "vacuum", acc |-> a, order |-> o, scope |-> sc, grid |-> g, spacing |-> s, lazy |-> lz, pot |-> pt]
        /\ done = FALSE
Next == ~done /\ done' = TRUE /\ UNCHANGED c
Spec == Init /\ [][Next]_vars
EmitCase == (Emit /\ done) => PrintT(<<"CASE", ToJson(c)>>)
TableSatisfiesTheMomentConditions == MomentsOK(2) /\ MomentsOK(4) /\ MomentsOK(6) /\ MomentsOK(8)
=============================================================================
