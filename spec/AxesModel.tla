------------------------------ MODULE AxesModel ------------------------------
(* History machine over an ordinal axis: any sequence of index expressions    *)
(* and concatenations (abtem.core.axes.OrdinalAxis.__getitem__ / concatenate  *)
(* are each one step).  TLC explores all histories within the bounds, checks  *)
(* the algebra (lengths, ranges, slice composition lemmas) and emits the      *)
(* histories for replay on the real axis classes.                             *)
EXTENDS Axes, TLC, Json

CONSTANTS N0,        \* initial number of values
          Depth, Emit

VARIABLES vals, hist
vars == <<vals, hist>>

OptInts == {<< >>} \cup {<<i>> : i \in -(N0 + 1)..(N0 + 1)}
Steps == {<< >>, <<1>>, <<2>>, <<-1>>, <<-2>>}
Other == <<101, 102>>

Init == vals = [i \in 1..N0 |-> i] /\ hist = << >>
Do(op, new) == vals' = new /\ hist' = Append(hist, [op |-> op, vals |-> new])

Slice == \E s \in OptInts, e \in OptInts, k \in Steps :
            LET op == [k |-> "slice", start |-> s, stop |-> e, step |-> k] IN Do(op, Sliced(vals, op))
IntIdx == \E i \in -Len(vals)..(Len(vals) - 1) : Len(vals) > 0 /\
            LET op == [k |-> "int", i |-> i] IN Do(op, Sliced(vals, op))
ListIdx == Len(vals) > 0 /\ \E a, b \in -Len(vals)..(Len(vals) - 1) :
            LET op == [k |-> "list", idx |-> <<a, b>>] IN Do(op, Sliced(vals, op))
MaskIdx == \E m \in [1..Len(vals) -> BOOLEAN] :
            LET op == [k |-> "mask", mask |-> m] IN Do(op, Sliced(vals, op))
Concat == Len(vals) + 2 <= N0 + 4 /\ LET op == [k |-> "concat", other |-> Other] IN Do(op, Concatenated(vals, Other))

Next == Len(hist) < Depth /\ (Slice \/ IntIdx \/ ListIdx \/ MaskIdx \/ Concat)
Spec == Init /\ [][Next]_vars

(* algebra checked on every reachable state / step *)
ValuesFromUniverse == \A i \in 1..Len(vals) : vals[i] \in (1..N0) \cup {101, 102}
SlicePositionsInRange == \A s \in OptInts, e \in OptInts, k \in Steps :
                            InRange(Len(vals), SlicePositions(Len(vals), s, e, k))
ReverseTwice == Sliced(Sliced(vals, [k |-> "slice", start |-> << >>, stop |-> << >>, step |-> <<-1>>]),
                       [k |-> "slice", start |-> << >>, stop |-> << >>, step |-> <<-1>>]) = vals
FullSliceIdentity == Sliced(vals, [k |-> "slice", start |-> << >>, stop |-> << >>, step |-> << >>]) = vals
EvenOddPartition == Len(Sliced(vals, [k |-> "slice", start |-> << >>, stop |-> << >>, step |-> <<2>>]))
                    + Len(Sliced(vals, [k |-> "slice", start |-> <<1>>, stop |-> << >>, step |-> <<2>>])) = Len(vals)

DesignView == <<vals, Len(hist)>>
AtBound == (Emit /\ Len(hist) = Depth) => PrintT(<<"BEH", ToJson(hist)>>)
=============================================================================
