SPECIFICATION Spec
CONSTANTS
  Lengths <- MC_Lengths
  SamplingSet <- MC_Samplings
  GptsSet = {1, 2, 3, 4, 5, 6}
  Emit = FALSE
INVARIANT ResolvedOK
CHECK_DEADLOCK FALSE
