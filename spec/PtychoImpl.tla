----------------------------- MODULE PtychoImpl -----------------------------
(* Implementation-shaped model of abtem/reconstruct.py (RegularizedPtychographicOperator), checked by TLC       *)
(* against the property-level operators of Ptycho.tla, and the source of the cases replayed on the real code.   *)
(*   Mode = "positions" : _calculate_scan_positions_in_pixels (explicit positions and raster scans, exact       *)
(*                        rationals, rotations with rational cosine/sine)                                       *)
(*   Mode = "window"    : _wrapped_indices_2D_window along one axis (np.round = half to even)                   *)
(*   Mode = "queue"     : _prepare_functions_queue (position-correction schedule, chunking into iterations)     *)
(*   Mode = "loop"      : the main loop of reconstruct(): shuffled order per iteration, empty patterns skipped, *)
(*                        overlap -> Fourier -> update per pattern, probe-correction schedule                   *)
(*   Mode = "cases"     : the scenario space of the numeric observations (projection / update at the truth)     *)
EXTENDS Ptycho, TLC, Json

CONSTANTS Mode, Emit, MaxJ,
          MeshgridExplicit       \* TRUE: the pinned code before the repair (explicit positions went through np.meshgrid)

VARIABLES c, at, ls, fails, order, idx, g, it
vars == <<c, at, ls, fails, order, idx, g, it>>

(* ------------------------------------------------------------------ positions *)
Lattice == {<<RInt(0), RInt(0)>>, <<RInt(1), RInt(2)>>, <<RInt(3), RInt(1)>>, <<R(3, 2), RInt(0)>>, <<RInt(1), R(5, 2)>>}
Samplings == {<<R(1, 2), R(1, 2)>>, <<R(1, 4), R(1, 2)>>}
Rotations == {"none", "zero", "quarter", "r345"}     \* cos/sin: (1,0) (1,0) (0,1) (3/5,4/5)
Cos(r) == CASE r = "quarter" -> RInt(0) [] r = "r345" -> R(3, 5) [] OTHER -> RInt(1)
Sin(r) == CASE r = "quarter" -> RInt(1) [] r = "r345" -> R(4, 5) [] OTHER -> RInt(0)
Paddings == {"default", "given"}
Rois == {<<8, 8>>, <<7, 9>>}
RMax(S) == CHOOSE a \in S : \A b \in S : RLe(b, a)
RMin(S) == CHOOSE a \in S : \A b \in S : RLe(a, b)
Ptp(s) == LET S == {s[i] : i \in 1..Len(s)} IN RSub(RMax(S), RMin(S))
Centre(s, samp) == [i \in 1..Len(s) |-> RDiv(RSub(s[i], RDiv(Ptp(s), RInt(2))), samp)]
(* x, y: sequences of the centred coordinate lists; meshgrid(indexing="ij") then ravel (row major) *)
Mesh(x, y) == [q \in 1..(Len(x) * Len(y)) |-> <<x[((q - 1) \div Len(y)) + 1], y[((q - 1) % Len(y)) + 1]>>]
Pair(x, y) == [q \in 1..Len(x) |-> <<x[q], y[q]>>]
Rotate(p, r) == IF r = "none" THEN p ELSE
  [q \in 1..Len(p) |-> <<RAdd(RMul(p[q][1], Cos(r)), RMul(p[q][2], Sin(r))), RAdd(RNeg(RMul(p[q][1], Sin(r))), RMul(p[q][2], Cos(r)))>>]
Shift(p, pad) == LET mx == RMin({p[q][1] : q \in 1..Len(p)})
                     my == RMin({p[q][2] : q \in 1..Len(p)}) IN
                 [q \in 1..Len(p) |-> <<RAdd(RSub(p[q][1], mx), pad[1]), RAdd(RSub(p[q][2], my), pad[2])>>]
Pad(kind, roi) == IF kind = "default" THEN <<R(roi[1], 2), R(roi[2], 2)>> ELSE <<RInt(3), RInt(5)>>
ImplExplicit(pin, samp, rot, padk, roi) ==
  LET x == Centre([i \in 1..Len(pin) |-> pin[i][1]], samp[1])
      y == Centre([i \in 1..Len(pin) |-> pin[i][2]], samp[2])
      grid == IF MeshgridExplicit THEN Mesh(x, y) ELSE Pair(x, y) IN
  Shift(Rotate(grid, rot), Pad(padk, roi))
ImplRaster(nx, ny, step, samp, rot, padk, roi) ==
  LET x == Centre([i \in 1..nx |-> RMul(RInt(i - 1), step[1])], samp[1])
      y == Centre([i \in 1..ny |-> RMul(RInt(i - 1), step[2])], samp[2]) IN
  Shift(Rotate(Mesh(x, y), rot), Pad(padk, roi))
Seqs(S, n) == UNION {[1..k -> S] : k \in 1..n}
PositionCases(u) ==
     \* gshape: the experimental parameters also carry a grid_scan_shape (1 x J), as they do when the patterns came as a 4-D stack
     {[explicit |-> TRUE, pin |-> s, sampling |-> sm, rot |-> r, pad |-> pk, roi |-> roi, nx |-> 0, ny |-> 0, step |-> <<RInt(1), RInt(1)>>, gshape |-> gs] :
        s \in Seqs(Lattice, MaxJ), sm \in Samplings, r \in Rotations, pk \in Paddings, roi \in {<<8, 8>>}, gs \in BOOLEAN}
  \cup {[explicit |-> FALSE, pin |-> << >>, sampling |-> sm, rot |-> r, pad |-> pk, roi |-> roi, nx |-> nx, ny |-> ny, step |-> st, gshape |-> TRUE] :
        nx \in 1..3, ny \in 1..3, st \in {<<RInt(1), RInt(2)>>, <<R(1, 2), R(1, 2)>>}, sm \in Samplings, r \in Rotations, pk \in Paddings,
        roi \in {<<8, 8>>}}
PositionEvent(cs) ==
  LET out == IF cs.explicit THEN ImplExplicit(cs.pin, cs.sampling, cs.rot, cs.pad, cs.roi)
             ELSE ImplRaster(cs.nx, cs.ny, cs.step, cs.sampling, cs.rot, cs.pad, cs.roi) IN
  [k |-> "positions", raised |-> FALSE, explicit |-> cs.explicit, pin |-> cs.pin, count |-> Len(out), sampling |-> cs.sampling,
   pout_c |-> [q \in 1..Len(out) |-> <<RFloor(RAdd(C100(out[q][1]), R(1, 2))), RFloor(RAdd(C100(out[q][2]), R(1, 2)))>>],
   rot |-> IF cs.rot \in {"none", "zero"} THEN cs.rot ELSE "other", nx |-> cs.nx, ny |-> cs.ny, step |-> cs.step]

(* ------------------------------------------------------------------ window *)
RoundHalfEven(c2) == IF c2 % 2 = 0 THEN c2 \div 2
                     ELSE LET m == (c2 - 1) \div 2 IN IF m % 2 = 0 THEN m ELSE m + 1
ImplWindow(c2, n, s) == [i \in 1..n |-> Mod(RoundHalfEven(c2) - (n \div 2) + (i - 1), s)]
WindowCases(u) == {[c2 |-> c2, n |-> n, s |-> s] : c2 \in -5..15, s \in 1..6, n \in 1..6}
WindowEvent(cs) == [k |-> "window", idx |-> ImplWindow(cs.c2, cs.n, cs.s), c2 |-> cs.c2, n |-> cs.n, s |-> cs.s]

(* ------------------------------------------------------------------ queue *)
(* entries are booleans: "this update step carries the position-correction function" *)
Rep(v, n) == [i \in 1..(IF n > 0 THEN n ELSE 0) |-> v]
ImplQueue(iters, J, prepos) ==
  LET total == iters * J
      flat == IF prepos < 0 THEN Rep(FALSE, total) ELSE Rep(FALSE, prepos) \o Rep(TRUE, total - prepos)
      starts == {x \in 0..(total - 1) : x % J = 0} IN
  [q \in 1..Cardinality(starts) |-> SubSeq(flat, (q - 1) * J + 1, IF q * J <= Len(flat) THEN q * J ELSE Len(flat))]
QueueCases(u) == {[iters |-> i, J |-> j, prepos |-> p] : i \in 1..3, j \in 1..3, p \in -1..10}
QueueOK(cs) == LET q == ImplQueue(cs.iters, cs.J, cs.prepos) IN
  /\ Len(q) = cs.iters
  /\ \A a \in 1..Len(q) : /\ Len(q[a]) = cs.J
                          /\ \A b \in 1..cs.J : q[a][b] = (cs.prepos >= 0 /\ (a - 1) * cs.J + (b - 1) >= cs.prepos)

(* ------------------------------------------------------------------ loop *)
Perms(J) == {f \in [1..J -> 0..(J - 1)] : \A a, b \in 1..J : a # b => f[a] # f[b]}
LoopCases(u) == {[J |-> j, iters |-> i, nonempty |-> ne, prepos |-> pp, preprobe |-> pb] :
                j \in 1..3, i \in 1..2, ne \in (SUBSET (0..2)), pp \in {-1, 0, 2}, pb \in {-1, 0, 3}}
Emits(ev) == /\ fails' = LoopFails(ls, ev)
             /\ ls' = NextLoop(ls, ev)
SeqOfSet(S) == CHOOSE s \in [1..Cardinality(S) -> S] : \A a, b \in 1..Cardinality(S) : a < b => s[a] < s[b]
LBegin == /\ at = "begin"
          /\ Emits([e |-> "Begin", J |-> c.J, iters |-> c.iters, nonempty |-> SeqOfSet(c.nonempty), pre_pos |-> c.prepos, pre_probe |-> c.preprobe,
                    truth |-> FALSE])
          /\ at' = "shuffle" /\ UNCHANGED <<c, order, idx, g, it>>
LShuffle == /\ at = "shuffle" /\ it < c.iters
            /\ \E p \in Perms(c.J) : order' = p
            /\ idx' = 1 /\ at' = "pattern" /\ UNCHANGED <<c, ls, fails, g, it>>
LSkip == /\ at = "pattern" /\ idx <= c.J /\ order[idx] \notin c.nonempty       \* "Skip empty diffraction patterns": continue
         /\ idx' = idx + 1 /\ UNCHANGED <<c, at, ls, fails, order, g, it>>
LOverlap == /\ at = "pattern" /\ idx <= c.J /\ order[idx] \in c.nonempty
            /\ Emits([e |-> "Overlap", j |-> order[idx]])
            /\ at' = "fourier" /\ UNCHANGED <<c, order, idx, g, it>>
LFourier == /\ at = "fourier" /\ Emits([e |-> "Fourier", j |-> order[idx]])
            /\ at' = "update" /\ UNCHANGED <<c, order, idx, g, it>>
LUpdate == /\ at = "update"
           /\ LET gi == it * c.J + (idx - 1) IN      \* global_iteration_i
              Emits([e |-> "Update", j |-> order[idx], fix_probe |-> (c.preprobe >= 0 /\ gi < c.preprobe),
                     pc |-> (c.prepos >= 0 /\ gi >= c.prepos), raised |-> FALSE, obj_ppb |-> 0, probe_ppb |-> 0, sse_ppb |-> 0, double |-> TRUE])
           /\ at' = "pattern" /\ idx' = idx + 1 /\ g' = g + 1 /\ UNCHANGED <<c, order, it>>
LIterEnd == /\ at = "pattern" /\ idx > c.J
            /\ it' = it + 1 /\ at' = "shuffle" /\ UNCHANGED <<c, ls, fails, order, idx, g>>
LEnd == /\ at = "shuffle" /\ it = c.iters
        /\ Emits([e |-> "End"]) /\ at' = "done" /\ UNCHANGED <<c, order, idx, g, it>>
LoopNext == LBegin \/ LShuffle \/ LSkip \/ LOverlap \/ LFourier \/ LUpdate \/ LIterEnd \/ LEnd

(* ------------------------------------------------------------------ numeric scenario space *)
Shapes == {<<8, 8>>, <<9, 9>>, <<8, 12>>, <<7, 10>>}
ProjCases(u) == {[k |-> "proj", variant |-> v, shape |-> s, wave |-> w, amp |-> a, double |-> d] :
                v \in {"rpie", "sim_warmup", "sim", "mixed_warmup", "mixed", "ms"}, s \in Shapes,
                w \in {"random", "real", "sparse_spectrum", "plane", "delta", "zero"}, a \in {"random", "with_zeros", "own", "constant"}, d \in BOOLEAN}
UpdateCases(u) == {[k |-> "update", shape |-> s, obj |-> <<s[1] + o[1], s[2] + o[2]>>, pos |-> p, alpha |-> al, beta |-> be, step |-> st, fix_probe |-> fp,
                 pcorr |-> pcr, double |-> d, probe |-> pr] :
                s \in Shapes, o \in {<<0, 0>>, <<5, 3>>}, p \in {"integer", "wrapping", "half", "half_b", "fractional", "fractional_y_only", "fractional_x_only"}, al \in {"zero", "small", "half", "one"},
                be \in {"zero", "half", "one"}, st \in {"one", "half"}, fp \in BOOLEAN, pcr \in BOOLEAN, d \in BOOLEAN, pr \in {"built", "random"}}
(* input: explicit positions with a flat stack, a 4-D stack with a raster built from the step sizes, or a 4-D stack WITH explicit positions *)
ReconCases(u) == {[k |-> "recon", J |-> j, iters |-> i, empty |-> e, prepos |-> pp, preprobe |-> pb, double |-> d, raster |-> (inp = "raster"),
                   stack4d |-> (inp # "explicit"), truth |-> t] :
                j \in {1, 2, 4, 6}, i \in 1..3, e \in {0, 1}, pp \in {-1, 0, 3}, pb \in {-1, 0, 2, 100}, d \in BOOLEAN,
                inp \in {"explicit", "raster", "stack_and_positions"}, t \in BOOLEAN}

(* ------------------------------------------------------------------ the five modes *)
Init == /\ at = IF Mode = "loop" THEN "begin" ELSE "case"
        /\ ls = InitLoop /\ fails = {} /\ order = << >> /\ idx = 1 /\ g = 0 /\ it = 0
        /\ c \in CASE Mode = "positions" -> PositionCases(0)
                   [] Mode = "window" -> WindowCases(0)
                   [] Mode = "queue" -> QueueCases(0)
                   [] Mode = "loop" -> {x \in LoopCases(0) : x.nonempty \subseteq 0..(x.J - 1)}
                   [] Mode = "cases" -> ProjCases(0) \cup UpdateCases(0) \cup ReconCases(0)
Next == IF Mode = "loop" THEN LoopNext ELSE (at = "case" /\ at' = "done" /\ UNCHANGED <<c, ls, fails, order, idx, g, it>>)
Spec == Init /\ [][Next]_vars

(* ------------------------------------------------------------------ what TLC checks *)
ImplPositionsSatisfyProperty == (Mode = "positions") => PositionsFails(PositionEvent(c)) = {}
ImplWindowSatisfiesProperty == (Mode = "window") => WindowFails(WindowEvent(c)) = {}
ImplQueueSchedule == (Mode = "queue") => QueueOK(c)
ImplLoopRefinesMachine == (Mode = "loop") => fails = {}
EmitCase == (Emit /\ at = "done" /\ Mode # "loop") =>
              PrintT(<<"CASE", ToJson(CASE Mode = "positions" -> [case |-> c, model |-> PositionEvent(c)]
                                        [] Mode = "window" -> [case |-> c, model |-> WindowEvent(c)]
                                        [] OTHER -> [case |-> c])>>)
=============================================================================
