------------------------------ MODULE Rebuild ------------------------------
(* How abTEM objects travel (growth; the mechanism behind C04-m5, C17-m5,    *)
(* C21-m5).  An object is a vector of constructor-visible fields.  It is      *)
(* never shipped as it is: a lazy computation rebuilds it inside every task   *)
(* from `_copy_kwargs()` (the class called with those keyword arguments, `_from_partitioned_args`), `copy`  *)
(* deep-copies it, dask pickles it (`__reduce__` / `__getstate__`).  Each     *)
(* route carries SOME of the fields; the others come back as the              *)
(* constructor's defaults.                                                    *)
(*                                                                            *)
(* TLC answers the design question for every object (all assignments of the   *)
(* fields): which carried sets make every route the identity?  Exactly the    *)
(* routes that carry every field - a field left out is harmless only while    *)
(* it sits at its default, which is why the repository's tests (default       *)
(* algorithm, unlocked grids, leading coefficients) never see it.             *)
EXTENDS Naturals, FiniteSets, TLC

CONSTANTS Fields, Values, Default,      \* Default \in Values: what the constructor gives a field that is not passed
          Carried                       \* route name -> set of fields the route carries

Routes == DOMAIN Carried
Objects == [Fields -> Values]
Travel(o, r) == [f \in Fields |-> IF f \in Carried[r] THEN o[f] ELSE Default]

VARIABLES obj, route, arrived
vars == <<obj, route, arrived>>
Init == obj \in Objects /\ route \in Routes /\ arrived = obj
Ship == arrived' = Travel(obj, route) /\ UNCHANGED <<obj, route>>
Spec == Init /\ [][Ship]_vars

(* what arrives is what was sent, for every object and every route *)
RouteIsIdentity == arrived = obj
(* the tests' blind spot: objects whose left-out fields are all at their defaults travel unharmed on any route *)
DefaultsTravel == (\A f \in Fields \ Carried[route] : obj[f] = Default) => Travel(obj, route) = obj

(* Binding (harness/vf/rebuild.py): real objects are built with a non-default value for every constructor argument the harness     *)
(* knows how to vary, sent along every route (rebuilt from _copy_kwargs, copy, deepcopy, pickle) and compared field by field;       *)
(* ev.differing = names of the fields that arrived changed -> clause growth_object_changed_on_its_way (drift, C32's evidence notes) *)
=============================================================================
