------------------------------- MODULE Abtem -------------------------------
(* Root of the specification family: one named instance per property-level    *)
(* module, so that a single SANY run checks that the whole family parses and  *)
(* that no domain silently depends on another one's definitions.  The modules *)
(* listed under 'scenario spaces' also declare the variables of their TLC      *)
(* enumeration; they are instantiated with this module's variables.            *)
(*                                                                            *)
(* domain        property        implementation-shaped model   trace spec      *)
(* Pipeline      C01             PipelineModel                 PipelineTrace  *)
(* Multislice    C02 C04 C07     MultisliceImpl                MultisliceTrace *)
(* Decomp        C03             -                             DecompTrace    *)
(* Norm          C05             -                             NormTrace      *)
(* Prism         C06             PrismImpl                     PrismTrace     *)
(* Deltas        C08             DeltasImpl                    DeltasTrace    *)
(* Slicing       C09             SlicingImpl SlicingHist       SlicingTrace   *)
(* PotentialBuild C10             PotentialBuildImpl            PotentialBuildTrace *)
(* PotentialCache C11             PotentialCacheImpl            PotentialCacheTrace *)
(* Detect        C12             DetectModel                   DetectTrace    *)
(* Polar         C13             PolarImpl MCPolar             PolarTrace     *)
(* Pattern       C14 C40         PatternModel                  PatternTrace   *)
(* Fourier       C15             FourierImpl                   FourierTrace   *)
(* Resample      C16             ResampleModel MCResample      ResampleTrace  *)
(* Grid          C17             GridImpl MCGrid               GridTrace      *)
(* Chunks        C18             ChunksImpl MCChunks           ChunksTrace    *)
(* Ensemble      C19             EnsembleModel                 EnsembleTrace  *)
(* Scan          C20             ScanImpl MCScan               ScanTrace      *)
(* Aberrations   C21             AberrationsModel MCAberrations AberrationsTrace *)
(* Conversions   C22             ConversionsImpl MCConversions ConversionsTrace *)
(* Transfer      C23             TransferModel TransferHist    TransferTrace  *)
(* Bloch         C26 C27         BlochImpl                     BlochTrace     *)
(* Ptycho        C28             PtychoImpl                    PtychoTrace    *)
(* ArrayOps      C29             ArrayOpsModel                 ArrayOpsTrace  *)
(* Store         C30             StoreModel                    StoreTrace     *)
(* Noise         C31             NoiseImpl                     NoiseTrace     *)
(* Ownership     C32             -                             OwnershipTrace *)
(* Units         C33             UnitsImpl                     UnitsTrace     *)
(* Config        C34             ConfigImpl                    ConfigTrace    *)
(* Axes          C35             AxesModel                     AxesTrace      *)
(* Distributions C36             -                             (shared)       *)
(* Fd            C37             FdImpl MCFd                   FdTrace        *)
(* Backend       C38             BackendImpl                   BackendTrace   *)
(* Tilt          C39             TiltModel MCTilt              TiltTrace      *)
EXTENDS Integers, Sequences, FiniteSets, TLC
CONSTANTS Emit
VARIABLES c, done
AberrationsSpec == INSTANCE Aberrations
ArrayOpsSpec == INSTANCE ArrayOps
AxesSpec == INSTANCE Axes
BackendSpec == INSTANCE Backend
ChunksSpec == INSTANCE Chunks
ConfigSpec == INSTANCE Config
ConversionsSpec == INSTANCE Conversions
DeltasSpec == INSTANCE Deltas
DetectSpec == INSTANCE Detect
DistributionsSpec == INSTANCE Distributions
EnsembleSpec == INSTANCE Ensemble
FourierSpec == INSTANCE Fourier
GridSpec == INSTANCE Grid
MultisliceSpec == INSTANCE Multislice
NoiseSpec == INSTANCE Noise
PatternSpec == INSTANCE Pattern
PipelineSpec == INSTANCE Pipeline
PolarSpec == INSTANCE Polar
PotentialBuildSpec == INSTANCE PotentialBuild
PotentialCacheSpec == INSTANCE PotentialCache
PtychoSpec == INSTANCE Ptycho
ScanSpec == INSTANCE Scan
SlicingSpec == INSTANCE Slicing
StoreSpec == INSTANCE Store
TransferSpec == INSTANCE Transfer
UnitsSpec == INSTANCE Units
BlochSpec == INSTANCE Bloch
DecompSpec == INSTANCE Decomp
FdSpec == INSTANCE Fd
NormSpec == INSTANCE Norm
OwnershipSpec == INSTANCE Ownership
PrismSpec == INSTANCE Prism
ResampleSpec == INSTANCE Resample
TiltSpec == INSTANCE Tilt
=============================================================================
