SPECIFICATION Spec
CONSTANTS
  Sizes = {12, 13}
  Emit = FALSE
INVARIANT Additive
INVARIANT BinsTile
CHECK_DEADLOCK FALSE
