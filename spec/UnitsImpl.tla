------------------------------ MODULE UnitsImpl ------------------------------
(* Implementation-shaped model of abtem.core.units: the factor table, the     *)
(* alias normalisation of validate_units and get_conversion_factor =          *)
(* table[new] / table[old]; LinearAxis.convert_units multiplies sampling and  *)
(* offset by that factor.  A history converts an axis along a path of units.  *)
EXTENDS Units, TLC, Json

CONSTANTS MaxLen, Emit

(* _conversion_factors: value in base unit * factor = value in unit *)
Table == [u \in AllUnits |->
   CASE u \in {"Å", "Angstrom", "1/Å", "1/Angstrom", "mrad"} -> <<0, 0>>
     [] u = "nm" -> <<-1, 0>>  [] u = "um" -> <<-4, 0>>  [] u = "mm" -> <<-7, 0>>  [] u = "m" -> <<-10, 0>>
     [] u = "1/nm" -> <<1, 0>> [] u = "1/um" -> <<4, 0>> [] u = "1/mm" -> <<7, 0>> [] u = "1/m" -> <<10, 0>>
     [] u = "rad" -> <<-3, 0>> [] u = "deg" -> <<-3, 1>>]
Factor(old, new) == Add(Table[new], Neg(Table[old]))
FImpl == [a \in AllUnits |-> [b \in AllUnits |-> Factor(a, b)]]

VARIABLES unit, scale, path      \* current unit, accumulated factor of the axis, units visited
vars == <<unit, scale, path>>
Init == unit \in AllUnits /\ scale = One /\ path = <<unit>>
Convert(b) == /\ Len(path) <= MaxLen
              /\ b \in Categories[CategoryOf(unit)]
              /\ unit' = b /\ scale' = Add(scale, Factor(unit, b)) /\ path' = Append(path, b)
Next == \E b \in AllUnits : Convert(b)
Spec == Init /\ [][Next]_vars

(* design-level claims *)
TableLawful == \A c \in CategoryNames : Lawful(FImpl, Categories[c])
(* the physical quantity is invariant: the accumulated factor depends on the end points only *)
PathIndependent == scale = Factor(path[1], unit)
RoundTrip == unit = path[1] => scale = One
EmitPath == (Emit /\ Len(path) >= 2) => PrintT(<<"PATH", ToJson(path)>>)
=============================================================================
