----------------------------- MODULE PtychoTrace -----------------------------
(* Trace specification for C28: observations of the real ptychographic         *)
(* operators (abtem/reconstruct.py).  One trace is either a single observation *)
(* (projection, update at the truth, position conversion, window indices) or   *)
(* the recorded step sequence of one real reconstruct() run, which must be a   *)
(* behaviour of the loop machine of Ptycho.tla.                                *)
EXTENDS Ptycho, Json, IOUtils, TLC
Traces == JsonDeserialize(IOEnv.TRACE_FILE)
VARIABLES tid, l, ls, bad
tvars == <<tid, l, ls, bad>>
EvFails(s, ev) == CASE ev.k = "proj" -> ProjFails(ev)
                    [] ev.k = "update" -> UpdateFails(ev)
                    [] ev.k = "positions" -> PositionsFails(ev)
                    [] ev.k = "window" -> WindowFails(ev)
                    [] ev.k = "loop" -> LoopFails(s, ev)
                    [] OTHER -> {"unknown_event"}
TInit == tid \in 1..Len(Traces) /\ l = 1 /\ ls = InitLoop /\ bad = << >>
TNext == /\ l <= Len(Traces[tid])
         /\ LET ev == Traces[tid][l]
                f == EvFails(ls, ev) IN
              /\ bad' = IF f = {} THEN bad ELSE Append(bad, <<l, f>>)
              /\ ls' = IF ev.k = "loop" THEN NextLoop(ls, ev) ELSE ls
         /\ l' = l + 1 /\ UNCHANGED tid
TSpec == TInit /\ [][TNext]_tvars
Verdict == (l > Len(Traces[tid])) => PrintT(<<"V", tid, IF ls.open THEN Append(bad, <<l, {"growth_run_not_ended"}>>) ELSE bad>>)
=============================================================================
