SPECIFICATION Spec
CONSTANTS
  Mags <- MC_Mags
  Emit = FALSE
INVARIANT ExactDivision
INVARIANT ClassPreserved
CHECK_DEADLOCK FALSE
