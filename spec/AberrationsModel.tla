-------------------------- MODULE AberrationsModel --------------------------
(* History machine over one Aberrations-like object: coefficients are set by  *)
(* attribute assignment or through set_aberrations (symbols, aliases,         *)
(* defocus), read back, and the transfer function is evaluated at any point.  *)
(* Evaluation must depend on the current coefficients only (no history).      *)
EXTENDS Aberrations, TLC, Json
CONSTANTS Depth, Emit, Focus       \* Focus: the names explored in this run
VARIABLES coeff, hist
vars == <<coeff, hist>>
Vals == {1, -2}
Init == coeff = Zero /\ hist = << >>
Set(name, v, how) == /\ coeff' = AfterSet(coeff, name, v)
                     /\ hist' = Append(hist, [a |-> "set", name |-> name, v |-> v, how |-> how])
Get(name) == UNCHANGED coeff /\ hist' = Append(hist, [a |-> "get", name |-> name, v |-> 0, how |-> "attr"])
Eval == UNCHANGED coeff /\ hist' = Append(hist, [a |-> "eval", name |-> "", v |-> 0, how |-> ""])
Next == /\ Len(hist) < Depth
        /\ \/ \E n \in Focus, v \in Vals, h \in {"attr", "dict"} : Set(n, v, h)
           \/ \E n \in Focus : Get(n)
           \/ Eval
Spec == Init /\ [][Next]_vars
(* alias and symbol are the same cell; defocus mirrors C10 *)
AliasSameCell == \A n \in AliasNames : n # "defocus" => Read(coeff, n) = Read(coeff, Aliases[n])
DefocusMirrorsC10 == Read(coeff, "defocus") = -Read(coeff, "C10")
EveryNameKnown == \A n \in Names : Canon(n) \in Symbols
AnglesHaveMagnitudes == \A s \in DOMAIN AngleOf : Magnitudes[s][2] > 0
DesignView == <<coeff, Len(hist)>>
AtBound == (Emit /\ Len(hist) = Depth) => PrintT(<<"BEH", ToJson(hist)>>)
Table == PrintT(<<"TABLE", ToJson([mag |-> [s \in MagSyms |-> Magnitudes[s]], angle |-> AngleOf, alias |-> Aliases])>>)
=============================================================================
