SPECIFICATION Spec
CONSTANTS
  Depth = 2
  MaxSteps = 4
  MaxKV = 2
  Emit = FALSE
INVARIANT WellFormed
PROPERTY Restored
PROPERTY FailLeavesNoTrace
VIEW DesignView
CHECK_DEADLOCK FALSE
