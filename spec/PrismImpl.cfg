SPECIFICATION Spec
CONSTANTS
  MaxN = 5
  Reduced = TRUE
INVARIANT WindowsArePeriodicWindows
CHECK_DEADLOCK FALSE
