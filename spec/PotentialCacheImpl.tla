-------------------------- MODULE PotentialCacheImpl --------------------------
(* Implementation-shaped model of a Potential with its projection integrator:  *)
(* the per-element caches (projected scattering factors for infinite           *)
(* projection, integral tables for finite projection) remember the grid they   *)
(* were computed for and are recomputed when the grid differs.  History        *)
(* machine over Build / SetGpts / SetSampling.  (KeyedByGrid = FALSE           *)
(* reproduces the cache keyed by element only.)                                *)
EXTENDS PotentialCache, TLC, Json
CONSTANTS Grids, Depth, Emit, KeyedByGrid
VARIABLES grid, cache, last, hist
vars == <<grid, cache, last, hist>>
NoEntry == 0
Init == grid \in Grids /\ cache = NoEntry /\ last = << >> /\ hist = <<[a |-> "init", g |-> grid]>>
Build == /\ LET hit == cache # NoEntry /\ (~KeyedByGrid \/ cache = grid)
                used == IF hit THEN cache ELSE grid IN
              /\ cache' = used
              /\ last' = <<"pot", used>>
         /\ hist' = Append(hist, [a |-> "build", g |-> grid]) /\ UNCHANGED grid
SetGrid(g, how) == /\ g # grid /\ grid' = g /\ hist' = Append(hist, [a |-> how, g |-> g]) /\ UNCHANGED <<cache, last>>
Next == /\ Len(hist) <= Depth
        /\ \/ Build
           \/ \E g \in Grids : SetGrid(g, "set_gpts") \/ SetGrid(g, "set_sampling")
Spec == Init /\ [][Next]_vars
(* the design-level claim: every build equals the fresh potential at the current grid *)
BuildsFresh == [][(last' # last \/ hist'[Len(hist')].a = "build") => BuildOK(last', grid')]_vars
DesignView == <<grid, cache, last, Len(hist)>>
AtBound == (Emit /\ Len(hist) = Depth + 1) => PrintT(<<"BEH", ToJson(hist)>>)
=============================================================================
