SPECIFICATION Spec
CONSTANTS
  Blocks = 1
  Workers = 1
  Emit = TRUE
  Mode = "scenarios"
INVARIANT EmitCase
CHECK_DEADLOCK FALSE
