----------------------------- MODULE ConfigTrace -----------------------------
(* Trace specification for C34.  Each line of a trace is one event observed on *)
(* the real abtem.config (Init / Enter / EnterFails / Exit / ExitExc) with the *)
(* complete configuration after the event, flattened to a sorted sequence of   *)
(* <<path, value id>> pairs (value ids are interned by the harness: equal ids  *)
(* iff deep-equal values of the same type).                                    *)
EXTENDS Config, Json, IOUtils, TLC

Traces == JsonDeserialize(IOEnv.TRACE_FILE)
VARIABLES tid, l, cfg, stack, bad
tvars == <<tid, l, cfg, stack, bad>>

TInit == /\ tid \in 1..Len(Traces) /\ l = 2 /\ cfg = Traces[tid][1].cfg /\ stack = <<>> /\ bad = <<>>

TNext == /\ l <= Len(Traces[tid])
         /\ LET ev == Traces[tid][l] IN
            /\ cfg' = ev.cfg
            /\ IF ev.a = "Enter" THEN EnterStep(stack, cfg, stack') /\ bad' = bad
               ELSE IF ev.a = "EnterFails" THEN EnterFailsStep(stack, stack') /\ bad' = bad
               ELSE IF ev.a \in {"Exit", "ExitExc"} THEN
                    IF stack = <<>> THEN stack' = stack /\ bad' = Append(bad, <<l, {"exit_without_enter"}>>)
                    ELSE /\ stack' = Front(stack)
                         /\ bad' = IF ExitStep(stack, ev.cfg, stack') THEN bad
                                   ELSE Append(bad, <<l, {IF ev.a = "Exit" THEN "not_restored" ELSE "not_restored_after_exception"}>>)
               ELSE stack' = stack /\ bad' = Append(bad, <<l, {"unknown_event"}>>)
         /\ l' = l + 1 /\ UNCHANGED tid
TSpec == TInit /\ [][TNext]_tvars
(* a complete trace has left every context it entered *)
Verdict == (l > Len(Traces[tid])) =>
             PrintT(<<"V", tid, IF stack = <<>> THEN bad ELSE Append(bad, <<l, {"trace_incomplete"}>>)>>)
=============================================================================
