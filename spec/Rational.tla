------------------------------ MODULE Rational ------------------------------
(* Exact rational arithmetic for TLC: a rational is <<num, den>> with den > 0, *)
(* gcd-normalised.  "None" (an undefined optional quantity) is the empty       *)
(* tuple << >>, which TLC can compare with a pair without a type error.        *)
EXTENDS Integers, Sequences

None == << >>
IsNone(x) == x = << >>

RECURSIVE GCD(_, _)
GCD(a, b) == IF b = 0 THEN a ELSE GCD(b, a % b)
Abs(a) == IF a < 0 THEN -a ELSE a

Norm(n, d) == LET g == GCD(Abs(n), Abs(d))
                  s == IF d < 0 THEN -1 ELSE 1
              IN  IF g = 0 THEN <<0, 1>> ELSE <<s * (n \div g), s * (d \div g)>>

R(n, d)   == Norm(n, d)
RInt(n)   == <<n, 1>>
RAdd(a, b) == Norm(a[1] * b[2] + b[1] * a[2], a[2] * b[2])
RSub(a, b) == Norm(a[1] * b[2] - b[1] * a[2], a[2] * b[2])
RMul(a, b) == Norm(a[1] * b[1], a[2] * b[2])
RDiv(a, b) == Norm(a[1] * b[2], a[2] * b[1])         \* b # 0
RNeg(a)    == <<-a[1], a[2]>>
RLt(a, b)  == a[1] * b[2] < b[1] * a[2]
RLe(a, b)  == a[1] * b[2] <= b[1] * a[2]
REq(a, b)  == a[1] * b[2] = b[1] * a[2]
RIsZero(a) == a[1] = 0
RFloor(a)  == a[1] \div a[2]                          \* TLC's \div floors for positive divisor
RCeil(a)   == -((-a[1]) \div a[2])
RIsInt(a)  == a[1] % a[2] = 0
RAbs(a)    == <<Abs(a[1]), a[2]>>
(* |a - b| <= tol * max(1, |b|), tol rational *)
RClose(a, b, tol) == LET d == RAbs(RSub(a, b))
                         m == IF RLt(RInt(1), RAbs(b)) THEN RAbs(b) ELSE RInt(1)
                     IN  RLe(d, RMul(tol, m))
=============================================================================
