-------------------------- MODULE AberrationsTrace --------------------------
EXTENDS Aberrations, Json, IOUtils, TLC
Traces == JsonDeserialize(IOEnv.TRACE_FILE)
VARIABLES tid, l, coeff, bad
tvars == <<tid, l, coeff, bad>>
TInit == tid \in 1..Len(Traces) /\ l = 1 /\ coeff = Zero /\ bad = << >>
TNext == /\ l <= Len(Traces[tid])
         /\ LET ev == Traces[tid][l] f == EventFails(coeff, ev) IN
              /\ bad' = IF f = {} THEN bad ELSE Append(bad, <<l, f>>)
              /\ coeff' = NextCoeff(coeff, ev)
         /\ l' = l + 1 /\ UNCHANGED tid
TSpec == TInit /\ [][TNext]_tvars
Verdict == (l > Len(Traces[tid])) => PrintT(<<"V", tid, bad>>)
=============================================================================
