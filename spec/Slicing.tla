------------------------------- MODULE Slicing -------------------------------
(* Property-level specification of slice assignment and potential additivity   *)
(* (property C09).  Heights are integers in units of a quarter of the length   *)
(* unit; a slicing is a sequence of positive thicknesses (same units).         *)
(* C09: "Every atom is assigned to exactly one slice, an atom lying on a slice *)
(* boundary belongs to the upper slice, and the slice thicknesses sum to the   *)
(* cell height."                                                               *)
EXTENDS Integers, Sequences, FiniteSets

RECURSIVE SumSeq(_)
SumSeq(s) == IF s = << >> THEN 0 ELSE Head(s) + SumSeq(Tail(s))
Edge(th, k) == SumSeq(SubSeq(th, 1, k))                 \* upper boundary of slice k (1-based), Edge(th, 0) = 0
(* the slice (1-based) whose half-open range [lower, upper) contains z *)
SliceOf(th, z) == CHOOSE k \in 1..Len(th) : Edge(th, k - 1) <= z /\ z < Edge(th, k)

SliceBelow(th, z) == CHOOSE k \in 1..Len(th) : Edge(th, k - 1) < z /\ z <= Edge(th, k)

(* observed assignment: asg[a] = set of slices (1-based) in which atom a was found *)
AssignmentFails(ev) ==
  IF ev.raised THEN {"raised"}
  ELSE (IF SumSeq(ev.th) = ev.height THEN {} ELSE {"thicknesses_do_not_sum_to_height"})
  \cup (IF \A a \in 1..Len(ev.z) : Len(ev.found[a]) = 1 THEN {} ELSE {"atom_not_in_exactly_one_slice"})
  \cup (IF \A a \in 1..Len(ev.z) : Len(ev.found[a]) # 1 \/ ev.found[a][1] = SliceOf(ev.th, ev.z[a]) THEN {} ELSE {"atom_in_wrong_slice_or_boundary_not_upper"})
  \cup (IF ev.reported_ok THEN {} ELSE {"reported_slice_thickness"})
  \* atoms a hair (1e-9 length units: far above the 1e-12 nudge of the bin edges, far below anything physical) BELOW the lattice
  \* height near_z[a] - below a slice boundary, below the top face (also given as z = -1e-9, which wraps there), and beside a lateral
  \* face of the cell: each in exactly one slice, the one whose interval ends at or above that height
  \cup (IF \A a \in 1..Len(ev.near_z) : Len(ev.near_found[a]) = 1 /\ ev.near_found[a][1] = SliceBelow(ev.th, ev.near_z[a])
        THEN {} ELSE {"atom_just_below_a_boundary_or_face_not_in_its_slice"})
Tol == 20000
NumericFails(ev) ==
  IF ev.raised THEN {"raised"}
  ELSE (IF ev.k # "additive" \/ ev.err_ppb <= Tol THEN {} ELSE {"potential_of_union_is_not_the_sum"})
  \cup (IF ev.k # "reslice" \/ ev.err_ppb <= Tol THEN {} ELSE {"projected_potential_depends_on_slicing"})
=============================================================================
