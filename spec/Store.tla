-------------------------------- MODULE Store --------------------------------
(* Property-level specification of saving and loading array objects (C30).    *)
(* C30: "Writing any array object to zarr and reading it back yields an       *)
(* object of the same type with identical array values, dtype, axes metadata  *)
(* and metadata".                                                             *)
(* A metadata value is a tree of tagged nodes:                                *)
(*   <<"num", id>>  <<"npnum", id>>  <<"str", id>>  <<"bool", b>>  <<"none">> *)
(*   <<"tuple", children>>  <<"list", children>>  <<"ndarray", children>>     *)
(*   <<"dict", <<key, child>> ...>>   (keys sorted)                           *)
(* "Identical" is read by value (DESIGN 2.5): a NumPy scalar may come back as *)
(* the equal Python scalar and an ndarray as the equal list, but a tuple must *)
(* stay a tuple and a list a list.                                            *)
EXTENDS Sequences, Naturals, FiniteSets

Tag(v) == v[1]
RECURSIVE Canon(_)
Canon(v) ==
  CASE Tag(v) \in {"num", "npnum"} -> <<"num", v[2]>>
    [] Tag(v) \in {"str", "bool"} -> v
    [] Tag(v) = "none" -> v
    [] Tag(v) = "tuple" -> <<"tuple", [i \in 1..Len(v[2]) |-> Canon(v[2][i])]>>
    [] Tag(v) \in {"list", "ndarray"} -> <<"list", [i \in 1..Len(v[2]) |-> Canon(v[2][i])]>>
    [] Tag(v) = "dict" -> <<"dict", [i \in 1..Len(v[2]) |-> <<v[2][i][1], Canon(v[2][i][2])>>]>>
SameValue(a, b) == Canon(a) = Canon(b)

(* the observable projection of an array object before / after the round trip *)
RoundTripFails(ev) ==
  IF ev.raised THEN {"raised"}
  ELSE (IF ev.before.type = ev.after.type THEN {} ELSE {"type"})
  \cup (IF ev.before.dtype = ev.after.dtype THEN {} ELSE {"dtype"})
  \cup (IF ev.before.shape = ev.after.shape /\ ev.array_equal THEN {} ELSE {"array_values"})
  \* what was loaded, written back to the same store with overwrite and loaded again
  \cup (IF ev.resaved_equal THEN {} ELSE {"loaded_object_saved_over_its_own_store"})
  \cup (IF Len(ev.before.axes) = Len(ev.after.axes)
           /\ \A i \in 1..Len(ev.before.axes) : SameValue(ev.before.axes[i], ev.after.axes[i]) THEN {} ELSE {"axes_metadata"})
  \cup (IF SameValue(ev.before.metadata, ev.after.metadata) THEN {} ELSE {"metadata"})
=============================================================================
