----------------------------- MODULE ChunksImpl -----------------------------
(* Implementation-shaped model of abtem.core.chunks: validate_chunks,          *)
(* fill_in_chunk_sizes, the round-robin growth loop of _auto_chunks (one loop  *)
(* iteration = one step), equal_sized_chunks, chunk_ranges.                    *)
EXTENDS Chunks, TLC, Json

CONSTANTS MaxDim,      \* shapes range over (1..MaxDim)^d
          Ranks,       \* set of ranks d
          Limits,      \* set of element limits
          MaxItems,    \* equal_sized_chunks(n <= MaxItems, m)
          Emit

VARIABLES call,        \* the call being executed: record
          pc, cur, j, res, raised
vars == <<call, pc, cur, j, res, raised>>

Rep(x, k) == [i \in 1..k |-> x]
(* fill_in_chunk_sizes for one dimension *)
Fill(s, c) == IF c = <<-1>> THEN <<s>>
              ELSE IF Len(c) > 1 THEN c
              ELSE IF s % c[1] = 0 THEN Rep(c[1], s \div c[1])
                   ELSE Append(Rep(c[1], s \div c[1]), s % c[1])
FillAll(shape, spec) == [d \in 1..Len(shape) |-> Fill(shape[d], spec[d])]

DimSpecs(n) == {<<0>>, <<-1>>} \cup {<<c>> : c \in 1..(n + 1)}
               \cup {<<a, n - a>> : a \in 1..(n - 1)}              \* explicit two-chunk tuples
               \cup (IF n >= 2 THEN {<<1, n>>} ELSE {})            \* an explicit tuple that does NOT match the shape

Shapes(d) == [1..d -> 1..MaxDim]
RECURSIVE SpecsFor(_)
SpecsFor(shape) == IF shape = <<>> THEN {<<>>}
                   ELSE {<<c>> \o t : c \in DimSpecs(Head(shape)), t \in SpecsFor(Tail(shape))}

AutoDims(spec) == {d \in 1..Len(spec) : IsAuto(spec[d])}
RECURSIVE SortedSeq(_)
SortedSeq(S) == IF S = {} THEN <<>> ELSE LET m == CHOOSE x \in S : \A y \in S : x <= y IN <<m>> \o SortedSeq(S \ {m})
RECURSIVE Prod(_)
Prod(s) == IF s = <<>> THEN 1 ELSE Head(s) * Prod(Tail(s))

Init == /\ \/ \E d \in Ranks : \E shape \in Shapes(d) : \E spec \in SpecsFor(shape) : \E lim \in Limits :
                 call = [f |-> "validate", shape |-> shape, spec |-> spec, limit |-> lim]
           \/ \E n \in 0..MaxItems : \E m \in 1..(MaxItems + 1) :
                 call = [f |-> "equal", shape |-> <<n>>, spec |-> <<>>, limit |-> m]
           \/ \E n \in 0..MaxItems : \E m \in 1..(MaxItems + 1) :
                 call = [f |-> "equal_size", shape |-> <<n>>, spec |-> <<>>, limit |-> m]
        /\ pc = "start" /\ cur = <<>> /\ j = 0 /\ res = <<>> /\ raised = FALSE

(* validate_chunks: dispatch *)
Start == /\ pc = "start"
         /\ IF call.f = "validate"
            THEN IF AutoDims(call.spec) # {}
                 THEN (* _auto_chunks: current_chunks / max_chunks initialisation *)
                      /\ cur' = [d \in 1..Len(call.shape) |->
                                   IF IsAuto(call.spec[d]) THEN 1
                                   ELSE IF call.spec[d] = <<-1>> THEN call.shape[d]
                                   ELSE MaxSeq(call.spec[d])]
                      /\ pc' = "loop" /\ j' = 0 /\ UNCHANGED <<res, raised>>
                 ELSE /\ pc' = "check" /\ res' = FillAll(call.shape, call.spec) /\ UNCHANGED <<cur, j, raised>>
            ELSE IF call.f = "equal"
            THEN LET n == call.shape[1] m == call.limit IN
                 /\ pc' = "done" /\ UNCHANGED <<cur, j>>
                 /\ IF n = 0 THEN res' = <<>> /\ raised' = FALSE
                    ELSE IF n < m THEN res' = <<>> /\ raised' = TRUE
                    ELSE IF n % m = 0 THEN res' = Rep(n \div m, m) /\ raised' = FALSE
                    ELSE LET zp == m - (n % m) pp == n \div m
                         IN res' = [i \in 1..m |-> IF i - 1 >= zp THEN pp + 1 ELSE pp] /\ raised' = FALSE
            ELSE LET n == call.shape[1] size == call.limit m == (n + ((-n) % size)) \div size IN
                 /\ pc' = "done" /\ UNCHANGED <<cur, j>>
                 /\ IF n = 0 THEN res' = <<>> /\ raised' = FALSE
                    ELSE IF n % m = 0 THEN res' = Rep(n \div m, m) /\ raised' = FALSE
                    ELSE LET zp == m - (n % m) pp == n \div m
                         IN res' = [i \in 1..m |-> IF i - 1 >= zp THEN pp + 1 ELSE pp] /\ raised' = FALSE
         /\ UNCHANGED call

MaxChunks == [d \in 1..Len(call.shape) |-> IF IsAuto(call.spec[d]) THEN call.shape[d] ELSE cur[d]]
Finish(c) == (* chunks = auto dims replaced; validate_chunks(shape, chunks) again *)
   /\ res' = FillAll(call.shape, [d \in 1..Len(call.shape) |-> IF IsAuto(call.spec[d]) THEN <<c[d]>> ELSE call.spec[d]])
   /\ pc' = "check"

(* one iteration of the while loop in _auto_chunks *)
Loop == /\ pc = "loop"
        /\ LET ad == SortedSeq(AutoDims(call.spec))
               jj == j % Len(ad)
               d  == ad[jj + 1]
               inc == [cur EXCEPT ![d] = IF cur[d] + 1 < call.shape[d] THEN cur[d] + 1 ELSE call.shape[d]]
           IN IF Prod(inc) > call.limit
              THEN LET dec == [inc EXCEPT ![d] = inc[d] - 1] IN
                   IF dec[d] = 0 THEN /\ raised' = TRUE /\ pc' = "done" /\ UNCHANGED <<cur, j, res>>
                   ELSE /\ cur' = dec /\ Finish(dec) /\ UNCHANGED <<j, raised>>
              ELSE IF inc = MaxChunks THEN /\ cur' = inc /\ Finish(inc) /\ UNCHANGED <<j, raised>>
              ELSE /\ cur' = inc /\ j' = jj + 1 /\ UNCHANGED <<pc, res, raised>>
        /\ UNCHANGED call

(* assert_chunks_match_shape *)
Check == /\ pc = "check"
         /\ IF \A d \in 1..Len(call.shape) : SumSeq(res[d]) = call.shape[d]
            THEN raised' = FALSE ELSE raised' = TRUE
         /\ pc' = "done" /\ UNCHANGED <<call, cur, j, res>>

Next == Start \/ Loop \/ Check
Spec == Init /\ [][Next]_vars

Ranges(c) == [i \in 1..Len(c) |-> <<SumSeq(SubSeq(c, 1, i)) - c[i], SumSeq(SubSeq(c, 1, i))>>]

(* ---- design-level claims (C18) ---- *)
ValidateOK == (pc = "done" /\ call.f = "validate" /\ ~raised) =>
                 /\ Partitions(call.shape, res)
                 /\ WithinLimit(call.shape, call.spec, call.limit, res)
                 /\ \A d \in 1..Len(res) : RangesCover(res[d], Ranges(res[d]))
EqualOK == (pc = "done" /\ call.f = "equal" /\ ~raised) => EqualSized(call.shape[1], IF call.shape[1] = 0 THEN 0 ELSE call.limit, res)
EqualSizeOK == (pc = "done" /\ call.f = "equal_size" /\ ~raised) => EqualSizedBySize(call.shape[1], call.limit, res)
(* the growth loop terminates: j stays below the number of loop iterations possible *)
Terminates == pc = "loop" => Prod(cur) <= call.limit \/ j = 0

EmitCalls == (Emit /\ pc = "done") => PrintT(<<"CALL", ToJson([call |-> call, res |-> res, raised |-> raised])>>)
=============================================================================
