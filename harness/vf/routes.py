"""Object routes: an abTEM object that reaches a computation through a copy is the same input.

reroute(obj, k) returns the object itself (k % 4 == 0), obj.copy(), copy.deepcopy(obj) or a pickle round trip (what dask does when it
ships a task to a worker).  A route the object does not offer (no copy method, not picklable on the pinned tree) falls back to the
object itself and is reported in the returned name, so a case is never judged on a route that does not exist.
"""
from __future__ import annotations

import copy
import pickle

ROUTES = ("direct", "copy", "deepcopy", "pickle")


def reroute(obj, k):
    name = ROUTES[k % 4]
    try:
        if name == "copy" and hasattr(obj, "copy"):
            return obj.copy(), name
        if name == "deepcopy":
            return copy.deepcopy(obj), name
        if name == "pickle":
            return pickle.loads(pickle.dumps(obj)), name
    except Exception as ex:                     # route not offered by this object
        return obj, f"direct ({name} not offered: {type(ex).__name__})"
    return obj, "direct"
