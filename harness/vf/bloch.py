"""Shared harness for the Bloch-wave domain (C26, C27): crystals, events, judging against BlochTrace."""
from __future__ import annotations

import json
import warnings

import numpy as np

from .core import Ctx, Machinery
from .rat import ppb
from .ms import relerr

G_MAX = {1: 2.5, 2: 3.5}
ENERGIES = {1: 100e3, 2: 200e3}
SG_MAX = {1: 0.04, 2: 0.08}
IMPL_CFG = """SPECIFICATION Spec
CONSTANTS
  N = {n}
  Broken = FALSE
INVARIANT ConditionIsTheLatticeSum
INVARIANT AllowedClosedUnderDifferences
INVARIANT DifferencesInsideTheDoubleTable
INVARIANT RavelInjective
CHECK_DEADLOCK FALSE
"""


def crystal(name):
    """(atoms, centering of the conventional cell)"""
    from ase import Atoms
    from ase.build import bulk
    if name == "Si":
        return bulk("Si", cubic=True), "F"
    if name == "Cu":
        return bulk("Cu", cubic=True), "F"
    if name == "Fe":
        return bulk("Fe", cubic=True), "I"
    if name == "Po":
        return Atoms("Po", positions=[(0, 0, 0)], cell=(3.35, 3.35, 3.35), pbc=True), "P"
    if name == "orthoA":
        return Atoms("Au2", scaled_positions=[(0.1, 0.2, 0.05), (0.1, 0.7, 0.55)], cell=(3.0, 4.0, 5.0), pbc=True), "A"
    if name == "orthoB":
        return Atoms("Au2", scaled_positions=[(0.1, 0.2, 0.05), (0.6, 0.2, 0.55)], cell=(3.0, 4.0, 5.0), pbc=True), "B"
    if name == "orthoC":
        return Atoms("AuCuAuCu", scaled_positions=[(0.1, 0.2, 0.05), (0.3, 0.1, 0.4), (0.6, 0.7, 0.05), (0.8, 0.6, 0.4)], cell=(3.0, 4.0, 5.0), pbc=True), "C"
    if name == "Mg":
        return bulk("Mg", orthorhombic=True), "C"          # hcp in its orthohexagonal (C-centred) cell
    if name == "NaCl":
        return bulk("NaCl", "rocksalt", a=5.64, cubic=True), "F"
    if name == "Po4":
        return Atoms("Po", positions=[(0, 0, 0)], cell=(4.0, 4.0, 4.0), pbc=True), "P"
    if name == "mixedI":
        return Atoms("O2Ti", scaled_positions=[(0, 0, 0), (0.5, 0.5, 0.5), (0.21, 0.33, 0.12)], cell=(4.0, 4.0, 4.0), pbc=True), "P"
    if name == "mixedC":
        return Atoms("O2Ti", scaled_positions=[(0.1, 0.1, 0.3), (0.6, 0.6, 0.3), (0.27, 0.4, 0.77)], cell=(3.0, 4.0, 5.0), pbc=True), "P"
    if name == "CsCl":
        return bulk("CsCl", "cesiumchloride", a=4.12, cubic=True), "P"
    raise Machinery(name)


def orientation(o):
    from scipy.spatial.transform import Rotation
    if o == 1:
        return None
    ang = {2: ("xy", [0.02, 0.013]), 3: ("yx", [-0.035, 0.004]), 4: ("xyz", [0.01, -0.02, 0.4])}[o]
    return Rotation.from_euler(ang[0], ang[1]).as_matrix()


def reflection_event(centering, m=3):
    from abtem.bloch.utils import get_reflection_condition
    hkl = np.array([[h, k, l] for h in range(-m, m + 1) for k in range(-m, m + 1) for l in range(-m, m + 1)])
    ev = {"k": "refl", "centering": centering, "hkl": hkl.tolist(), "allowed": [], "raised": False}
    try:
        ev["allowed"] = [bool(x) for x in get_reflection_condition(hkl, centering)]
    except Exception as ex:
        ev["raised"] = True
        ev["exc"] = f"{type(ex).__name__}: {ex}"[:200]
    return ev


def sf_event(c):
    import abtem
    if c.get("small_chunks"):
        with abtem.config.set({"dask.chunk-size": "6 kB"}):
            return _sf_event(c)
    return _sf_event(c)


def _sf_event(c):
    from abtem.bloch import StructureFactor
    atoms, cen = crystal(c["crystal"])
    g_max = G_MAX[c["g_max"]]
    kw = {}
    symbols = sorted(set(atoms.get_chemical_symbols()))
    if c["thermal"]:
        kw["thermal_sigma"] = {s: 0.06 + 0.03 * i for i, s in enumerate(symbols)}
    if c["partial_occupancy"]:
        kw["occupancy"] = {s: 0.7 + 0.2 * i for i, s in enumerate(symbols)}
    if c.get("hard_cutoff"):
        kw["cutoff"] = "hard"
    ev = {"k": "sf", "case": c, "centering": cen, "raised": False, "friedel_ppb": 0, "mag": [], "tabulated": [], "translation_ppb": 0, "imag_ppb": 0, "period_ppb": 0, "lazy_ppb": 0,
          "auto_dropped_nonzero": 0, "friedel_missing": 0}
    with warnings.catch_warnings():
        warnings.simplefilter("ignore")
        try:
            def table(a, centering):
                sf = StructureFactor(a, g_max=g_max, centering=centering, **kw)
                arr = sf.build(lazy=False)
                first = (np.asarray(arr.hkl).copy(), np.asarray(arr.array).copy())
                arr2 = sf.build(lazy=False)                    # the same builder object asked a second time
                if np.asarray(arr2.array).shape != first[1].shape or not np.array_equal(np.asarray(arr2.array), first[1]) \
                        or not np.array_equal(np.asarray(arr.array), first[1]):
                    ev["translation_ppb"] = max(ev["translation_ppb"], 2_000_000_000)     # reported with the "same crystal, same table" clause
                    ev["second_build_differs"] = True
                return sf, first[0], first[1]
            # all reflections (centering "P" switches the filter off) to see what the forbidden ones hold
            sfP, hkl, F = table(atoms, "P")
            scale = float(np.abs(F).max())
            key = {tuple(int(v) for v in h): i for i, h in enumerate(hkl)}
            fr = 0.0
            for h, i in key.items():
                j = key.get((-h[0], -h[1], -h[2]))
                if j is not None:
                    fr = max(fr, abs(F[j] - np.conj(F[i])) / scale)
            ev["friedel_ppb"] = ppb(fr)
            ev["friedel_missing"] = int(sum(1 for h, i in key.items() if (-h[0], -h[1], -h[2]) not in key and abs(F[i]) / scale > 5e-5))
            for h, i in key.items():
                if max(abs(v) for v in h) <= 2:
                    ev["mag"].append([h[0], h[1], h[2], ppb(abs(F[i]) / scale)])
            # with the crystal's own centering the table holds allowed reflections only (counted by the lattice sum)
            sfC, hklC, FC = table(atoms, cen)
            ev["tabulated"] = [[int(v) for v in h] for h in hklC if max(abs(int(v)) for v in h) <= 2]
            # automatic centering detection: every reflection it leaves out must have a vanishing structure factor
            sfA, hklA, FA = table(atoms, "auto")
            kept = {tuple(int(v) for v in h) for h in hklA}
            ev["auto_centering"] = str(getattr(sfA, "centering", ""))
            ev["auto_dropped_nonzero"] = int(sum(1 for h, i in key.items() if h not in kept and abs(F[i]) / scale > 1e-4))
            # lattice translation of all atoms
            moved = atoms.copy()
            moved.positions += atoms.cell.array[0] * 1 + atoms.cell.array[1] * (-2) + atoms.cell.array[2] * 1
            _, hkl2, F2 = table(moved, "P")
            ev["translation_ppb"] = max(ev["translation_ppb"], ppb(float(np.abs(F2 - F).max()) / scale) if F2.shape == F.shape else 2 * 10 ** 9)
            pot = np.asarray(sfP.get_potential_3d(lazy=False)) if "lazy" in sfP.get_potential_3d.__code__.co_varnames else np.asarray(sfP.get_potential_3d())
            pot = np.asarray(pot.compute()) if hasattr(pot, "compute") else pot
            if np.iscomplexobj(pot):
                ev["imag_ppb"] = ppb(float(np.abs(pot.imag).max()) / max(float(np.abs(pot).max()), 1e-30))
            # the projected potential on the native grid and on a grid asked for explicitly: one period is the cell (orthogonal cells),
            # so shape x sampling = cell lengths on both axes, and the values are real
            try:
                a_len, b_len = float(atoms.cell.lengths()[0]), float(atoms.cell.lengths()[1])
                ortho = bool(np.allclose(atoms.cell.array - np.diag(np.diag(atoms.cell.array)), 0.0, atol=1e-9))
                if ortho:
                    native = sfP.get_projected_potential(slice_thickness=1.0, lazy=False)
                    n0 = tuple(int(v) for v in native.gpts)
                    asked = sfP.get_projected_potential(slice_thickness=1.0, gpts=(n0[0] + 3, n0[1] + 5), lazy=bool(c["lazy"]))
                    worst = 0.0
                    for p in (native, asked):
                        worst = max(worst, abs(p.gpts[0] * p.sampling[0] - a_len) / a_len, abs(p.gpts[1] * p.sampling[1] - b_len) / b_len)
                        arr_p = p.array.compute() if hasattr(p.array, "compute") else p.array
                        if np.iscomplexobj(arr_p):
                            ev["imag_ppb"] = max(ev["imag_ppb"], ppb(float(np.abs(np.asarray(arr_p).imag).max()) / max(float(np.abs(np.asarray(arr_p)).max()), 1e-30)))
                    if tuple(int(v) for v in asked.gpts) != (n0[0] + 3, n0[1] + 5):
                        worst = 2.0
                    ev["period_ppb"] = ppb(worst)
            except (AttributeError, TypeError):
                pass          # the projected potential is not offered in this form by this version of the API
            if c["lazy"]:
                lz = StructureFactor(atoms, g_max=g_max, centering="P", **kw).build(lazy=True)
                la = np.asarray(lz.compute().array) if hasattr(lz, "compute") else np.asarray(lz.array)
                ev["lazy_ppb"] = ppb(float(np.abs(la - F).max()) / scale) if la.shape == F.shape else 2 * 10 ** 9
        except Exception as ex:
            ev["raised"] = True
            ev["exc"] = f"{type(ex).__name__}: {ex}"[:300]
    return ev


def dyn_event(c):
    from abtem.bloch import StructureFactor, BlochWaves
    atoms, cen = crystal(c["crystal"])
    g_max = G_MAX[c["g_max"]]
    ev = {"k": "dyn", "case": c, "raised": False, "sum_ppb": [], "zero_ppb": 0, "hermitian_ppb": 0, "lazy_ppb": 0, "expm_ppb": 0, "beams": 0}
    with warnings.catch_warnings():
        warnings.simplefilter("ignore")
        try:
            src = c.get("source", "prebuilt" if c.get("prebuilt") else "builder")
            sfkw = {}
            if src == "builder_occupancy":
                symbols = sorted(set(atoms.get_chemical_symbols()))
                sfkw = {"occupancy": {s: 0.6 + 0.25 * i for i, s in enumerate(symbols)}, "thermal_sigma": {s: 0.05 + 0.04 * i for i, s in enumerate(symbols)}}
            sf = StructureFactor(atoms, g_max=2 * g_max, centering=cen, **sfkw)
            mkbw = lambda s_: BlochWaves(s_, energy=ENERGIES[c["energy"]], sg_max=SG_MAX[c["sg_max"]], g_max=g_max,
                                         orientation_matrix=orientation(c["orientation"]), use_wave_eq=bool(c["use_wave_eq"]))
            if c.get("prebuilt"):
                # one eagerly built StructureFactorArray shared by several calculations: it has been used twice before (results discarded)
                sf = sf.build(lazy=False)
                for _ in range(2):
                    mkbw(sf).calculate_diffraction_patterns([50.0], lazy=False)
                if src == "prebuilt_reordered":
                    from abtem.bloch.dynamical import StructureFactorArray
                    hk = np.asarray(sf.hkl)
                    perm = np.lexsort((hk[:, 2], hk[:, 1], hk[:, 0]))          # ascending (h, k, l): (0, 0, 0) is no longer the first entry
                    sf = StructureFactorArray(np.asarray(sf.array)[..., perm].copy(), hk[perm].copy(), atoms.cell, sf.g_max, centering=cen)
            bw = mkbw(sf)
            th = {"ascending": [0.0, 37.0, 120.0, 455.5], "descending": [455.5, 120.0, 37.0, 0.0], "unsorted": [120.0, 0.0, 455.5, 37.0],
                  "repeated": [37.0, 0.0, 37.0, 455.5]}[c.get("order", "ascending")]
            ev["beams"] = int(len(bw))
            # reflections with a component along the beam (higher-order Laue zones on a zone axis, nearly all when tilted)
            ev["out_of_plane_beams"] = bool((np.abs(np.asarray(bw.g_vec, dtype=float)[:, 2]) > 1e-9).any())
            dp = bw.calculate_diffraction_patterns(th, lazy=False)
            inten = np.asarray(dp.array, dtype=float)
            ev["sum_ppb"] = [ppb(abs(float(s) - 1.0)) for s in inten.sum(-1)]
            hkl = np.asarray(bw.hkl)
            i0 = int(np.where((hkl == 0).all(1))[0][0])
            direct = np.zeros(inten.shape[1]); direct[i0] = 1.0
            ev["zero_ppb"] = ppb(max(float(np.abs(inten[k] - direct).max()) for k, z in enumerate(th) if z == 0.0))
            A = bw.calculate_structure_matrix(lazy=False)
            A = np.asarray(A.compute() if hasattr(A, "compute") else A)
            off = A - np.diag(np.diag(A))
            ev["hermitian_ppb"] = ppb(float(np.abs(off - off.conj().T).max()) / max(float(np.abs(off).max()), 1e-30))
            # the lazy route needs the lazy builder: with a prebuilt array it is the same calculation from freshly built structure factors
            bwl = mkbw(StructureFactor(atoms, g_max=2 * g_max, centering=cen, **sfkw)) if c.get("prebuilt") else bw
            lz = np.asarray(bwl.calculate_diffraction_patterns(th, lazy=True).compute().array, dtype=float)
            # beams are matched by their Miller indices (a user-assembled array lists them in its own order)
            where = {tuple(int(v) for v in h): i for i, h in enumerate(np.asarray(bwl.hkl))}
            align = [where.get(tuple(int(v) for v in h), -1) for h in hkl]
            ref = inten
            if src == "prebuilt_reordered":
                # lazy / eager and expm / eigen are statements about ONE calculation: they are judged on the builder's own ordering;
                # the user-ordered array is held to the same intensities where the ordering cannot matter (no beams with g_z != 0:
                # with such beams the recorded M-matrix finding makes the result depend on the order at the 1e-4 level)
                eager_own = np.asarray(bwl.calculate_diffraction_patterns(th, lazy=False).array, dtype=float)
                ref = eager_own[:, align] if min(align) >= 0 and eager_own.shape == inten.shape else inten
                if not ev["out_of_plane_beams"]:
                    ev["lazy_ppb"] = ppb(float(np.abs(ref - inten).max())) if ref is not inten else 2 * 10 ** 9
            if lz.shape != inten.shape or min(align) < 0:
                ev["lazy_ppb"] = 2 * 10 ** 9
            else:
                ev["lazy_ppb"] = max(ev["lazy_ppb"], ppb(float(np.abs(lz[:, align] - ref).max())))
            i0l = where[(0, 0, 0)]
            worst = 0.0
            for k, z in [(k, z) for k, z in enumerate(th) if z != 0.0][:2]:
                S = bwl.calculate_scattering_matrix(z)
                S = np.asarray(S.compute() if hasattr(S, "compute") else S)
                worst = max(worst, float(np.abs((np.abs(S[:, i0l]) ** 2)[align] - ref[k]).max()) if min(align) >= 0 else 2.0)
            ev["expm_ppb"] = ppb(worst)
        except Exception as ex:
            ev["raised"] = True
            ev["exc"] = f"{type(ex).__name__}: {ex}"[:300]
    return ev


def judge(ctx: Ctx, evs, tags_for):
    res = ctx.validate("BlochTrace", [[e] for e in evs], "BlochTrace.cfg", timeout=3000)
    for e, (ok, bad) in zip(evs, res):
        if not ok:
            tg = tags_for(e, bad[0][1])
            brief = {k: v for k, v in e.items() if k not in ("hkl", "allowed", "mag", "tabulated")}
            ctx.report(tg, {"event": brief}, f"{json.dumps(brief, default=str)[:420]}")
