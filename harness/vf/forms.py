"""Argument forms: the same value handed over as another Python / NumPy object is the same input.

reform(v, k) returns v unchanged (k % 5 == 0) or as: a NumPy scalar of the same kind and value (np.float64 / np.int64), a 0-d array,
a list instead of a tuple (and vice versa), a 1-d array instead of a sequence of numbers.  Values are never changed (no float32
round trip), None stays None, bools stay bools, strings stay strings.
"""
from __future__ import annotations

import numpy as np

FORMS = ("as_given", "numpy_scalar", "zero_d_array", "other_sequence", "ndarray")


def reform(v, k):
    form = FORMS[k % 5]
    if v is None or isinstance(v, (bool, np.bool_, str)) or form == "as_given":
        return v
    if isinstance(v, (int, np.integer)) and not isinstance(v, bool):
        return {"numpy_scalar": np.int64(v), "zero_d_array": np.array(int(v))}.get(form, v)
    if isinstance(v, (float, np.floating)):
        return {"numpy_scalar": np.float64(v), "zero_d_array": np.array(float(v))}.get(form, v)
    if isinstance(v, (tuple, list)):
        if form == "other_sequence":
            return list(v) if isinstance(v, tuple) else tuple(v)
        if form == "ndarray" and all(isinstance(x, (int, float, np.integer, np.floating)) and not isinstance(x, bool) for x in v) and len(v):
            return np.array(v)
        if form == "numpy_scalar":
            return type(v)(reform(x, 1) for x in v)
    return v
