"""Thin wrapper around TLC / SANY: run under a timeout, parse the numbers and PrintT lines."""
from __future__ import annotations

import json
import os
import re
import shutil
import subprocess
import tempfile
import time

SPEC_DIR = os.path.join(os.path.dirname(os.path.dirname(os.path.dirname(os.path.abspath(__file__)))), "spec")
JAR = "/opt/veriftools/tla/tla2tools.jar:/opt/veriftools/tla/CommunityModules-deps.jar"


class TlcError(RuntimeError):
    """Machinery failure (exit status 2 of bin/check)."""


class TlcResult:
    def __init__(self, out: str, rc: int, wall: float, cmd: str):
        self.out = out
        self.rc = rc
        self.wall = wall
        self.cmd = cmd
        m = re.findall(r"(\d+) states generated, (\d+) distinct states found", out)
        self.generated = int(m[-1][0]) if m else 0
        self.distinct = int(m[-1][1]) if m else 0
        self.transitions = self.generated
        m = re.search(r"The depth of the complete state graph search is (\d+)", out)
        self.depth = int(m.group(1)) if m else None
        self.invariant_violated = re.findall(r"Invariant (\S+) is violated", out)
        self.property_violated = re.findall(r"(?:Action|Temporal) property (\S+) (?:is|was) violated", out)
        self.finished = "Model checking completed" in out or "Finished in" in out
        self.error = None
        if rc not in (0, 12, 13) and not self.invariant_violated and not self.property_violated:
            em = re.search(r"Error: (.*)", out)
            self.error = em.group(1) if em else f"tlc rc={rc}"

    @property
    def ok(self) -> bool:
        return self.rc == 0 and not self.invariant_violated and not self.property_violated

    def printed(self, tag: str):
        """Values printed by PrintT(<<"tag", ...>>) -- parsed by bracket matching (16 workers interleave lines)."""
        res = []
        pat = re.compile(r'<<\s*"' + re.escape(tag) + '"')
        i = 0
        s = self.out
        while True:
            m = pat.search(s, i)
            if not m:
                break
            j = m.start()
            depth = 0
            k = j
            instr = False
            while k < len(s):
                c = s[k]
                if instr:
                    if c == "\\":
                        k += 1
                    elif c == '"':
                        instr = False
                elif c == '"':
                    instr = True
                elif s.startswith("<<", k):
                    depth += 1
                    k += 1
                elif s.startswith(">>", k):
                    depth -= 1
                    k += 1
                    if depth == 0:
                        break
                k += 1
            res.append(s[j : k + 1])
            i = k + 1
        return res

    def coverage(self):
        """-coverage 1 per-action counts: {action: (distinct, generated)}"""
        cov = {}
        for m in re.finditer(r"<(\w+) line \d+, col \d+ to line \d+, col \d+ of module (\w+)>: (\d+):(\d+)", self.out):
            name = m.group(1)
            d, g = int(m.group(3)), int(m.group(4))
            pd, pg = cov.get(name, (0, 0))
            cov[name] = (pd + d, pg + g)
        return cov


def tla_value_to_py(s: str):
    """Parse a printed TLA+ value made of tuples, sets, records, strings, ints, booleans."""
    pos = 0

    def ws():
        nonlocal pos
        while pos < len(s) and s[pos] in " \n\t\r":
            pos += 1

    def val():
        nonlocal pos
        ws()
        if s.startswith("<<", pos):
            pos += 2
            items = []
            ws()
            if s.startswith(">>", pos):
                pos += 2
                return items
            while True:
                items.append(val())
                ws()
                if s.startswith(">>", pos):
                    pos += 2
                    return items
                assert s[pos] == ",", (s[pos - 20 : pos + 20])
                pos += 1
        if s[pos] == "{":
            pos += 1
            items = []
            ws()
            if s[pos] == "}":
                pos += 1
                return items
            while True:
                items.append(val())
                ws()
                if s[pos] == "}":
                    pos += 1
                    return items
                assert s[pos] == ","
                pos += 1
        if s[pos] == "[":
            pos += 1
            rec = {}
            while True:
                ws()
                m = re.compile(r"(\w+)\s*\|->").match(s, pos)
                assert m, s[pos : pos + 30]
                pos = m.end()
                rec[m.group(1)] = val()
                ws()
                if s[pos] == "]":
                    pos += 1
                    return rec
                assert s[pos] == ","
                pos += 1
        if s[pos] == '"':
            k = pos + 1
            buf = []
            while s[k] != '"':
                if s[k] == "\\":
                    k += 1
                buf.append(s[k])
                k += 1
            pos = k + 1
            return "".join(buf)
        m = re.compile(r"-?\d+").match(s, pos)
        if m:
            pos = m.end()
            return int(m.group(0))
        m = re.compile(r"TRUE|FALSE").match(s, pos)
        if m:
            pos = m.end()
            return m.group(0) == "TRUE"
        m = re.compile(r"\w+").match(s, pos)
        if m:
            pos = m.end()
            return m.group(0)
        raise ValueError("cannot parse TLA value at %r" % s[pos : pos + 40])

    return val()


def run_tlc(
    module: str,
    cfg: str | None = None,
    *,
    workers: int | str = "auto",
    timeout: int = 600,
    env: dict | None = None,
    extra: list[str] | None = None,
    scratch: str | None = None,
    cfg_text: str | None = None,
    java_opts: list[str] | None = None,
    spec_dir: str | None = None,
) -> TlcResult:
    """Run TLC on spec/<module>.tla with spec/<cfg> (or a generated cfg_text)."""
    spec_dir = spec_dir or SPEC_DIR
    own = scratch is None
    scratch = scratch or tempfile.mkdtemp(prefix="vf.tlc.")
    try:
        if cfg_text is not None:
            cfg_path = os.path.join(scratch, module + ".gen.cfg")
            with open(cfg_path, "w") as f:
                f.write(cfg_text)
        else:
            cfg_path = os.path.join(spec_dir, cfg or (module + ".cfg"))
        jtmp = os.path.join(scratch, "jtmp")          # TLC unpacks its standard modules into java.io.tmpdir: keep that inside the scratch dir
        os.makedirs(jtmp, exist_ok=True)
        cmd = ["java", "-XX:+UseParallelGC", "-Xss16m", "-Djava.io.tmpdir=" + jtmp]
        cmd += java_opts or []
        cmd += ["-cp", JAR, "tlc2.TLC", "-workers", str(workers), "-metadir", os.path.join(scratch, "meta"),
                "-noGenerateSpecTE", "-config", cfg_path]
        cmd += extra or []
        cmd += [os.path.join(spec_dir, module + ".tla")]
        e = dict(os.environ)
        e.update(env or {})
        t0 = time.time()
        try:
            p = subprocess.run(cmd, cwd=spec_dir, env=e, stdout=subprocess.PIPE, stderr=subprocess.STDOUT,
                               timeout=timeout, text=True)
            out, rc = p.stdout, p.returncode
        except subprocess.TimeoutExpired as ex:
            out = (ex.stdout or b"").decode() if isinstance(ex.stdout, bytes) else (ex.stdout or "")
            rc = 124
            subprocess.run(["pkill", "-f", os.path.join(scratch, "meta")], check=False)
        return TlcResult(out, rc, time.time() - t0, " ".join(cmd))
    finally:
        if own:
            shutil.rmtree(scratch, ignore_errors=True)


def run_sany(module: str, spec_dir: str | None = None) -> tuple[bool, str]:
    spec_dir = spec_dir or SPEC_DIR
    p = subprocess.run(["java", "-cp", JAR, "tla2sany.SANY", os.path.join(spec_dir, module + ".tla")],
                       cwd=spec_dir, stdout=subprocess.PIPE, stderr=subprocess.STDOUT, text=True)
    ok = p.returncode == 0 and "Semantic errors" not in p.stdout and "Fatal errors" not in p.stdout \
        and "*** Errors" not in p.stdout
    return ok, p.stdout
