"""Exact rationals <-> TLA+ <<num, den>> pairs; fixed-point helpers."""
from __future__ import annotations

from fractions import Fraction

LIMIT = 1 << 12


def rat(x, limit=LIMIT):
    """float/int -> [num, den] (closest rational with den <= limit); None -> []"""
    if x is None:
        return []
    f = Fraction(float(x)).limit_denominator(limit)
    return [f.numerator, f.denominator]


def exact(x, limit=LIMIT) -> bool:
    """True when the float is (to 1e-12 relative) the rational rat() returns."""
    f = Fraction(float(x)).limit_denominator(limit)
    return abs(float(f) - float(x)) <= 1e-12 * max(1.0, abs(float(x)))


def ppb(err: float) -> int:
    """relative error -> integer parts per billion, clamped to TLC's int range"""
    if err != err:
        return 2_000_000_000
    return int(min(abs(err) * 1e9, 2_000_000_000))


def fixed(x: float, scale=1_000_000) -> int:
    v = round(float(x) * scale)
    return int(max(min(v, 2_000_000_000), -2_000_000_000))
