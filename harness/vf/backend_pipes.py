"""Concrete simulation / measurement-transform pipelines for C38: each is a function of the *current* abTEM configuration.

run_pipe(name, cfg) enters abtem.config.set(cfg), builds every input inside the context (as a user running under that
configuration would), runs the pipeline and returns {"array": result as ndarray, "input_changed": bool, "dtype": str}.
Inputs handed to FFT helpers are snapshotted before and compared after (a backend that transforms in place must not leak
that into the caller's array unless overwrite_x was requested).
"""
from __future__ import annotations

import warnings

import numpy as np


def _atoms():
    from ase import Atoms
    return Atoms("SiCOAuN", positions=[(1.0, 1.2, 1.0), (3.1, 2.0, 2.5), (4.2, 4.4, 0.6), (2.2, 5.1, 3.3), (5.0, 1.1, 2.0)], cell=(6.0, 6.4, 4.0))


def _potential(**kw):
    import abtem
    kw.setdefault("gpts", (24, 20))
    kw.setdefault("slice_thickness", 2.0)
    kw.setdefault("projection", "infinite")
    return abtem.Potential(_atoms(), **kw)


def _rng_array(shape, complex_=True, seed=5):
    rng = np.random.default_rng(seed)
    a = rng.normal(size=shape)
    if complex_:
        a = a + 1j * rng.normal(size=shape)
    return a


def _out(x, input_changed=False):
    a = np.asarray(x)
    return {"array": a, "input_changed": bool(input_changed), "dtype": str(a.dtype)}


def p_probe_scan_annular():
    import abtem
    probe = abtem.Probe(energy=80e3, semiangle_cutoff=25.0, defocus=30.0, C30=1e5)
    scan = abtem.GridScan(start=(0, 0), end=(3.0, 3.2), gpts=(2, 3))
    m = probe.scan(_potential(), scan=scan, detectors=abtem.AnnularDetector(inner=10, outer=40), lazy=False)
    return _out(m.array)


def p_probe_scan_flexible_lazy():
    import abtem
    probe = abtem.Probe(energy=100e3, semiangle_cutoff=20.0, astigmatism=20.0, astigmatism_angle=0.4)
    scan = abtem.CustomScan(np.array([[0.5, 0.7], [3.1, 2.2], [5.5, 6.0]]))
    m = probe.scan(_potential(), scan=scan, detectors=abtem.FlexibleAnnularDetector(step_size=10.0), lazy=True, max_batch=2)
    return _out(m.compute(scheduler="synchronous").array)


def p_planewave_diffraction():
    import abtem
    w = abtem.PlaneWave(energy=120e3).multislice(_potential(gpts=(25, 21)), lazy=False)
    return _out(w.diffraction_patterns(max_angle="valid", block_direct=False).array)


def p_exit_waves_frozen_phonons():
    import abtem
    fp = abtem.FrozenPhonons(_atoms(), num_configs=3, sigmas=0.1, seed=7)
    pot = abtem.Potential(fp, gpts=(24, 20), slice_thickness=2.0)
    w = abtem.PlaneWave(energy=100e3, tilt=(4.0, -2.0)).multislice(pot, lazy=True)
    return _out(w.compute(scheduler="synchronous").array)


def p_prism_scan():
    import abtem
    s = abtem.SMatrix(potential=_potential(), energy=100e3, semiangle_cutoff=18.0, interpolation=1)
    scan = abtem.GridScan(start=(0, 0), end=(2.0, 2.0), gpts=(2, 2))
    m = s.scan(scan=scan, detectors=abtem.PixelatedDetector(max_angle="cutoff"), ctf=abtem.CTF(defocus=25.0, Cs=2e5, energy=100e3), lazy=False)
    return _out(m.array)


def p_apply_ctf_image():
    import abtem
    w = abtem.PlaneWave(energy=200e3).multislice(_potential(), lazy=False)
    img = w.apply_ctf(abtem.CTF(defocus=-40.0, Cs=-1e5, semiangle_cutoff=30.0, focal_spread=20.0)).intensity()
    return _out(img.array)


def _image(gpts=(18, 15)):
    import abtem
    from abtem.core.utils import get_dtype
    a = _rng_array(gpts, complex_=False, seed=11).astype(get_dtype(complex=False))
    return abtem.Images(a, sampling=(0.2, 0.25)), a


def p_interpolate_images():
    img, a = _image()
    before = a.copy()
    r = img.interpolate(gpts=(27, 20), method="fft")
    return _out(r.array, not np.array_equal(before, np.asarray(img.array)))


def p_gaussian_filter_images():
    img, a = _image((16, 16))
    before = a.copy()
    r = img.gaussian_filter(0.4)
    return _out(r.array, not np.array_equal(before, np.asarray(img.array)))


def p_diffraction_integrate_radial():
    import abtem
    w = abtem.Probe(energy=100e3, semiangle_cutoff=22.0, gpts=(24, 24), extent=(8.0, 8.0)).build(lazy=False)
    dp = w.diffraction_patterns(max_angle="cutoff")
    return _out(dp.integrate_radial(0.0, 20.0).array if hasattr(dp, "integrate_radial") else dp.array)


def p_diffraction_interpolate():
    import abtem
    w = abtem.Probe(energy=100e3, semiangle_cutoff=22.0, gpts=(24, 18), extent=(8.0, 7.0), defocus=50.0).build(lazy=False)
    dp = w.diffraction_patterns(max_angle="valid")
    return _out(dp.interpolate("uniform").array)


def p_potential_infinite():
    return _out(_potential(gpts=(21, 24)).build(lazy=False).array)


def p_potential_finite():
    return _out(_potential(projection="finite", gpts=(20, 20), slice_thickness=1.0).build(lazy=False).array)


def p_fft_helpers():
    from abtem.core.fft import fft_interpolate, fft_shift
    from abtem.core.utils import get_dtype
    a = _rng_array((3, 12, 10)).astype(get_dtype(complex=True))
    before = a.copy()
    s = fft_shift(a, np.array([[0.3, -1.2], [2.0, 0.5], [0.0, 0.0]]))
    u = fft_interpolate(a, (18, 15))
    d = fft_interpolate(a, (7, 6), normalization="amplitude")
    return _out(np.concatenate([np.ravel(s), np.ravel(u), np.ravel(d)]), not np.array_equal(before, a))


def p_fft2_roundtrip_and_convolve():
    from abtem.core.fft import fft2, fft2_convolve, ifft2, fftn, ifftn
    from abtem.core.utils import get_dtype
    a = _rng_array((2, 14, 9)).astype(get_dtype(complex=True))
    k = np.exp(-0.1 * np.arange(14)[:, None] - 0.05j * np.arange(9)[None]).astype(get_dtype(complex=True))
    before = a.copy()
    f = fft2(a)
    b = ifft2(f)
    cv = fft2_convolve(a, k, overwrite_x=False)
    g = ifftn(fftn(a, axes=(0, 2)), axes=(0, 2))
    changed = not np.array_equal(before, a)
    cv2 = fft2_convolve(a.copy(), k, overwrite_x=True)
    return _out(np.concatenate([np.ravel(f), np.ravel(b), np.ravel(cv), np.ravel(g), np.ravel(cv2)]), changed)


def p_propagate_vacuum():
    import abtem
    from abtem.multislice import FresnelPropagator
    w = abtem.Probe(energy=60e3, semiangle_cutoff=30.0, gpts=(20, 26), extent=(6.0, 7.8), defocus=20.0).build(lazy=False)
    before = np.asarray(w.array).copy()
    prop = FresnelPropagator()
    w1 = prop.propagate(w, 7.5, in_place=False)
    changed = not np.array_equal(before, np.asarray(w.array))
    w2 = prop.propagate(w1, 2.5, in_place=True)
    return _out(np.concatenate([np.ravel(w1.array), np.ravel(w2.array)]), changed)


def p_realspace_multislice():
    import abtem
    w = abtem.PlaneWave(energy=100e3).multislice(_potential(gpts=(20, 20)), algorithm=abtem.multislice.RealSpaceMultislice(order=2, expansion_scope="propagator"),
                                                  lazy=False)
    return _out(w.array)


def p_center_of_mass():
    import abtem
    probe = abtem.Probe(energy=100e3, semiangle_cutoff=20.0)
    scan = abtem.GridScan(start=(0, 0), end=(3.0, 3.2), gpts=(3, 2))
    m = probe.scan(_potential(), scan=scan, detectors=abtem.PixelatedDetector(max_angle="cutoff"), lazy=False)
    return _out(m.center_of_mass().array)


def p_waves_transforms_then_reuse():
    """Every measurement transform of a Waves object is followed by a second use of the SAME object: a backend that transforms in
    place behind the scenes shows up in the later results (and in the snapshot of the receiver's array)."""
    import abtem
    w = abtem.Probe(energy=100e3, semiangle_cutoff=24.0, gpts=(24, 20), extent=(6.0, 5.0), defocus=30.0).build(
        scan=abtem.CustomScan(np.array([[1.0, 1.0], [2.5, 3.0]])), lazy=False)
    before = np.asarray(w.array).copy()
    outs = [w.downsample(max_angle="cutoff").array, w.diffraction_patterns(max_angle="valid").array,
            w.apply_ctf(abtem.CTF(defocus=15.0, semiangle_cutoff=20.0)).array, w.intensity().array,
            w.downsample(gpts=(12, 10)).array, w.diffraction_patterns(max_angle="cutoff").array]
    changed = not np.array_equal(before, np.asarray(w.array))
    return _out(np.concatenate([np.ravel(np.asarray(o)).astype(np.complex128) for o in outs]), changed)


def p_images_transforms_then_reuse():
    import abtem
    from abtem.core.utils import get_dtype
    a = (_rng_array((2, 14, 12), seed=3)).astype(get_dtype(complex=True))
    img = abtem.Images(a, sampling=(0.2, 0.25), ensemble_axes_metadata=[abtem.core.axes.OrdinalAxis(values=(0, 1))])
    before = a.copy()
    outs = [img.interpolate(gpts=(21, 18), method="fft").array, img.gaussian_filter(0.3).array, img.interpolate(sampling=0.1, method="fft").array,
            img.diffractograms().array if hasattr(img, "diffractograms") else img.array, img.abs().array]
    changed = not np.array_equal(before, np.asarray(img.array))
    return _out(np.concatenate([np.ravel(np.asarray(o)).astype(np.complex128) for o in outs]), changed)


def p_waves_normalize_modes():
    """every (space, in_place) mode of Waves.normalize on real-space waves and on waves held in reciprocal space; in_place works on a
    private copy so that the modes do not see each other"""
    import abtem
    from abtem.core.utils import get_dtype
    a = _rng_array((2, 14, 12), seed=21).astype(get_dtype(complex=True))
    outs = []
    for space in ("reciprocal",):                 # space="real" raises NotImplementedError on the pinned tree
        for in_place in (False, True):
            w = abtem.Waves(a.copy(), energy=100e3, sampling=(0.2, 0.25), ensemble_axes_metadata=[abtem.core.axes.OrdinalAxis(values=(0, 1))])
            outs.append(np.asarray(w.normalize(space=space, in_place=in_place).array))
            wk = w.ensure_reciprocal_space() if hasattr(w, "ensure_reciprocal_space") else w
            outs.append(np.asarray(wk.normalize(space=space, in_place=in_place).ensure_real_space().array) if wk is not w else outs[-1])
    return _out(np.concatenate([np.ravel(o).astype(np.complex128) for o in outs]))


PIPES = {
    "probe_scan_annular": p_probe_scan_annular,
    "probe_scan_flexible_lazy": p_probe_scan_flexible_lazy,
    "planewave_diffraction": p_planewave_diffraction,
    "exit_waves_frozen_phonons": p_exit_waves_frozen_phonons,
    "prism_scan": p_prism_scan,
    "apply_ctf_image": p_apply_ctf_image,
    "interpolate_images": p_interpolate_images,
    "gaussian_filter_images": p_gaussian_filter_images,
    "diffraction_integrate_radial": p_diffraction_integrate_radial,
    "diffraction_interpolate": p_diffraction_interpolate,
    "potential_infinite": p_potential_infinite,
    "potential_finite": p_potential_finite,
    "fft_helpers": p_fft_helpers,
    "fft2_roundtrip_and_convolve": p_fft2_roundtrip_and_convolve,
    "propagate_vacuum": p_propagate_vacuum,
    "realspace_multislice": p_realspace_multislice,
    "center_of_mass": p_center_of_mass,
    "waves_transforms_then_reuse": p_waves_transforms_then_reuse,
    "images_transforms_then_reuse": p_images_transforms_then_reuse,
    "waves_normalize_modes": p_waves_normalize_modes,
}


def run_pipe(name, cfg=None):
    import abtem
    with warnings.catch_warnings():
        warnings.simplefilter("ignore")
        if cfg:
            with abtem.config.set(cfg):
                return PIPES[name]()
        return PIPES[name]()
