"""Check context: scratch space, TLC design checks, batch trace validation, known findings, evidence."""
from __future__ import annotations

import hashlib
import json
import os
import shutil
import sys
import tempfile
import time
import traceback

from . import tlc

ROOT = os.path.dirname(os.path.dirname(os.path.dirname(os.path.abspath(__file__))))
KNOWN_FILE = os.path.join(ROOT, "known_findings.json")
OUT = os.environ.get("VF_OUT") or ROOT      # tools/try_seed_copy.sh redirects evidence and replays of runs against patched copies


class Machinery(RuntimeError):
    """Raised for failures of the machinery itself (exit status 2, never a VIOLATION)."""


def _load_known():
    if not os.path.exists(KNOWN_FILE):
        return []
    with open(KNOWN_FILE) as f:
        return json.load(f).get("entries", [])


def _match(entry_match: dict, tags: dict) -> bool:
    for k, v in entry_match.items():
        if k not in tags:
            return False
        t = tags[k]
        if isinstance(v, dict) and "any_of" in v:
            if t not in v["any_of"]:
                return False
        elif t != v:
            return False
    return True


def _sanitize(x):
    """TLC's Json module cannot read null and mangles floats: None -> [], floats are a harness bug."""
    if x is None:
        return []
    if isinstance(x, bool) or isinstance(x, (int, str)):
        return x
    if isinstance(x, float):
        raise Machinery(f"float {x!r} in a trace (traces carry integers/rationals only)")
    if isinstance(x, dict):
        return {str(k): _sanitize(v) for k, v in x.items()}
    if isinstance(x, (list, tuple)):
        return [_sanitize(v) for v in x]
    if hasattr(x, "item"):
        return _sanitize(x.item())
    return str(x)


class Ctx:
    def __init__(self, pid: str, tier: str, seed: int):
        self.pid = pid
        self.tier = tier
        self.seed = seed
        self.t0 = time.time()
        self.scratch = tempfile.mkdtemp(prefix=f"vf.{pid}.")
        self.design = []          # one record per TLC design run
        self.states = 0
        self.transitions = 0
        self.traces_validated = 0
        self.trace_states = 0
        self.evaluations = 0
        self.distinct = set()
        self.samples = []
        self.violations = []      # unlisted
        self.known_hits = {}      # entry id -> count
        self.drift = []
        self.notes = {}
        self.assumptions = []
        self.rule = ""
        self.exhaustive = False
        self.coverage_actions = {}
        self.known = [e for e in _load_known() if e.get("property") == pid]
        self._sigs = {}

    # ------------------------------------------------------------------ TLC: design level
    def design_check(self, module, cfg=None, *, cfg_text=None, expect_ok=True, workers="auto", timeout=900,
                     extra=None, env=None, label=None, coverage=False, java_opts=None):
        ex = list(extra or [])
        if coverage:
            ex += ["-coverage", "1"]
        r = tlc.run_tlc(module, cfg, cfg_text=cfg_text, workers=workers, timeout=timeout, extra=ex, env=env,
                        java_opts=java_opts)
        rec = {"module": module, "cfg": cfg or "(generated)", "label": label or module, "states": r.distinct,
               "transitions": r.transitions, "depth": r.depth, "ok": r.ok, "wall_s": round(r.wall, 2)}
        if coverage:
            cov = r.coverage()
            rec["actions"] = {k: v[1] for k, v in cov.items()}
            for k, v in cov.items():
                self.coverage_actions[f"{module}.{k}"] = self.coverage_actions.get(f"{module}.{k}", 0) + v[1]
        self.design.append(rec)
        sys.stderr.write(f"[vf] design {module}: {r.distinct} states {r.wall:.1f}s\n")
        self.states += r.distinct
        self.transitions += r.transitions
        if r.error or r.rc == 124:
            self._dump("tlc-design-" + module, r.out)
            raise Machinery(f"TLC failed on {module}: {r.error or 'timeout'} (log in {self.scratch})")
        if expect_ok and not r.ok:
            self._dump("tlc-design-" + module, r.out)
            rec["violated"] = r.invariant_violated + r.property_violated
            raise Machinery(f"design model {module} violates {rec['violated']}: the implementation-shaped model does "
                            f"not satisfy the property-level spec (model stale or wrong); log in {self.scratch}")
        return r

    # ------------------------------------------------------------------ TLC: trace validation
    def validate(self, module, traces, cfg=None, *, cfg_text=None, env=None, timeout=900, chunk=4000,
                 java_opts=None):
        """Validate recorded traces against a trace spec.  The trace spec prints <<"V", tid, bad>> once per trace,
        where bad is the sequence of <<line, {failed clauses}>>.  Returns list of (ok, bad) per trace."""
        results = []
        for off in range(0, len(traces), chunk):
            part = traces[off:off + chunk]
            path = os.path.join(self.scratch, f"traces-{module}-{off}.json")
            with open(path, "w") as f:
                json.dump(_sanitize(part), f)
            e = {"TRACE_FILE": path}
            e.update(env or {})
            r = tlc.run_tlc(module, cfg, cfg_text=cfg_text, workers=1, timeout=timeout, env=e, java_opts=java_opts)
            if r.error or r.rc == 124 or not r.ok:
                self._dump("tlc-trace-" + module, r.out)
                raise Machinery(f"TLC failed validating traces with {module}: "
                                f"{r.error or r.invariant_violated or r.property_violated or 'timeout'}"
                                f" (log in {self.scratch})")
            verdicts = {}
            for s in r.printed("V"):
                v = tlc.tla_value_to_py(s)
                verdicts[v[1]] = v[2]
            if len(verdicts) != len(part):
                self._dump("tlc-trace-" + module, r.out)
                raise Machinery(f"{module}: {len(part)} traces submitted, {len(verdicts)} verdicts returned "
                                f"(log in {self.scratch})")
            for i in range(len(part)):
                bad = verdicts[i + 1]
                results.append((len(bad) == 0, bad))
            sys.stderr.write(f"[vf] validate {module}: {len(part)} traces, {r.distinct} states {r.wall:.1f}s\n")
            self.trace_states += r.distinct
            self.states += r.distinct
            self.transitions += r.transitions
            self.traces_validated += len(part)
        return results

    # ------------------------------------------------------------------ verdict bookkeeping
    def case(self, key, nontrivial=True):
        self.evaluations += 1
        if nontrivial:
            self.distinct.add(key if isinstance(key, (str, int, tuple)) else json.dumps(key, sort_keys=True, default=str))

    def sample(self, obj, limit=6):
        if len(self.samples) < limit:
            self.samples.append(obj)

    def report(self, tags: dict, replay: dict, what: str):
        """A real-code trace was rejected by the property-level spec."""
        for e in self.known:
            if e.get("status") == "finding" and _match(e["match"], tags):
                self.known_hits[e["id"]] = self.known_hits.get(e["id"], 0) + 1
                return "known"
        sig = json.dumps(tags, sort_keys=True, default=str)
        if sig in self._sigs:            # one replay file per distinct violation class
            self._sigs[sig]["count"] += 1
            return self._sigs[sig]["replay"]
        body = {"property": self.pid, "tags": tags, "what": what, "case": replay}
        h = hashlib.sha1(json.dumps(body, sort_keys=True, default=str).encode()).hexdigest()[:12]
        d = os.path.join(OUT, "replays", self.pid)
        os.makedirs(d, exist_ok=True)
        path = os.path.join(d, h + ".json")
        with open(path, "w") as f:
            json.dump(body, f, indent=1, default=str)
        v = {"replay": path, "what": what, "tags": tags, "count": 1}
        self._sigs[sig] = v
        self.violations.append(v)
        return path

    def _dump(self, name, text):
        keep = os.path.join(ROOT, ".cache", "logs")
        os.makedirs(keep, exist_ok=True)
        p = os.path.join(keep, f"{self.pid}-{name}.log")
        with open(p, "w") as f:
            f.write(text)
        self.scratch_log = p
        sys.stderr.write(f"[vf] log kept at {p}\n")

    # ------------------------------------------------------------------ evidence + exit
    def finish(self, status_override=None):
        wall = time.time() - self.t0
        seen = set()
        nviol = 0
        for v in self.violations:
            if v["replay"] in seen:
                continue
            seen.add(v["replay"])
            nviol += 1
            if nviol <= 40:
                print(f"VIOLATION property={self.pid} replay={v['replay']}  # {v['what']} ({v['count']} traces)")
        for e in self.known:
            if e.get("status") == "finding" and self.known_hits.get(e["id"]):
                print(f"KNOWN-FINDING: property={self.pid} {e['id']}: {e['what']} "
                      f"({self.known_hits[e['id']]} matching traces)")
        cov = {
            "states": max(self.states, 0),
            "transitions": max(self.transitions, 0),
            "traces_validated_against_impl": self.traces_validated,
            "samples": self.samples or [{"note": "no sample recorded"}],
            "evaluations": self.evaluations,
            "distinct_nontrivial": len(self.distinct),
            "rule": self.rule,
            "exhaustive": self.exhaustive,
            "design_runs": self.design,
            "trace_validation_states": self.trace_states,
            "model_drift": self.drift[:10],
            "known_findings_hit": self.known_hits,
            "actions_covered": self.coverage_actions,
        }
        cov.update(self.notes)
        ev = {
            "property_id": self.pid,
            "tier": self.tier,
            "seed": self.seed,
            "level": "model_checking",
            "coverage": cov,
            "assumptions": self.assumptions,
            "wall_s": round(wall, 2),
            "violations": nviol,
        }
        os.makedirs(os.path.join(OUT, "evidence"), exist_ok=True)
        with open(os.path.join(OUT, "evidence", self.pid + ".json"), "w") as f:
            json.dump(ev, f, indent=1, default=str)
        shutil.rmtree(self.scratch, ignore_errors=True)
        print(f"[vf] {self.pid} tier={self.tier} seed={self.seed} states={self.states} traces={self.traces_validated} "
              f"cases={self.evaluations} violations={nviol} known={sum(self.known_hits.values())} wall={wall:.1f}s")
        return 1 if nviol else 0


def main(argv=None):
    import argparse
    import importlib

    ap = argparse.ArgumentParser()
    ap.add_argument("pid")
    ap.add_argument("--tier", default=os.environ.get("VERIF_TIER", "quick"), choices=["quick", "thorough"])
    ap.add_argument("--replay", default=None)
    ap.add_argument("--seed", type=int, default=int(os.environ.get("VERIF_SEED", "0") or 0))
    a = ap.parse_args(argv)
    pid = a.pid.upper()
    ctx = Ctx(pid, a.tier, a.seed)
    try:
        mod = importlib.import_module(f"vf.checks.{pid.lower()}")
        if a.replay:
            with open(a.replay) as f:
                body = json.load(f)
            mod.replay(ctx, body["case"])
        else:
            mod.run(ctx)
        rc = ctx.finish()
    except Machinery as ex:
        sys.stderr.write(f"[vf] MACHINERY FAILURE {pid}: {ex}\n")
        shutil.rmtree(ctx.scratch, ignore_errors=True)
        return 2
    except Exception:
        traceback.print_exc()
        sys.stderr.write(f"[vf] MACHINERY FAILURE {pid}: unexpected exception in harness\n")
        shutil.rmtree(ctx.scratch, ignore_errors=True)
        return 2
    return rc
