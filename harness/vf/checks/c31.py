"""C31  Poisson noise is valid, independent and reproducible.

design  : TLC checks NoiseImpl (every block seeds a fresh RandomState from the transform's seed; the member at position p of any
          block draws stream <<seed, p>>): for single-block evaluation the member -> stream map is injective and equals the eager
          one; over all chunkings TLC returns the counterexample of the known finding (streams depend on the chunking)
inputs  : measurement types x ensemble shapes x every chunking TLC enumerated x seeds (fixed / None) x samples x dose forms
verdict : NoiseTrace: counts are non-negative integers with mean and variance dose x signal (z-scores), reproducible for a fixed
          seed, lazy = eager, independent of chunking, no two distinct members with equal expectation bit-identical
"""
from __future__ import annotations

import json
import random

import numpy as np

from ..core import Ctx, Machinery
from .. import tlc

CFG = """SPECIFICATION Spec
CONSTANTS
  MaxM = {m}
  SingleBlockOnly = {single}
  Emit = {emit}
{inv}
CHECK_DEADLOCK FALSE
"""
TYPES = ["Images", "DiffractionPatterns", "RealSpaceLineProfiles", "PolarMeasurements"]


def measurement(typ, M, chunks, lazy):
    import abtem
    from abtem.core.axes import ScanAxis
    base = {"Images": (24, 24), "DiffractionPatterns": (24, 24), "RealSpaceLineProfiles": (400,), "PolarMeasurements": (20, 24)}[typ]
    arr = np.ones((M,) + base, dtype=np.float32)        # all members have the same expectation
    arr *= (1.0 + 0.5 * np.cos(np.arange(int(np.prod(base))).reshape(base) * 0.1)).astype(np.float32)
    if lazy:
        import dask.array as da
        arr = da.from_array(arr, chunks=(tuple(chunks),) + tuple((b,) for b in base))
    ax = [ScanAxis(label="x", sampling=0.2, units="Å")]
    if typ == "Images":
        return abtem.Images(arr, sampling=0.2, ensemble_axes_metadata=ax)
    if typ == "DiffractionPatterns":
        return abtem.measurements.DiffractionPatterns(arr, sampling=0.05, ensemble_axes_metadata=ax, metadata={"energy": 1e5})
    if typ == "RealSpaceLineProfiles":
        return abtem.measurements.RealSpaceLineProfiles(arr, sampling=0.2, ensemble_axes_metadata=ax)
    return abtem.measurements.PolarMeasurements(arr, radial_sampling=1.0, azimuthal_sampling=2 * np.pi / 24, ensemble_axes_metadata=ax)


def noisy(typ, M, chunks, lazy, seed, samples, dose):
    m = measurement(typ, M, chunks, lazy)
    out = m.poisson_noise(total_dose=dose, samples=samples, seed=seed)
    if lazy:
        out = out.compute(scheduler="synchronous") if hasattr(out, "compute") else out
    return np.asarray(out.array, dtype=np.float64), np.asarray(measurement(typ, M, [M], False).array, dtype=np.float64)


def observe(c, typ, seed, samples, dose):
    M, chunks = c["M"], c["chunks"]
    ev = {"case": c, "typ": typ, "seed_fixed": seed is not None, "samples": samples, "raised": False, "counts_ok": True, "repro_ok": True,
          "lazy_eq_eager": True, "chunking_indep": True, "distinct_members": True, "z_mean_milli": 0, "z_var_milli": 0,
          "multi_block": len(chunks) > 1, "eager_members_independent": True, "seed_zero": seed == 0, "dose_series": isinstance(dose, (list, tuple))}
    try:
        e, signal = noisy(typ, M, [M], False, seed, samples, dose)
        l, _ = noisy(typ, M, chunks, True, seed, samples, dose)
        ev["counts_ok"] = bool(np.all(e >= 0) and np.all(e == np.rint(e)) and np.all(l >= 0) and np.all(l == np.rint(l)))
        if isinstance(dose, (list, tuple)):
            lam = np.stack([signal * d for d in dose])
            if samples > 1:
                lam = np.broadcast_to(lam[:, None] if e.ndim == lam.ndim + 1 and e.shape[0] == len(dose) else lam, e.shape)
        else:
            lam = signal * dose
        if lam.shape != e.shape:
            lam = np.broadcast_to(lam, e.shape)
        n = lam.size
        zmean = ((e - lam).sum() / np.sqrt(lam.sum()))
        zvar = (((e - lam) ** 2 / lam).sum() - n) / np.sqrt(2.0 * n + (1.0 / lam).sum())
        ev["z_mean_milli"] = int(round(1000 * zmean))
        ev["z_var_milli"] = int(round(1000 * zvar))
        if seed is not None:
            # the same measurement object asked twice (a call must not leave anything behind that changes the next one)
            same = measurement(typ, M, [M], False)
            r1 = np.asarray(same.poisson_noise(total_dose=dose, samples=samples, seed=seed).array, dtype=np.float64)
            r2 = np.asarray(same.poisson_noise(total_dose=dose, samples=samples, seed=seed).array, dtype=np.float64)
            # the same request in other clothes: the measurement through a copy / deepcopy / pickle, the dose as a NumPy scalar
            # (NumPy integers are refused as seeds by validate_seeds - "Invalid type for `seeds`" - and are not offered)
            from ..routes import reroute
            twin = reroute(measurement(typ, M, [M], False), M + samples + (seed or 0))[0]
            r3 = np.asarray(twin.poisson_noise(total_dose=(np.float64(dose) if isinstance(dose, float) else dose), samples=samples,
                                               seed=seed).array, dtype=np.float64)
            ev["same_object_repro_ok"] = bool(np.array_equal(r1, r2) and np.array_equal(r1, e) and np.array_equal(r3, e))
            e2, _ = noisy(typ, M, [M], False, seed, samples, dose)
            l2, _ = noisy(typ, M, chunks, True, seed, samples, dose)
            ev["repro_ok"] = bool(np.array_equal(e, e2) and np.array_equal(l, l2) and ev["same_object_repro_ok"])
            ev["lazy_eq_eager"] = bool(np.array_equal(e, l))
            other = [M] if len(chunks) > 1 else ([1] * M if M > 1 else [M])
            l3, _ = noisy(typ, M, other, True, seed, samples, dose)
            ev["chunking_indep"] = bool(np.array_equal(l, l3))
        # one block (eager): standardised residuals of every pair of members are uncorrelated and no two members are identical
        nb = len(signal.shape) - 1                                    # base dimensions of one measurement
        res = ((e - lam) / np.sqrt(lam)).reshape((-1, int(np.prod(e.shape[-nb:]))))
        raw = e.reshape(res.shape)
        npx = res.shape[1]
        worst = 0.0
        for i in range(res.shape[0]):
            for j in range(i + 1, res.shape[0]):
                r = float(np.corrcoef(res[i], res[j])[0, 1])
                worst = max(worst, abs(r) * np.sqrt(npx))
                if np.array_equal(raw[i], raw[j]):
                    worst = 1e9
        ev["corr_z_milli"] = int(min(round(1000 * worst), 2_000_000_000))
        ev["eager_members_independent"] = bool(worst <= 6.0)
        # distinct members (equal expectation) must not carry identical noise
        flat_e = e.reshape((-1,) + e.shape[-(e.ndim - (1 if samples == 1 else 2)):]) if False else None
        for arr_ in (e, l):
            mem = arr_.reshape((-1, int(np.prod(arr_.shape[-nb:]))))
            if isinstance(dose, (list, tuple)) and len(set(dose)) > 1:
                continue          # members of different dose differ by expectation; the pairwise correlation above judges them
            for i in range(mem.shape[0]):
                for j in range(i + 1, mem.shape[0]):
                    if np.array_equal(mem[i], mem[j]):
                        ev["distinct_members"] = False
    except Exception as ex:
        ev["raised"] = True
        ev["exc"] = f"{type(ex).__name__}: {ex}"[:300]
    return ev


def tags_for(ev, clauses):
    return {"clauses": sorted(clauses), "seed_fixed": ev["seed_fixed"], "multi_block": ev["multi_block"], "typ": ev["typ"]}


def judge(ctx: Ctx, evs):
    res = ctx.validate("NoiseTrace", [[e] for e in evs], "NoiseTrace.cfg")
    for e, (ok, bad) in zip(evs, res):
        if not ok:
            cl = sorted(bad[0][1])
            # the known finding concerns exactly the chunk-dependence family of clauses for a fixed seed on several blocks
            family = {"lazy_differs_from_eager", "depends_on_chunking", "distinct_measurements_share_their_noise"}
            tg = tags_for(e, cl)
            tg["only_chunk_dependence_clauses"] = set(cl) <= family
            # a single-block case meets several blocks only in its chunking-independence comparison (against one member per block)
            tg["multi_block"] = bool(e["multi_block"] or (set(cl) == {"depends_on_chunking"} and e["case"]["M"] > 1))
            # the transform holds one seed (given, or drawn once when samples > 1) that every block re-uses
            tg["block_seed_shared"] = bool(e["seed_fixed"] or e["samples"] > 1)
            ctx.report(tg, {"event": e}, f"{e['typ']} {json.dumps(e['case'])} seed_fixed={e['seed_fixed']} samples={e['samples']}: {','.join(cl)} "
                       f"z=({e['z_mean_milli']},{e['z_var_milli']}) {e.get('exc', '')}")


def self_test(ctx: Ctx):
    g = {"raised": False, "counts_ok": True, "z_mean_milli": 500, "z_var_milli": -1200, "seed_fixed": True, "repro_ok": True, "lazy_eq_eager": True,
         "chunking_indep": True, "distinct_members": True, "eager_members_independent": True}
    res = ctx.validate("NoiseTrace", [[g], [dict(g, z_mean_milli=9000)], [dict(g, chunking_indep=False)], [dict(g, distinct_members=False)],
                                      [dict(g, counts_ok=False)], [dict(g, eager_members_independent=False)]], "NoiseTrace.cfg")
    if not res[0][0] or any(r[0] for r in res[1:]):
        raise Machinery(f"NoiseTrace self-test failed: {res}")
    ctx.notes["binding_selftest"] = {"good_accepted": True, "biased_mean_rejected": res[1][1], "chunk_dependence_rejected": res[2][1],
                                    "shared_noise_rejected": res[3][1], "fractional_counts_rejected": res[4][1], "correlated_members_of_one_block_rejected": res[5][1]}


def run(ctx: Ctx):
    quick = ctx.tier == "quick"
    ctx.rule = ("(ensemble size M <= 4, chunking = every composition of M) enumerated by TLC x measurement type (4) x seed (fixed, None) x "
                "samples (1, 3) x seed (None, 0, positive) x dose (two scalars, a series with a repeated entry, a series of two doses); every member has the same expectation so that shared noise is visible as bit-identical members; "
                "non-trivial = more than one member")
    ctx.design_check("NoiseImpl", cfg_text=CFG.format(m=4, single="TRUE", emit="FALSE", inv="INVARIANT SameAsEager\nINVARIANT MembersDistinct"),
                     label="NoiseImpl single block")
    r2 = ctx.design_check("NoiseImpl", cfg_text=CFG.format(m=4, single="FALSE", emit="FALSE", inv="INVARIANT SameAsEager\nINVARIANT MembersDistinct"),
                          label="NoiseImpl all chunkings (known finding: expected counterexample)", expect_ok=False)
    ctx.notes["tlc_counterexample_for_known_finding_C31"] = bool(r2.invariant_violated)
    r = ctx.design_check("NoiseImpl", cfg_text=CFG.format(m=4 if quick else 5, single="FALSE", emit="TRUE", inv="INVARIANT EmitCase"), label="case emission",
                         workers=1)
    self_test(ctx)
    cases = [json.loads(tlc.tla_value_to_py(s)[1]) for s in r.printed("CASE")]
    rng = random.Random(ctx.seed)
    evs = []
    for j, c in enumerate(cases):
        for k, typ in enumerate(TYPES if not quick else [TYPES[j % 4], TYPES[(j + 1) % 4]]):
            seed = [None, 0, 7 + j][(j + k) % 3]              # 0 is a seed like any other
            samples = 3 if (j + k) % 4 == 0 else 1
            dose = [50.0, 400.0, [120.0, 120.0, 400.0], [60.0, 300.0]][(j // 2 + k) % 4]
            evs.append(observe(c, typ, seed, samples, dose=dose))
            ctx.case((json.dumps(c), typ, seed, samples, json.dumps(dose)), nontrivial=c["M"] > 1 or isinstance(dose, list))
    ctx.exhaustive = True
    for e in evs[:1] + evs[-1:]:
        ctx.sample(e)
    judge(ctx, evs)


def replay(ctx: Ctx, case):
    e = case["event"]
    ev = observe(e["case"], e["typ"], (0 if e.get("seed_zero") else 7) if e["seed_fixed"] else None, e["samples"], [120.0, 120.0, 400.0] if e.get("dose_series") else 400.0)
    ctx.case("replay")
    ctx.sample(ev)
    judge(ctx, [ev])
