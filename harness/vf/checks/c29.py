"""C29  Array-object structural operations keep data and metadata aligned.

design  : TLC explores ArrayOpsModel: every history (depth <= 2/3) of index expressions, squeeze, expand_dims, reductions
          (incl. base axes), stack, concatenate and arithmetic over an object with an ordinal and a linear ensemble axis
inputs  : the emitted histories replayed on real Waves, Images, DiffractionPatterns, PolarMeasurements and
          RealSpaceLineProfiles, eager and lazy
verdict : ArrayOpsTrace: values == NumPy (harness comparison bit), one axis entry per dimension, axis metadata of the
          selected items (ordinal values, linear offset/sampling), item metadata, base axes refused
"""
from __future__ import annotations

import json
import random
from fractions import Fraction

import numpy as np

from ..core import Ctx, Machinery
from ..rat import rat
from .. import tlc

CFG = """SPECIFICATION Spec
CONSTANTS
  Depth = {d}
  Emit = {emit}
{props}
CHECK_DEADLOCK FALSE
"""
VAL_ID = {10.0: 1, 20.0: 2, 30.0: 3, 70.0: 7, "a": 201, "b": 202}
LAB_ID = {"thickness": 1, "x": 2, "stk": 9}
TYPES = ["Waves", "Images", "DiffractionPatterns", "PolarMeasurements", "RealSpaceLineProfiles", "MeasurementsEnsemble"]


def build(typ, init_axes, lazy, rich=False):
    """rich: the axes carry fields that are not at their defaults (another axis class with a direction, tex labels, endpoint)"""
    import abtem
    from abtem.core import axes as A
    axes = []
    shape = []
    for a in init_axes:
        if a["kind"] == "ordinal":
            vals = tuple({1: 10.0, 2: 20.0, 3: 30.0, 7: 70.0}[v] for v in a["vals"])
            if rich:
                axes.append(A.NonLinearAxis(label="thickness", values=vals, units="nm", tex_label="$t_y$", tex_units="nm.", _ensemble_mean=True))
            else:
                axes.append(A.ThicknessAxis(values=vals))
        elif rich:
            axes.append(A.ScanAxis(label="x", offset=float(Fraction(*a["off"])), sampling=float(Fraction(*a["samp"])), units="nm", endpoint=False,
                                   tex_label="$x_s$"))
        else:
            axes.append(A.ScanAxis(label="x", offset=float(Fraction(*a["off"])), sampling=float(Fraction(*a["samp"])), units="Å"))
        shape.append(a["n"])
    base = {"Waves": (4, 4), "Images": (4, 4), "DiffractionPatterns": (4, 4), "PolarMeasurements": (2, 4), "RealSpaceLineProfiles": (5,),
            "MeasurementsEnsemble": ()}[typ]
    full = tuple(shape) + base
    arr = (np.arange(int(np.prod(full)), dtype=np.float64).reshape(full) % 97) * 0.25 + 1.0
    if typ == "Waves":
        arr = (arr + 0.5j * arr[..., ::-1]).astype(np.complex64)
    else:
        arr = arr.astype(np.float32)
    if lazy:
        import dask.array as da
        arr = da.from_array(arr, chunks=(1,) * len(shape) + base)
    if typ == "Waves":
        return abtem.Waves(arr, energy=100e3, sampling=0.1, ensemble_axes_metadata=axes)
    if typ == "Images":
        return abtem.Images(arr, sampling=0.1, ensemble_axes_metadata=axes)
    if typ == "DiffractionPatterns":
        return abtem.measurements.DiffractionPatterns(arr, sampling=0.05, ensemble_axes_metadata=axes)
    if typ == "PolarMeasurements":
        return abtem.measurements.PolarMeasurements(arr, radial_sampling=1.0, azimuthal_sampling=np.pi / 2, ensemble_axes_metadata=axes)
    if typ == "MeasurementsEnsemble":
        return abtem.measurements.MeasurementsEnsemble(arr, ensemble_axes_metadata=axes)
    return abtem.measurements.RealSpaceLineProfiles(arr, sampling=0.1, ensemble_axes_metadata=axes)


def observe(obj, op, raised=False, numpy_equal=True):
    from abtem.core.axes import LinearAxis
    axes = []
    for a in obj.ensemble_axes_metadata:
        if hasattr(a, "values"):
            axes.append({"kind": "ordinal", "lab": LAB_ID.get(a.label, 0), "n": len(a.values), "vals": [VAL_ID.get(v, 0) for v in a.values],
                         "off": [0, 1], "samp": [1, 1]})
        elif isinstance(a, LinearAxis):
            axes.append({"kind": "linear", "lab": LAB_ID.get(a.label, 0), "n": -1, "vals": [], "off": rat(a.offset), "samp": rat(a.sampling)})
        else:
            axes.append({"kind": "plain", "lab": 0, "n": -1, "vals": [], "off": [0, 1], "samp": [1, 1]})
    ens = [int(s) for s in obj.ensemble_shape]
    for d, a in enumerate(axes):
        if a["n"] == -1:
            a["n"] = ens[d] if d < len(ens) else -1
    meta = [[LAB_ID[k], VAL_ID.get(v, 0)] for k, v in obj.metadata.items() if k in LAB_ID]
    return {"op": op, "raised": raised, "axes": axes, "meta": sorted(meta), "shape": ens, "numpy_equal": bool(numpy_equal), "operand_intact": True,
            "extras_kept": True}


def _extras(a):
    import dataclasses
    d = dataclasses.asdict(a)
    for k in ("values", "offset", "sampling"):
        d.pop(k, None)
    return type(a).__name__, json.dumps(d, sort_keys=True, default=repr)


def extras_kept(parent, child):
    """every axis of the result that continues an axis of the operand (same class, same label) carries the operand's other fields
    (units, tex labels, direction, endpoint, ensemble_mean flag, ...) unchanged"""
    before = {(type(a).__name__, a.label): _extras(a) for a in parent.ensemble_axes_metadata}
    for a in child.ensemble_axes_metadata:
        k = (type(a).__name__, a.label)
        if k in before and before[k] != _extras(a):
            return False
    return True


def _snapshot(obj):
    return (json.dumps(observe(obj, {"k": "snap"}), sort_keys=True), [_extras(a) for a in obj.ensemble_axes_metadata],
            json.dumps({k: repr(v) for k, v in obj.metadata.items()}, sort_keys=True))


def py_item(it):
    def o(x):
        return None if x == [] else x[0]
    t = it["t"]
    if t == "int":
        return int(it["i"])
    if t == "slice":
        return slice(o(it["start"]), o(it["stop"]), o(it["step"]))
    if t == "list":
        return list(it["idx"])
    if t == "mask":
        return np.array(it["mask"], dtype=bool)
    return None


def arr_of(obj):
    a = obj.array
    return np.asarray(a.compute(scheduler="synchronous") if hasattr(a, "compute") else a)


def close(a, b):
    if a.size == 0 and b.size == 0:
        return a.ndim == b.ndim          # empty selections: nothing to compare but the rank
    return a.shape == b.shape and np.allclose(a, b, rtol=1e-5, atol=1e-6, equal_nan=True)


def apply_op(obj, op):
    """returns (new_obj, numpy_expected)"""
    import abtem
    from abtem.core.axes import OrdinalAxis
    a0 = arr_of(obj)
    k = op["k"]
    nb = len(obj.base_shape)
    if k == "index":
        items = tuple(py_item(it) for it in op["items"])
        new = obj[items if len(items) > 1 else items[0]]
        return new, a0[items]
    if k == "squeeze":
        ens = obj.ensemble_shape
        return obj.squeeze(), np.squeeze(a0, axis=tuple(i for i, n in enumerate(ens) if n == 1))
    if k == "expand":
        return obj.expand_dims(axis=op["pos"]), np.expand_dims(a0, op["pos"])
    if k == "reduce":
        fn = op["fn"] if not (np.iscomplexobj(a0) and op["fn"] in ("max", "min")) else "sum"
        ax = op["axis"]
        kd = bool(op.get("keepdims", False))
        return getattr(obj, fn)(axis=ax, keepdims=kd), getattr(np, fn)(a0, axis=ax, keepdims=kd)
    if k == "stack":
        new = abtem.stack([obj, obj], axis_metadata=OrdinalAxis(label="stk", values=("a", "b")), axis=op["pos"])
        return new, np.stack([a0, a0], axis=op["pos"])
    if k == "concat":
        return abtem.concatenate([obj, obj], axis=op["axis"]), np.concatenate([a0, a0], axis=op["axis"])
    if k == "arith":
        other_np = {"scalar": 2.0, "array": (np.arange(a0.size).reshape(a0.shape) % 5 + 1.0).astype(a0.real.dtype), "self": a0}[op["other"]]
        other = obj if op["other"] == "self" else other_np
        fn = op["fn"]
        if fn == "add":
            return obj + other, a0 + other_np
        if fn == "sub":
            return obj - other, a0 - other_np
        if fn == "mul":
            return obj * other, a0 * other_np
        if fn == "truediv":
            return obj / other, a0 / other_np
        if fn == "pow":
            e = 2.0 if op["other"] != "scalar" else other
            return obj ** e, a0 ** e
        if fn == "rmul":
            return other * obj, other_np * a0
        if fn == "rtruediv":
            return other / obj, other_np / a0
    raise Machinery("unknown op " + json.dumps(op))


def reference_raises(obj, op):
    """does the corresponding NumPy (eager) / dask (lazy) operation on the bare array raise as well?"""
    class _Bare:
        pass
    try:
        a = obj.array
        k = op["k"]
        if k == "index":
            items = tuple(py_item(it) for it in op["items"])
            r = a[items]
        elif k == "reduce":
            fn = op["fn"] if not (np.iscomplexobj(np.zeros(1, a.dtype)) and op["fn"] in ("max", "min")) else "sum"
            r = getattr(a, fn)(axis=op["axis"], keepdims=bool(op.get("keepdims", False)))
        else:
            return False
        if hasattr(r, "compute"):
            r.compute(scheduler="synchronous")
        return False
    except Exception:
        return True


def replay_hist(typ, lazy, hist, rich=False):
    obj = build(typ, hist[0]["axes"], lazy, rich)
    trace = [observe(obj, {"k": "init"})]
    for step in hist[1:]:
        op = step["op"]
        if op["k"] == "arith" and op["other"] == "array" and op["fn"] in ("rmul", "rtruediv"):
            continue
        if op["k"] == "reduce" and op["axis"] < 0 and len(obj.base_shape) == 0:
            continue      # the model's "base axis" reduction: an object without base axes has none
        if int(np.prod(obj.shape)) == 0:
            break         # an empty selection: no values left to compare, NumPy and dask themselves disagree on reductions      # ndarray (op) object dispatches to NumPy's broadcasting over the object, not to abTEM
        try:
            snap, a_before = _snapshot(obj), arr_of(obj)
            new, expected = apply_op(obj, op)
            ok = close(arr_of(new), np.asarray(expected))
            rec = observe(new, op, False, ok)
            # the operand is still what it was (axes, metadata, values) - it can be used again
            rec["operand_intact"] = bool(_snapshot(obj) == snap and np.array_equal(arr_of(obj), a_before, equal_nan=True))
            rec["extras_kept"] = extras_kept(obj, new)
            trace.append(rec)
            obj = new
        except Machinery:
            raise
        except Exception as ex:
            if not step.get("raises") and reference_raises(obj, op):
                break       # NumPy / dask refuse the same operation on the bare array: nothing to compare
            rec = observe(obj, op, True, True)
            rec["exc"] = f"{type(ex).__name__}: {ex}"[:160]
            trace.append(rec)
            if not step.get("raises"):
                break
    return trace


def tags_for(t, bad):
    line, clauses = bad[0]
    op = t[line - 1]["op"]
    d = {"clauses": sorted(clauses), "op": op["k"], "typ": t[0].get("typ"), "lazy": t[0].get("lazy")}
    if op["k"] == "reduce":
        pre = t[line - 2]["axes"] if line >= 2 else []
        ax = op["axis"]
        d["keepdims_on_ordinal"] = bool(op.get("keepdims")) and 0 <= ax < len(pre) and pre[ax]["kind"] == "ordinal"
    if op["k"] == "arith":
        d["fn"] = op["fn"]
        d["other"] = op["other"]
    if op["k"] == "index":
        pre = t[line - 2]["axes"] if line >= 2 else []
        kinds = []
        j = 0
        for it in op["items"]:
            if it["t"] == "none":
                continue
            if j < len(pre):
                kinds.append(f"{pre[j]['kind']}:{it['t']}")
            j += 1
        d["item_kinds"] = sorted(set(kinds))
        d["linear_axis_sliced_from_nonzero_start_or_step"] = any(
            k.startswith("linear:slice") for k in kinds) and "axis_metadata_of_selected_items" in clauses
    return d


def judge(ctx: Ctx, traces):
    res = ctx.validate("ArrayOpsTrace", traces, "ArrayOpsTrace.cfg")
    for t, (ok, bad) in zip(traces, res):
        if not ok:
            tg = tags_for(t, bad)
            ev = t[bad[0][0] - 1]
            ctx.report(tg, {"typ": t[0].get("typ"), "lazy": t[0].get("lazy"), "rich": t[0].get("rich", False), "hist": [{"op": e["op"]} for e in t[1:]],
                            "init_axes": t[0]["axes"], "bad": bad, "observed": ev},
                       f"{t[0].get('typ')} lazy={t[0].get('lazy')} op={json.dumps(ev['op'])[:160]}: {','.join(tg['clauses'])} {ev.get('exc', '')}")


def self_test(ctx: Ctx):
    o = lambda lab, vals: {"kind": "ordinal", "lab": lab, "n": len(vals), "vals": vals, "off": [0, 1], "samp": [1, 1]}
    li = lambda n, off, samp: {"kind": "linear", "lab": 2, "n": n, "vals": [], "off": off, "samp": samp}
    init = {"op": {"k": "init"}, "raised": False, "axes": [o(1, [1, 2, 3]), li(4, [0, 1], [1, 2])], "meta": [], "shape": [3, 4], "numpy_equal": True, "operand_intact": True, "extras_kept": True}
    op = {"k": "index", "items": [{"t": "int", "i": -1}, {"t": "slice", "start": [1], "stop": [], "step": [2]}]}
    good = [init, {"op": op, "raised": False, "axes": [li(2, [1, 2], [1, 1])], "meta": [[1, 3]], "shape": [2], "numpy_equal": True, "operand_intact": True, "extras_kept": True}]
    c1 = json.loads(json.dumps(good)); c1[1]["axes"] = [li(2, [0, 1], [1, 2])]          # offset/sampling not carried
    c2 = json.loads(json.dumps(good)); c2[1]["meta"] = []                               # item metadata lost
    c3 = json.loads(json.dumps(good)); c3[1]["numpy_equal"] = False
    red = [init, {"op": {"k": "reduce", "fn": "sum", "axis": -1}, "raised": False, "axes": init["axes"], "meta": [], "shape": [3, 4], "numpy_equal": True, "operand_intact": True, "extras_kept": True}]
    c4 = json.loads(json.dumps(good)); c4[1]["operand_intact"] = False
    res = ctx.validate("ArrayOpsTrace", [good, c1, c2, c3, red, c4], "ArrayOpsTrace.cfg")
    if not res[0][0] or any(r[0] for r in res[1:]):
        raise Machinery(f"ArrayOpsTrace self-test failed: {res}")
    ctx.notes["binding_selftest"] = {"good_accepted": True, "linear_axis_not_carried_rejected": res[1][1], "item_metadata_lost_rejected": res[2][1],
                                    "numpy_mismatch_rejected": res[3][1], "base_axis_reduced_rejected": res[4][1]}


def run(ctx: Ctx):
    quick = ctx.tier == "quick"
    ctx.rule = ("histories of <= 2 (thorough 3) structural operations (index expressions incl. None/negative/step/list/mask and one "
                "index too many, squeeze, expand_dims, sum/mean/max over each ensemble axis and a base axis, stack, concatenate, "
                "arithmetic incl. reflected) on objects with an ordinal and a linear ensemble axis, all emitted by TLC; replayed on 5 "
                "object types eager and lazy; non-trivial = history changes shape or axes")
    ctx.design_check("ArrayOpsModel", cfg_text=CFG.format(d=2 if quick else 3, emit="FALSE", props="INVARIANT AxesWellFormed\nVIEW DesignView\n"),
                     label="ArrayOpsModel", timeout=3000)
    self_test(ctx)
    r = tlc.run_tlc("ArrayOpsModel", cfg_text=CFG.format(d=2, emit="TRUE", props="CONSTRAINT AtBound\n"), workers=1, timeout=3000)
    if r.error:
        raise Machinery("behaviour emission failed: " + r.error)
    beh = sorted({tlc.tla_value_to_py(s)[1] for s in r.printed("BEH")})
    ctx.notes["histories_from_tlc"] = len(beh)
    rng = random.Random(ctx.seed)
    rng.shuffle(beh)
    if quick:
        beh = beh[:1500]
    traces = []
    for j, js in enumerate(beh):
        hist = json.loads(js)
        typ = TYPES[j % len(TYPES)]
        lazy = (j // len(TYPES)) % 2 == 1
        rich = (j // (2 * len(TYPES))) % 2 == 1
        t = replay_hist(typ, lazy, hist, rich)
        t[0]["typ"], t[0]["lazy"], t[0]["rich"] = typ, lazy, rich
        traces.append(t)
        ctx.case((typ, lazy, js), nontrivial=len(t) > 1)
    for t in traces[:2]:
        ctx.sample(t)
    judge(ctx, traces)


def replay(ctx: Ctx, case):
    hist = [{"op": {"k": "init"}, "axes": case["init_axes"]}] + case["hist"]
    t = replay_hist(case["typ"], case["lazy"], hist, bool(case.get("rich")))
    t[0]["typ"], t[0]["lazy"], t[0]["rich"] = case["typ"], case["lazy"], bool(case.get("rich"))
    ctx.case("replay")
    ctx.sample(t)
    judge(ctx, [t])
