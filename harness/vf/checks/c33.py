"""C33  Unit conversions compose and invert.

design  : TLC checks UnitsImpl (factor table, alias normalisation, factor = table[new]/table[old], axis conversion as an
          accumulated factor) against the two laws of Units.tla for every path of <= 4 units within each category
inputs  : every path TLC enumerated, walked on the real get_conversion_factor and LinearAxis.convert_units
verdict : UnitsTrace: chained conversion == direct conversion (factor, sampling, offset), round trip == identity
"""
from __future__ import annotations

import json
import math
import random

import numpy as np

from ..core import Ctx, Machinery
from ..rat import ppb
from .. import tlc

CFG = """SPECIFICATION Spec
CONSTANTS
  MaxLen = {n}
  Emit = {emit}
INVARIANT PathIndependent
INVARIANT RoundTrip
{extra}
CHECK_DEADLOCK FALSE
"""


def rel(a, b):
    if a == b:
        return 0.0
    return abs(a - b) / max(abs(b), 1e-300)


def decode(f):
    """float factor -> (e, d) with f = 10^e * (180/pi)^d, or None"""
    if not (f > 0) or math.isinf(f):
        return None
    for d in (0, 1, -1):
        e = math.log10(f / (180.0 / math.pi) ** d)
        if abs(e - round(e)) < 1e-9:
            return [int(round(e)), d]
    return None


def walk(path, samples=((0.25, 0.0), (1.7, -3.2), (0.013, 40.0), (2, -10), (np.int64(3), np.int64(7))), energy=None):
    # the last two samples: samplings / offsets that happen to be integers (Python and NumPy) - same axes, other argument forms
    from abtem.core.units import get_conversion_factor
    from abtem.core.axes import LinearAxis

    kw = {} if energy is None else {"energy": energy}
    ev = {"path": list(path), "energy": energy is not None, "chain_raised": False, "direct_raised": False, "factor_ppb": 0, "sampling_ppb": 0,
          "offset_ppb": 0, "back_ppb": 0}
    chain_f = direct_f = None
    try:
        chain_f = 1.0
        for a, b in zip(path, path[1:]):
            chain_f *= get_conversion_factor(b, a, **kw)
        chain_axes = []
        for s, o in samples:
            ax = LinearAxis(label="x", sampling=s, offset=o, units=path[0])
            for b in path[1:]:
                ax = ax.convert_units(b, **kw)
            chain_axes.append(ax)
    except Exception as ex:
        ev["chain_raised"] = True
        ev["chain_exc"] = type(ex).__name__
    try:
        direct_f = get_conversion_factor(path[-1], path[0], **kw)
        direct_axes = [LinearAxis(label="x", sampling=s, offset=o, units=path[0]).convert_units(path[-1], **kw)
                       for s, o in samples]
    except Exception as ex:
        ev["direct_raised"] = True
        ev["direct_exc"] = type(ex).__name__
    if not ev["chain_raised"] and not ev["direct_raised"]:
        ev["factor_ppb"] = ppb(rel(chain_f, direct_f))
        ev["sampling_ppb"] = max(ppb(rel(c.sampling, d.sampling)) for c, d in zip(chain_axes, direct_axes))
        ev["offset_ppb"] = max(ppb(rel(c.offset, d.offset)) if d.offset != 0 or c.offset != 0 else 0
                               for c, d in zip(chain_axes, direct_axes))
        if path[-1] == path[0]:
            ev["back_ppb"] = max([ppb(rel(chain_f, 1.0))] + [ppb(rel(c.sampling, s)) for c, (s, o) in zip(chain_axes, samples)]
                                 + [ppb(rel(c.offset, o)) for c, (s, o) in zip(chain_axes, samples) if o != 0])
        ev["decoded_direct"] = decode(direct_f) or []
    return ev


def tags_for(ev, clauses):
    return {"clauses": sorted(clauses), "category_first": ev["path"][0], "energy_forwarded": ev.get("energy", False), "has_alias": any("Angstrom" in u for u in ev["path"]),
            "path_len": len(ev["path"])}


def judge(ctx: Ctx, evs):
    res = ctx.validate("UnitsTrace", [[e] for e in evs], "UnitsTrace.cfg")
    for e, (ok, bad) in zip(evs, res):
        if not ok:
            tg = tags_for(e, bad[0][1])
            ctx.report(tg, {"event": e}, f"path {'->'.join(e['path'])}: {','.join(tg['clauses'])} "
                       f"(factor dev {e['factor_ppb']} ppb, sampling dev {e['sampling_ppb']} ppb)")


def self_test(ctx: Ctx):
    # synthetic (never taken from the real code, so a broken abTEM cannot turn the self-test into a machinery failure)
    good = {"path": ["nm", "um", "Å"], "chain_raised": False, "direct_raised": False, "factor_ppb": 0, "sampling_ppb": 1,
            "offset_ppb": 0, "back_ppb": 0}
    c1 = dict(good, factor_ppb=5_000_000)
    c2 = dict(good, chain_raised=True)
    res = ctx.validate("UnitsTrace", [[good], [c1], [c2]], "UnitsTrace.cfg")
    if not res[0][0] or res[1][0] or res[2][0]:
        raise Machinery(f"UnitsTrace self-test failed: {res}")
    ctx.notes["binding_selftest"] = {"good_accepted": True, "corrupt_field_rejected": res[1][1],
                                    "raise_mismatch_rejected": res[2][1]}


def run(ctx: Ctx):
    quick = ctx.tier == "quick"
    n = 3 if quick else 4
    ctx.rule = (f"paths of 2..{n + 1} units within one category (real space, reciprocal space, angles; aliases Angstrom and "
                "1/Angstrom included), all enumerated by TLC from UnitsImpl; each path is walked with get_conversion_factor and "
                "with LinearAxis.convert_units for three (sampling, offset) pairs; non-trivial = path visits >= 2 different units")
    r = ctx.design_check("UnitsImpl", cfg_text=CFG.format(n=n, emit="TRUE", extra="INVARIANT EmitPath"),
                         label="UnitsImpl laws", workers=1)
    self_test(ctx)
    paths = {}
    for s in r.printed("PATH"):
        paths[tlc.tla_value_to_py(s)[1]] = None
    evs = []
    drift = 0
    model = {"Å": (0, 0), "Angstrom": (0, 0), "1/Å": (0, 0), "1/Angstrom": (0, 0), "mrad": (0, 0), "nm": (-1, 0),
             "um": (-4, 0), "mm": (-7, 0), "m": (-10, 0), "1/nm": (1, 0), "1/um": (4, 0), "1/mm": (7, 0), "1/m": (10, 0),
             "rad": (-3, 0), "deg": (-3, 1)}
    for js in paths:
        p = json.loads(js)
        ev = walk(p)
        evs.append(ev)
        ctx.case(js, nontrivial=len(set(p)) >= 2)
        # the same path with an (irrelevant within a category) energy forwarded, as the plotting code does
        ev_e = walk(p, energy=80e3)
        evs.append(ev_e)
        ctx.case(("energy", js), nontrivial=len(set(p)) >= 2)
        if not ev["chain_raised"] and not ev["direct_raised"]:
            exp = [model[p[-1]][0] - model[p[0]][0], model[p[-1]][1] - model[p[0]][1]]
            if ev["decoded_direct"] != exp:
                drift += 1
                if len(ctx.drift) < 10:
                    ctx.drift.append({"path": p, "model_factor_10^e_(180/pi)^d": exp, "code": ev["decoded_direct"]})
    ctx.notes["model_drift_count"] = drift
    ctx.exhaustive = True
    for e in evs[:2] + evs[-2:]:
        ctx.sample(e)
    judge(ctx, evs)


def replay(ctx: Ctx, case):
    ev = walk(case["event"]["path"], energy=80e3 if case["event"].get("energy") else None)
    ctx.case("replay")
    ctx.sample(ev)
    judge(ctx, [ev])
