"""C04  Wave propagation never creates intensity and vacuum propagation is reversible.

design  : TLC enumerates PropagationModel: potential kind x wave kind x tilt x propagator order x slicing, with the clauses
          (monotone / conserved / reversible) each scenario exercises
inputs  : every scenario run through the real Fourier-space multislice (eager, hook events) in single precision, a subset
          in double precision
verdict : MultisliceTrace: along the MsSlice events the total intensity never increases (C04 clause inside the run
          machine); vacuum + band-limited: final = initial; P(-dz) P(dz) = identity on band-limited waves
"""
from __future__ import annotations

import json
import random

import numpy as np

from ..core import Ctx, Machinery
from ..rat import ppb
from .. import tlc
from ..ms import Sink, relerr, arr
from .c07 import thicknesses, self_test

TILT = {"none": (0.0, 0.0), "pos": (5.0, 3.0), "neg": (-5.0, -3.0)}


def make_wave(kind, gpts, extent, tilt, rng, energy=100e3, band=0.55):
    import abtem
    g = np.random.default_rng(rng.randrange(1 << 30))
    if kind == "plane":
        return abtem.PlaneWave(energy=energy, extent=extent, gpts=gpts, tilt=tilt).build(lazy=False)
    if kind == "probe":
        return abtem.Probe(energy=energy, semiangle_cutoff=20, extent=extent, gpts=gpts, tilt=tilt).build(lazy=False)
    x = g.normal(size=gpts) + 1j * g.normal(size=gpts)
    if kind == "random_bandlimited":
        X = np.fft.fft2(x)
        kx = np.fft.fftfreq(gpts[0], extent[0] / gpts[0])
        ky = np.fft.fftfreq(gpts[1], extent[1] / gpts[1])
        k = np.sqrt(kx[:, None] ** 2 + ky[None, :] ** 2)
        kcut = min(np.abs(kx).max(), np.abs(ky).max()) * band       # 0.55: well inside the 2/3 antialias aperture (taper included)
        X[k > kcut] = 0
        x = np.fft.ifft2(X)
    from abtem.core.utils import get_dtype
    x = (x / np.sqrt((np.abs(x) ** 2).sum())).astype(get_dtype(complex=True))       # follows the precision the case runs under
    md = {"base_tilt_x": tilt[0], "base_tilt_y": tilt[1]}
    return abtem.Waves(x, energy=energy, extent=extent, metadata=md)


def make_potential(kind, n, unequal, gpts, extent, rng):
    import abtem
    th = thicknesses(n, unequal)
    g = np.random.default_rng(rng.randrange(1 << 30))
    if kind == "vacuum":
        a = np.zeros((n,) + gpts, dtype=np.float32)
    elif kind == "random_real":
        a = (30.0 * g.random(size=(n,) + gpts)).astype(np.float32)
    elif kind == "random_negative":
        a = (40.0 * g.normal(size=(n,) + gpts)).astype(np.float32)
    else:
        from ase import Atoms
        pos, sym, z = [], [], 0.0
        for i, t in enumerate(th):
            pos.append(((0.9 + 0.7 * i) % extent[0], (1.3 + 1.1 * i) % extent[1], z + 0.5 * t))
            sym.append(["Au", "Si", "C"][i % 3])
            z += t
        atoms = Atoms(sym, positions=pos, cell=(extent[0], extent[1], z), pbc=True)
        return abtem.Potential(atoms, gpts=gpts, slice_thickness=tuple(th), projection="infinite")
    return abtem.PotentialArray(a, slice_thickness=tuple(th), extent=extent)


WIDE = {"antialias.cutoff": 0.9, "antialias.taper": 0.02}      # a configured aperture wider than the shipped 2/3 (open below 0.86 Nyquist)


def run_case(c, rng, double=False, wide=False):
    import abtem
    from abtem.multislice import FourierMultislice, FresnelPropagator
    gpts, extent = (24, 20), ((6.0, 6.0) if (c["slices"] + c["order"]) % 2 else (6.0, 8.75))     # square and rectangular cells
    ev = {"e": "Result", "kind": "c04", "raised": False, "vacuum": c["pot"] == "vacuum", "band_limited": bool(c["conserved"] or c["reversible"]),
          "conserved_ppb": 0, "reverse_ppb": 0, "double": double, "reuse_gain_ppb": 0}
    sink = Sink()
    try:
        with abtem.config.set(dict({"precision": "float64" if double else "float32"}, **(WIDE if wide else {}))):
            # under the wide configuration the band-limited wave lives between the shipped and the configured aperture (0.8 Nyquist)
            wave = make_wave(c["wave"], gpts, extent, TILT[c["tilt"]], rng, band=0.8 if wide else 0.55)
            pot = make_potential(c["pot"], c["slices"], c["unequal"], gpts, extent, rng)
            with sink:
                out = wave.multislice(pot, algorithm=FourierMultislice(order=c["order"]))
            i0 = float((np.abs(arr(wave)) ** 2).sum())
            i1 = float((np.abs(arr(out)) ** 2).sum())
            ev["conserved_ppb"] = ppb(abs(i1 - i0) / i0)
            if c["reversible"] and c["pot"] == "vacuum":
                # the whole multislice run undone by the conjugate algorithm (every slice propagates by -dz), for waves in memory and for
                # waves backed by a dask array (the algorithm has to survive the trip into the tasks)
                for lazy in (False, True):
                    w0 = wave.copy().ensure_lazy() if lazy else wave.copy()
                    fwd = w0.multislice(pot, algorithm=FourierMultislice(order=c["order"]))
                    back = fwd.multislice(pot, algorithm=FourierMultislice(order=c["order"], conjugate=True))
                    ev["reverse_ppb"] = max(ev["reverse_ppb"], ppb(relerr(arr(back), arr(wave))))
                    i2 = float((np.abs(arr(fwd)) ** 2).sum())
                    ev["conserved_ppb"] = max(ev["conserved_ppb"], ppb(abs(i2 - i0) / i0))
            if c["reversible"]:
                p = FresnelPropagator()
                if c["unequal"]:
                    # the same propagator object used first for a wave of another energy on the same grid (no result may
                    # depend on what the object propagated before)
                    other = make_wave(c["wave"], gpts, extent, TILT[c["tilt"]], rng, energy=60e3)
                    p.propagate(other, thickness=3.7, order=c["order"])
                fwd = p.propagate(wave.copy(), thickness=3.7, order=c["order"])
                back = FresnelPropagator().propagate(fwd, thickness=-3.7, order=c["order"])
                ev["reverse_ppb"] = max(ev["reverse_ppb"], ppb(relerr(arr(back), arr(wave))))
                # one propagator object, two different waves of the same shape propagated in place one after the other
                q = FresnelPropagator()
                first = wave.copy()
                q.propagate(first, thickness=3.7, in_place=True, order=c["order"])
                faint = wave.copy()
                faint._array = (0.1 * np.roll(arr(wave), (3, -2), axis=(-2, -1))).astype(arr(wave).dtype)
                before = arr(faint).copy()
                q.propagate(faint, thickness=3.7, in_place=True, order=c["order"])
                i_before, i_after = float((np.abs(before) ** 2).sum()), float((np.abs(arr(faint)) ** 2).sum())
                ev["reuse_gain_ppb"] = ppb(max(i_after - i_before, 0.0) / i_before)
                back2 = FresnelPropagator().propagate(faint, thickness=-3.7, order=c["order"])
                ev["reverse_ppb"] = max(ev["reverse_ppb"], ppb(relerr(arr(back2), before)))
    except Exception as ex:
        ev["raised"] = True
        ev["exc"] = f"{type(ex).__name__}: {ex}"[:300]
    return sink.ms_events() + [ev]


def judge(ctx: Ctx, items):
    res = ctx.validate("MultisliceTrace", [t for _, t in items], "MultisliceTrace.cfg")
    for (meta, t), (ok, bad) in zip(items, res):
        if not ok:
            line, clauses = bad[0]
            ev = t[line - 1]
            tg = {"clauses": sorted(clauses), "event": ev["e"], "pot": meta["pot"], "wave": meta["wave"], "tilt": meta["tilt"], "order": meta["order"]}
            norms = [e["norm"] for e in t if e["e"] in ("MsBegin", "MsSlice")]
            ctx.report(tg, {"meta": meta, "bad": bad, "result": t[-1], "norms": norms},
                       f"{json.dumps(meta)[:220]}: line {line} {ev['e']}: {','.join(tg['clauses'])} norms={norms} "
                       f"conserved_ppb={t[-1].get('conserved_ppb')} reverse_ppb={t[-1].get('reverse_ppb')} {t[-1].get('exc', '')}")


def run(ctx: Ctx):
    quick = ctx.tier == "quick"
    ctx.rule = ("scenarios = potential (vacuum, atoms, random non-negative, random with negative values) x wave (plane, probe, random "
                "band-limited, random not band-limited) x tilt (none, +, -) x propagator order (1, 2) x slices 1..N x equal/unequal "
                "slicing, all enumerated by TLC; every scenario is run (single precision; every 4th and every second-order vacuum scenario also in double precision, held to 1e-7); "
                "non-trivial = every scenario")
    r = ctx.design_check("PropagationModel", cfg_text=open(tlc.SPEC_DIR + "/PropagationModel.cfg").read().replace("MaxSlices = 3", f"MaxSlices = {2 if quick else 5}"),
                         label="scenario enumeration", workers=1)
    self_test(ctx)
    cases = [json.loads(tlc.tla_value_to_py(s)[1]) for s in r.printed("CASE")]
    ctx.notes["scenarios"] = len(cases)
    rng = random.Random(ctx.seed)
    items = []
    for j, c in enumerate(cases):
        items.append((c, run_case(c, rng)))
        ctx.case(json.dumps(c, sort_keys=True))
        if j % 4 == 0 or (c["order"] == 2 and c["pot"] == "vacuum"):
            items.append((dict(c, double=True), run_case(c, rng, double=True)))
            ctx.case("f64:" + json.dumps(c, sort_keys=True))
        if c["wave"] == "random_bandlimited" and (j % 2 == 0 or c["pot"] == "vacuum"):
            items.append((dict(c, wide=True), run_case(c, rng, wide=True)))
            ctx.case("wide aperture:" + json.dumps(c, sort_keys=True))
    ctx.exhaustive = True
    for meta, t in items[:1] + items[-1:]:
        ctx.sample({"meta": meta, "trace": t})
    judge(ctx, items)


def replay(ctx: Ctx, case):
    m = case["meta"]
    t = run_case(m, random.Random(0), double=m.get("double", False), wide=m.get("wide", False))
    ctx.case("replay")
    ctx.sample({"meta": m, "trace": t})
    judge(ctx, [(m, t)])
