"""C20  Scan positions have the geometry their parameters describe.

design  : TLC enumerates ScanImpl (LineScan._adjust_gpts/_adjust_sampling, GridScan via Grid with endpoint) for every axis
          length x (gpts | sampling) x endpoint and checks that the resolved (gpts, sampling) make the generated positions
          satisfy Scan.tla; it also enumerates the probe-shift scenarios
inputs  : every enumerated axis case, realised as LineScans along 4 rational directions and as GridScans (pairs of axis
          cases) at several start points; probe builds at TLC's position classes
verdict : ScanTrace: positions = start + i*sampling*direction (exact rationals), last position, metadata, shape; probe at
          r == origin probe shifted by r (numpy reference Fourier shift / roll)
"""
from __future__ import annotations

import json
import random
from fractions import Fraction

import numpy as np

from ..core import Ctx, Machinery
from ..rat import rat, ppb
from .. import tlc

CFG = """SPECIFICATION Spec
CONSTANTS
  Lengths <- MC_Lengths
  SamplingSet <- MC_Samplings
  GptsSet = {gpts}
  Emit = TRUE
INVARIANT ResolvedOK
INVARIANT EmitCase
CHECK_DEADLOCK FALSE
"""
L32 = 1 << 10


import zlib
from ..routes import reroute
from ..forms import reform

def r32(x):
    return rat(x, L32)


def ex32(x):
    f = Fraction(float(x)).limit_denominator(L32)
    return abs(float(f) - float(x)) <= 2e-6 * max(1.0, abs(float(x)))


DIRS = [(Fraction(1), Fraction(0)), (Fraction(0), Fraction(1)), (Fraction(3, 5), Fraction(4, 5)), (Fraction(-4, 5), Fraction(3, 5))]
STARTS = [(Fraction(0), Fraction(0)), (Fraction(1, 2), Fraction(-3, 4)), (Fraction(5, 4), Fraction(2))]


def spec_kwargs(sp):
    return {"gpts": sp[1]} if sp[0] == "g" else {"sampling": float(Fraction(sp[1], sp[2]))}


def line_event(case, di, si):
    from abtem.scan import LineScan
    L = Fraction(*case["L"])
    u, st = DIRS[di], STARTS[si]
    end = (st[0] + L * u[0], st[1] + L * u[1])
    ev = {"k": "line", "case": case, "dir": di, "raised": False}
    fk = zlib.crc32(json.dumps(case, sort_keys=True, default=str).encode()) // 7 + di       # argument forms (NumPy scalars, lists, arrays, 0-d arrays): same values
    scan = LineScan(start=reform((float(st[0]), float(st[1])), fk), end=reform((float(end[0]), float(end[1])), fk + 1), endpoint=case["endpoint"],
                    **{k: reform(v, fk + 2) for k, v in spec_kwargs(case["spec"]).items()})
    scan, ev["route"] = reroute(scan, zlib.crc32(json.dumps(case, sort_keys=True, default=str).encode()) + di + 2 * si)   # through a copy / deepcopy / pickle
    pos = scan.get_positions()
    md = scan.ensemble_axes_metadata
    ok = all(ex32(v) for v in pos.ravel()) and ex32(scan.sampling)
    ev.update({"start": [rat(st[0]), rat(st[1])], "end": [rat(end[0]), rat(end[1])], "length": rat(L),
               "endpoint": [bool(scan.endpoint)], "gpts": [int(scan.gpts)], "shape": [int(s) for s in scan.shape],
               "sampling": [r32(scan.sampling)], "points": [[r32(p[0]), r32(p[1])] for p in pos],
               "meta": [{"offset": r32(md[0].offset), "sampling": r32(md[0].sampling)}]})
    return ev, ok


def line_history_events(h):
    """One TLC history of edits (ScanHist.tla) on ONE LineScan object; a line event after the creation and after every edit."""
    from abtem.scan import LineScan
    st = (Fraction(1, 4), Fraction(1, 2))
    L = Fraction(*h[0]["L"])
    scan = LineScan(start=(float(st[0]), float(st[1])), end=(float(st[0] + L), float(st[1])), gpts=h[0]["gpts"], endpoint=h[0]["endpoint"])
    out = []
    for i, step in enumerate(h):
        try:
            if step["a"] == "SetLength":
                L = Fraction(*step["v"])
                scan.end = (float(st[0] + L), float(st[1]))
            elif step["a"] == "SetSampling":
                scan.sampling = float(Fraction(*step["v"]))
            elif step["a"] == "SetGpts":
                scan.gpts = int(step["v"])
        except AttributeError:
            return out          # the edit is not offered by this version of the API: the rest of the history is not applicable
        pos = scan.get_positions()
        md = scan.ensemble_axes_metadata
        ok = all(ex32(v) for v in pos.ravel()) and ex32(scan.sampling)
        end = (st[0] + L, st[1])
        ev = {"k": "line", "case": {"history": h[: i + 1]}, "dir": 0, "raised": False, "start": [rat(st[0]), rat(st[1])], "end": [rat(end[0]), rat(end[1])],
              "length": rat(L), "endpoint": [bool(scan.endpoint)], "gpts": [int(scan.gpts)], "shape": [int(s) for s in scan.shape],
              "sampling": [r32(scan.sampling)], "points": [[r32(p[0]), r32(p[1])] for p in pos],
              "meta": [{"offset": r32(md[0].offset), "sampling": r32(md[0].sampling)}]}
        out.append((ev, ok))
    return out


def assemble_blocks(scan, chunks, lazy):
    """positions of a scan as it is actually consumed: split into blocks (lazy: ensemble_blocks().compute(), eager:
    generate_blocks()), each block's get_positions() placed at its slice"""
    from abtem.core.chunks import chunk_ranges, validate_chunks
    vch = scan._validate_ensemble_chunks(chunks)
    ranges = chunk_ranges(vch)
    shape = tuple(sum(c) for c in vch)
    full = np.full(shape + (2,), np.nan, dtype=np.float64)
    if lazy:
        arr = scan.ensemble_blocks(vch).compute(scheduler="synchronous")
        it = ((idx, arr[idx]) for idx in np.ndindex(arr.shape))
    else:
        it = ((idx, blk.item() if hasattr(blk, "item") else blk) for idx, _, blk in scan.generate_blocks(vch))
    for idx, blk in it:
        if isinstance(blk, np.ndarray):
            blk = blk.item()
        sl = tuple(slice(*ranges[d][i]) for d, i in enumerate(idx))
        pos = np.asarray(blk.get_positions(), dtype=np.float64)
        full[sl] = pos.reshape(full[sl].shape)
    return full


def grid_event(cx, cy, si, blocks=None, late=False):
    """late: the scan is created from its corners and end-point flags only; gpts / sampling are assigned afterwards through the setters
    (what matching a scan to a probe does)"""
    from abtem.scan import GridScan
    st = STARTS[si]
    Lx, Ly = Fraction(*cx["L"]), Fraction(*cy["L"])
    end = (st[0] + Lx, st[1] + Ly)
    kw = {}
    if cx["spec"][0] == "g" and cy["spec"][0] == "g":
        kw["gpts"] = (cx["spec"][1], cy["spec"][1])
    elif cx["spec"][0] == "s" and cy["spec"][0] == "s":
        kw["sampling"] = (float(Fraction(cx["spec"][1], cx["spec"][2])), float(Fraction(cy["spec"][1], cy["spec"][2])))
    else:
        return None, False
    fk = zlib.crc32(json.dumps([cx, cy], sort_keys=True, default=str).encode()) // 7
    if late:
        scan = GridScan(start=(float(st[0]), float(st[1])), end=(float(end[0]), float(end[1])), endpoint=(cx["endpoint"], cy["endpoint"]))
        for k, v in kw.items():
            setattr(scan, k, v)
    else:
        scan = GridScan(start=reform((float(st[0]), float(st[1])), fk), end=reform((float(end[0]), float(end[1])), fk + 1),
                        endpoint=(cx["endpoint"], cy["endpoint"]), **{k: reform(v, fk + 2) for k, v in kw.items()})
    scan, _route = reroute(scan, zlib.crc32(json.dumps([cx, cy], sort_keys=True, default=str).encode()))
    pos = scan.get_positions() if blocks is None else assemble_blocks(scan, blocks[0], blocks[1])
    md = scan.ensemble_axes_metadata
    xs, ys = pos[:, 0, 0], pos[0, :, 1]
    product_ok = bool(np.array_equal(pos[..., 0], np.broadcast_to(xs[:, None], pos.shape[:2]))
                      and np.array_equal(pos[..., 1], np.broadcast_to(ys[None, :], pos.shape[:2])))
    ok = all(ex32(v) for v in list(xs) + list(ys)) and all(ex32(s) for s in scan.sampling)
    ev = {"k": "grid", "case": [cx, cy], "start": [rat(st[0]), rat(st[1])], "end": [rat(end[0]), rat(end[1])],
          "endpoint": [bool(e) for e in scan.endpoint], "gpts": [int(g) for g in scan.gpts],
          "shape": [int(s) for s in scan.shape], "sampling": [r32(s) for s in scan.sampling],
          "axes": [[r32(v) for v in xs], [r32(v) for v in ys]], "product_ok": product_ok,
          "meta": [{"offset": r32(m.offset), "sampling": r32(m.sampling)} for m in md], "raised": False,
          "blocks": None if blocks is None else [list(blocks[0]), blocks[1]], "late": bool(late)}
    return ev, ok


def positions_for(pc, extent, gpts, rng):
    sx, sy = extent[0] / gpts[0], extent[1] / gpts[1]
    if pc == "origin":
        return [(0.0, 0.0)]
    if pc == "on_pixel":
        return [(3 * sx, 2 * sy)]
    if pc == "half_pixel":
        return [(2.5 * sx, 1.5 * sy)]
    if pc == "generic":
        return [(0.37 * extent[0], 0.61 * extent[1])]
    if pc == "negative":
        return [(-0.3 * extent[0] - 0.11, -1.25 * sy)]
    if pc == "beyond_extent":
        return [(1.2 * extent[0] + 0.07, extent[1] + 2 * sy)]
    return [(0.0, 0.0), (sx, 0.0), (0.0, 1.5 * sy), (-0.4, extent[1] * 1.1)]


def probe_event(c, rng):
    import abtem
    gpts, extent = tuple(c["gpts"]), tuple(float(x) for x in c["extent"])
    pos = positions_for(c["pos"], extent, gpts, rng)
    ev = {"k": "probe", "case": c, "positions": [[repr(a), repr(b)] for a, b in pos], "raised": False, "err_ppb": 0}
    try:
        probe = abtem.Probe(energy=100e3, semiangle_cutoff=25, extent=extent, gpts=gpts, C30=-2e4, defocus=30)
        ref0 = np.asarray(probe.build(scan=abtem.CustomScan(np.array([[0.0, 0.0]])), lazy=False).array)[0].astype(np.complex128)
        got = np.asarray(probe.build(scan=abtem.CustomScan(np.array(pos)), lazy=False).array)
        kx = np.fft.fftfreq(gpts[0], extent[0] / gpts[0])
        ky = np.fft.fftfreq(gpts[1], extent[1] / gpts[1])
        F0 = np.fft.fft2(ref0)
        worst = 0.0
        for i, (x, y) in enumerate(pos):
            shifted = np.fft.ifft2(F0 * np.exp(-2j * np.pi * (kx[:, None] * x + ky[None, :] * y)))
            err = np.abs(got[i] - shifted).max() / np.abs(ref0).max()
            worst = max(worst, float(err))
            nx, ny = x / (extent[0] / gpts[0]), y / (extent[1] / gpts[1])
            if abs(nx - round(nx)) < 1e-9 and abs(ny - round(ny)) < 1e-9:
                rolled = np.roll(ref0, (int(round(nx)), int(round(ny))), axis=(0, 1))
                worst = max(worst, float(np.abs(got[i] - rolled).max() / np.abs(ref0).max()))
        ev["err_ppb"] = ppb(worst)
    except Exception as ex:
        ev["raised"] = True
        ev["exc"] = f"{type(ex).__name__}: {ex}"[:200]
    return ev


def tags_for(ev, clauses):
    t = {"clauses": sorted(clauses), "k": ev["k"]}
    if ev["k"] == "probe":
        t["pos_class"] = ev["case"]["pos"]
    else:
        t["endpoint"] = ev["endpoint"]
        t["blockwise"] = bool(ev.get("blocks"))
        t["single_point_endpoint"] = any(e and g == 1 for e, g in zip(ev["endpoint"], ev["gpts"]))
    return t


def judge(ctx: Ctx, evs):
    res = ctx.validate("ScanTrace", [[e] for e in evs], "ScanTrace.cfg")
    for e, (ok, bad) in zip(evs, res):
        if not ok:
            tg = tags_for(e, bad[0][1])
            ctx.report(tg, {"event": e}, f"{e['k']} scan: {','.join(tg['clauses'])}: {json.dumps(e.get('case'))[:200]}")


def self_test(ctx: Ctx):
    q = lambda a, b=1: [a, b]
    good = {"k": "grid", "start": [q(0), q(1, 2)], "end": [q(2), q(2)], "endpoint": [False, True], "gpts": [4, 3], "shape": [4, 3],
            "sampling": [q(1, 2), q(3, 4)], "axes": [[q(0), q(1, 2), q(1), q(3, 2)], [q(1, 2), q(5, 4), q(2)]], "product_ok": True,
            "meta": [{"offset": q(0), "sampling": q(1, 2)}, {"offset": q(1, 2), "sampling": q(3, 4)}]}
    c1 = json.loads(json.dumps(good)); c1["axes"][0][2] = q(5, 4)
    c2 = json.loads(json.dumps(good)); c2["meta"][1]["offset"] = q(0)
    line = {"k": "line", "start": [q(0), q(0)], "end": [q(3), q(4)], "length": q(5), "endpoint": [True], "gpts": [3], "shape": [3],
            "sampling": [q(5, 2)], "points": [[q(0), q(0)], [q(3, 2), q(2)], [q(3), q(4)]], "meta": [{"offset": q(0), "sampling": q(5, 2)}]}
    l1 = json.loads(json.dumps(line)); l1["points"] = l1["points"][:2]
    pr = {"k": "probe", "raised": False, "err_ppb": 900000}
    res = ctx.validate("ScanTrace", [[good], [c1], [c2], [line], [l1], [pr]], "ScanTrace.cfg")
    if not (res[0][0] and res[3][0]) or res[1][0] or res[2][0] or res[4][0] or res[5][0]:
        raise Machinery(f"ScanTrace self-test failed: {res}")
    ctx.notes["binding_selftest"] = {"good_accepted": True, "corrupt_position_rejected": res[1][1], "corrupt_metadata_rejected": res[2][1],
                                    "missing_position_rejected": res[4][1], "shifted_probe_mismatch_rejected": res[5][1]}


def run(ctx: Ctx):
    quick = ctx.tier == "quick"
    ctx.rule = ("axis cases (length x gpts|sampling x endpoint) enumerated by TLC from ScanImpl, realised as LineScans along 4 "
                "rational directions / 3 start points and as GridScans from pairs of axis cases; histories of edits (end point, sampling, gpts) on one LineScan object from ScanHist.tla; probe-shift scenarios (grid "
                "parity x extent x position class) enumerated by TLC; distinct = distinct (case, direction/start); "
                "non-trivial = more than one position")
    ctx.assumptions += ["positions are stored as float32: rationals with denominator <= 1024 are recovered exactly (cases whose "
                        "values are not such rationals are skipped and counted)"]
    r = ctx.design_check("MCScan", cfg_text=CFG.format(gpts="{1, 2, 3, 4, 5, 6}" if quick else "{1, 2, 3, 4, 5, 6, 7, 9, 12}"),
                         label="ScanImpl=>Scan", workers=1)
    self_test(ctx)
    cases = [json.loads(tlc.tla_value_to_py(s)[1]) for s in r.printed("CASE")]
    lines = [c for c in cases if c["c"]["kind"] == "line"]
    grids = [c for c in cases if c["c"]["kind"] == "grid"]
    probes = [c["c"] for c in cases if c["c"]["kind"] == "probe"]
    evs, skipped, drift = [], 0, 0
    rng = random.Random(ctx.seed)
    for j, m in enumerate(lines):
        for di in range(4) if not quick else [j % 4, (j + 1) % 4]:
            ev, ok = line_event(m["c"], di, (j + di) % 3)
            if not ok:
                skipped += 1
                continue
            evs.append(ev)
            ctx.case(("line", json.dumps(m["c"]), di), nontrivial=ev["gpts"][0] > 1)
            if ev["gpts"][0] != m["gpts"] or Fraction(*ev["sampling"][0]) != Fraction(*m["sampling"]):
                drift += 1
                if len(ctx.drift) < 10:
                    ctx.drift.append({"case": m["c"], "model": [m["gpts"], m["sampling"]], "code": [ev["gpts"], ev["sampling"]]})
    pairs = [(a, b) for a in grids for b in grids if a["c"]["spec"][0] == b["c"]["spec"][0]]
    rng.shuffle(pairs)
    for j, (a, b) in enumerate(pairs[: (500 if quick else 12000)]):
        try:
            ev, ok = grid_event(a["c"], b["c"], j % 3, late=(j % 4 == 1))
        except AttributeError:          # assigning after construction is not offered by this version of the API
            ev, ok = grid_event(a["c"], b["c"], j % 3)
        if ev is None:
            continue
        if not ok:
            skipped += 1
            continue
        evs.append(ev)
        ctx.case(("grid", json.dumps([a["c"], b["c"]]), j % 3), nontrivial=ev["gpts"][0] * ev["gpts"][1] > 1)
        if ev["gpts"] != [a["gpts"], b["gpts"]]:
            drift += 1
            if len(ctx.drift) < 10:
                ctx.drift.append({"case": [a["c"], b["c"]], "model": [a["gpts"], b["gpts"]], "code": ev["gpts"]})
        # the same scan as it is consumed block-wise (lazy and eager partitioning)
        if j % 3 == 0 and ev["gpts"][0] * ev["gpts"][1] > 1:
            ch = (rng.choice([1, 2, 3]), rng.choice([1, 2, 3]))
            for lazy in (True, False):
                evb, okb = grid_event(a["c"], b["c"], j % 3, blocks=(ch, lazy), late=(j % 12 == 9))
                if okb:
                    evs.append(evb)
                    ctx.case(("grid-blocks", json.dumps([a["c"], b["c"]]), ch, lazy))
    # histories of edits on one LineScan object
    hcfg = ("SPECIFICATION Spec\nCONSTANTS\n  Lengths <- MC_Lengths\n  SamplingSet <- MC_Samplings\n  GptsSet = {1, 2, 3, 5}\n  MaxLen = %d\n  Emit = TRUE\n"
            "  SkipWhenGptsUnchanged = FALSE\nINVARIANT GeometryAfterEveryEdit\nINVARIANT EmitHistory\nCHECK_DEADLOCK FALSE\n" % (3 if quick else 4))
    rh = ctx.design_check("MCScanHist", cfg_text=hcfg, label="ScanHist: geometry after every edit", workers=1, timeout=3000)
    hists = [json.loads(tlc.tla_value_to_py(s)[1]) for s in rh.printed("HIST")]
    hists.sort(key=lambda h: json.dumps(h, sort_keys=True))
    rng.shuffle(hists)
    if quick:
        seen, first, rest = set(), [], []
        for h in hists:
            k = (tuple(st["a"] for st in h), h[0]["endpoint"])
            (rest if k in seen else first).append(h)
            seen.add(k)
        hists = first + rest[:400]
    nh = 0
    for h in hists:
        for ev, ok in line_history_events(h)[1:]:
            if ok:
                evs.append(ev)
        nh += 1
        ctx.case(("line-history", json.dumps(h, sort_keys=True)))
    ctx.notes["line_histories"] = nh
    for c in probes:
        ev = probe_event(c, rng)
        evs.append(ev)
        ctx.case(("probe", json.dumps(c)), nontrivial=c["pos"] != "origin")
    ctx.notes["inexact_cases_skipped"] = skipped
    ctx.notes["model_drift_count"] = drift
    ctx.notes["probe_scenarios"] = len(probes)
    for e in evs[:1] + [x for x in evs if x["k"] == "grid"][:1] + evs[-1:]:
        ctx.sample(e)
    judge(ctx, evs)


def replay(ctx: Ctx, case):
    ev = case["event"]
    rng = random.Random(0)
    if ev["k"] == "line":
        new, _ = line_event(ev["case"], ev["dir"], 0)
    elif ev["k"] == "grid":
        b = ev.get("blocks")
        new, _ = grid_event(ev["case"][0], ev["case"][1], 0, blocks=None if not b else (tuple(b[0]), b[1]), late=bool(ev.get("late")))
    else:
        new = probe_event(ev["case"], rng)
    ctx.case("replay")
    ctx.sample(new)
    judge(ctx, [new])
