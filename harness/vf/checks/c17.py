"""C17  Simulation grids stay consistent through any history of edits.

design  : TLC checks GridImpl (transcription of the setters) => Grid (property-level step relation)
inputs  : histories emitted by TLC from GridImpl (exhaustive small alphabet + -simulate large alphabet)
          plus seeded random 1-D/2-D histories with mixed endpoint flags and tuple arguments
verdict : GridTrace (property-level) on the states recorded from the real abtem.core.grid.Grid
"""
from __future__ import annotations

import json
import random
import warnings
from fractions import Fraction

from ..core import Ctx, Machinery
from ..rat import rat, exact
from .. import tlc

CFG = """SPECIFICATION Spec
CONSTANTS
  Extents <- {E}
  Gpts <- {G}
  Samplings <- {S}
  Depth = {D}
  Emit = {EMIT}
{PROPS}
CHECK_DEADLOCK FALSE
"""


def cfg(big, depth, emit, props=True, view=False):
    sfx = "" if big else "S"
    p = "INVARIANT InitOK\nPROPERTY StepOK\n" if props else ""
    if emit:
        p += "CONSTRAINT AtBound\n"
    if view:
        p += "VIEW DesignView\n"
    return CFG.format(E="MC_Extents" + sfx, G="MC_Gpts" + sfx, S="MC_Samplings" + sfx, D=depth,
                      EMIT="TRUE" if emit else "FALSE", PROPS=p)


# ----------------------------------------------------------------------------- real code driver
def _val(x):
    return None if x == [] else float(Fraction(x[0], x[1]))


def _project(grid, raised, name=None, flags=None):
    ok = True

    def rl(t):
        nonlocal ok
        if t is None:
            return []
        out = []
        for v in t:
            if not exact(v):
                ok = False
            out.append(rat(v))
        return out

    try:
        r = grid.reciprocal_space_sampling if (grid.extent is not None and grid.gpts is not None
                                               and grid.sampling is not None
                                               and all(s != 0 for s in grid.sampling)
                                               and all(g != 0 for g in grid.gpts)) else None
    except Exception:
        r = None
    rec = {"a": name, "raised": bool(raised), "e": rl(grid.extent),
           "g": [] if grid.gpts is None else [int(v) for v in grid.gpts], "s": rl(grid.sampling), "r": rl(r)}
    if flags:
        rec.update(flags)
    return rec, ok


def run_history(hist, dims=1, forms=0):
    """hist[0] = constructor arguments; the rest = calls.  Values are Fractions / ints / None per dimension
    (a scalar is broadcast by the class itself).  Returns (trace, exact_flag) or None if the constructor raises.
    forms != 0: every numeric argument is handed over in another form (NumPy scalar, 0-d array, list for tuple, ndarray) - same value."""
    from abtem.core.grid import Grid
    from ..forms import reform

    h0 = hist[0]
    forms = forms or int(h0.get("forms", 0))
    fm = (lambda v, i: reform(v, forms + i)) if forms else (lambda v, i: v)
    kw = dict(extent=fm(h0["e"], 0), gpts=fm(h0["g"], 1), sampling=fm(h0["s"], 2), dimensions=dims, endpoint=h0["endp"],
              lock_extent=h0["lockE"], lock_gpts=h0["lockG"], lock_sampling=h0["lockS"])
    with warnings.catch_warnings():
        warnings.simplefilter("ignore")
        try:
            grid = Grid(**kw)
        except Exception:
            return None
        endp = list(grid.endpoint)
        flags = {"lockE": bool(h0["lockE"]), "lockG": bool(h0["lockG"]), "lockS": bool(h0["lockS"]), "endp": endp}
        rec, ok = _project(grid, False, "Init", flags)
        trace = [rec]
        for n_step, step in enumerate(hist[1:]):
            raised = False
            try:
                if step["a"] == "SetExtent":
                    grid.extent = fm(step["arg"], 3 + n_step)
                elif step["a"] == "SetExtentNone":
                    grid.extent = None
                elif step["a"] == "SetGpts":
                    grid.gpts = fm(step["arg"], 3 + n_step)
                elif step["a"] == "SetSampling":
                    grid.sampling = fm(step["arg"], 3 + n_step)
                elif step["a"] == "Copy":
                    from ..routes import reroute
                    grid = reroute(grid, int(step["arg"]))[0]
                elif step["a"] == "Match":
                    grid.match(Grid(extent=step["arg"][0], gpts=step["arg"][1], dimensions=dims, endpoint=False))
                else:
                    raise Machinery("unknown action " + step["a"])
            except Machinery:
                raise
            except Exception:
                raised = True
            rec, ok1 = _project(grid, raised, step["a"])
            ok = ok and ok1
            trace.append(rec)
    return trace, ok


def hist_from_tlc(h):
    """TLC history (1-D, rationals as [n,d], gpts boxed) -> python arguments"""
    def r(x):
        return None if x == [] else float(Fraction(x[0], x[1]))
    out = [{"e": r(h[0]["e"]), "g": None if h[0]["g"] == [] else h[0]["g"][0], "s": r(h[0]["s"]),
            "endp": h[0]["endp"], "lockE": h[0]["lockE"], "lockG": h[0]["lockG"], "lockS": h[0]["lockS"]}]
    for st in h[1:]:
        a = st["a"]
        if a == "SetGpts":
            out.append({"a": a, "arg": st["arg"][0]})
        elif a == "SetExtentNone":
            out.append({"a": a, "arg": None})
        else:
            out.append({"a": a, "arg": r(st["arg"])})
    return out


def fuzz_history(rng: random.Random, maxlen=6):
    dims = rng.choice([1, 2, 2])
    dens = [1, 2, 4, 5, 8, 10, 3]

    def rv(lo, hi):
        d = rng.choice(dens)
        return float(Fraction(rng.randint(max(1, int(lo * d)), int(hi * d)), d))

    def per_dim(f):
        if dims == 1 or rng.random() < 0.3:
            return f()
        return tuple(f() for _ in range(dims))

    def opt(f, p=0.35):
        return None if rng.random() < p else per_dim(f)

    endp = rng.choice([False, False, True]) if rng.random() < 0.6 else tuple(rng.choice([False, True]) for _ in range(dims))
    h = [{"e": opt(lambda: rv(1, 20)), "g": opt(lambda: rng.randint(2, 24)), "s": opt(lambda: rv(0.1, 2)),
          "endp": endp, "lockE": rng.random() < 0.25, "lockG": rng.random() < 0.25, "lockS": rng.random() < 0.25}]
    for _ in range(rng.randint(1, maxlen)):
        a = rng.choice(["SetExtent", "SetGpts", "SetSampling", "SetExtent", "SetGpts", "SetSampling", "SetExtentNone", "Copy", "Match"])
        if a == "Copy":
            # the grid is replaced by a copy / deepcopy / pickle round trip of itself: nothing changes, the locks stay
            h.append({"a": a, "arg": rng.randint(1, 3)})
        elif a == "Match":
            # grid.match(other) with a fully defined grid without end points (a wave function / potential grid)
            g = per_dim(lambda: rng.randint(2, 24))
            h.append({"a": a, "arg": [per_dim(lambda: rv(1, 20)), g]})
        elif a == "SetExtent":
            h.append({"a": a, "arg": per_dim(lambda: rv(1, 20))})
        elif a == "SetGpts":
            h.append({"a": a, "arg": per_dim(lambda: rng.randint(1, 24))})
        elif a == "SetSampling":
            h.append({"a": a, "arg": per_dim(lambda: rv(0.1, 2))})
        else:
            h.append({"a": a, "arg": None})
    return h, dims


# ----------------------------------------------------------------------------- verdict classification
def tags_for(trace, line, clauses):
    ev = trace[line - 1]
    init = trace[0]
    pre = trace[line - 2] if line >= 2 else None
    degenerate = any(e and g == 1 for e, g in zip(init["endp"], ev["g"] or []))
    zero_gpts = any(g <= 0 for g in (ev["g"] or []))
    return {"clauses": sorted(clauses), "action": ev["a"], "raised": ev["raised"],
            "lockE": init["lockE"], "lockG": init["lockG"], "lockS": init["lockS"],
            "endpoint_single_point": degenerate, "nonpositive_gpts": zero_gpts}


def _judge(ctx: Ctx, items):
    """items: list of (history, dims, trace).  Validate all traces, report rejected ones."""
    traces = [t for _, _, t in items]
    if not traces:
        return
    res = ctx.validate("GridTrace", traces, "GridTrace.cfg")
    for (h, dims, t), (ok, bad) in zip(items, res):
        if ok:
            continue
        line, clauses = bad[0]
        tg = tags_for(t, line, clauses)
        ctx.report(tg, {"history": h, "dims": dims, "trace": t, "bad": bad},
                   f"{tg['action']} breaks {','.join(tg['clauses'])} at line {line}")


def self_test(ctx: Ctx):
    """Binding demonstration: a good trace is accepted; corrupting one recorded field, or dropping one recorded
    step's state change, makes GridTrace reject it."""
    # synthetic trace (independent of the real code): Grid(extent=4, sampling=1/2, lock_gpts) ; extent=5 ; sampling=1/4
    fl = {"lockE": False, "lockG": True, "lockS": False, "endp": [False]}
    t = [dict({"a": "Init", "raised": False, "e": [[4, 1]], "g": [8], "s": [[1, 2]], "r": [[1, 4]]}, **fl),
         {"a": "SetExtent", "raised": False, "e": [[5, 1]], "g": [8], "s": [[5, 8]], "r": [[1, 5]]},
         {"a": "SetSampling", "raised": False, "e": [[2, 1]], "g": [8], "s": [[1, 4]], "r": [[1, 2]]}]
    good = json.loads(json.dumps(t))
    c1 = json.loads(json.dumps(t))
    c1[1]["s"] = [[1, 3]]                      # corrupted field: sampling no longer extent/gpts
    c2 = json.loads(json.dumps(t))
    c2[2]["g"] = [c2[2]["g"][0] + 1]           # a locked gpts that changed
    res = ctx.validate("GridTrace", [good, c1, c2], "GridTrace.cfg")
    if not res[0][0] or res[1][0] or res[2][0]:
        raise Machinery(f"GridTrace self-test failed: {res}")
    ctx.notes["binding_selftest"] = {"good_accepted": True, "corrupt_field_rejected": res[1][1],
                                    "changed_locked_gpts_rejected": res[2][1]}


ACCEL_CFG = """SPECIFICATION Spec
CONSTANTS
  Energies = {{60, 100}}
  MaxLen = {n}
  Emit = TRUE
INVARIANT MachineOK
INVARIANT EmitHistory
CHECK_DEADLOCK FALSE
"""


def accelerator_growth(ctx: Ctx, quick: bool):
    """Growth beyond the listed properties: the Accelerator energy / lock / match machine (Accelerator.tla), the sibling of Grid that
    every wave and transfer object carries.  Histories from TLC are replayed on the real class; a state or outcome that differs
    from the model is reported as drift only."""
    from abtem.core.energy import Accelerator
    r = ctx.design_check("Accelerator", cfg_text=ACCEL_CFG.format(n=3 if quick else 4), label="Accelerator: locks kept, raising calls change nothing, match agrees",
                         workers=1, timeout=1500)
    hists = [json.loads(tlc.tla_value_to_py(s)[1]) for s in r.printed("HIST")]
    differ = 0
    val = lambda v: None if v == 0 else float(v) * 1e3
    for h in hists:
        objs = {"a": Accelerator(energy=val(h[0]["ea"]), lock_energy=h[0]["la"]), "b": Accelerator(energy=val(h[0]["eb"]), lock_energy=h[0]["lb"])}
        for st in h[1:]:
            raised = False
            try:
                if st["op"] == "Set":
                    objs[st["x"]].energy = val(st["v"])
                else:
                    objs[st["x"]].match(objs["b" if st["x"] == "a" else "a"], check_match=st["check"])
            except Exception:
                raised = True
            got = (raised, objs["a"].energy, objs["b"].energy)
            want = (st["raised"], val(st["ea"]), val(st["eb"]))
            if got != want:
                differ += 1
                if len(ctx.drift) < 10:
                    ctx.drift.append({"what": "growth (Accelerator): real class differs from Accelerator.tla", "history": h, "step": st, "got": list(got)})
                break
    ctx.notes["growth_accelerator"] = {"histories_replayed": len(hists), "differing_from_model": differ}
    if not quick:
        # unbounded energies: Apalache checks the step properties inductively (IndInit => IndInv after one step) - reported, not required
        import shutil, subprocess, tempfile
        out = tempfile.mkdtemp(prefix="vf.apa.")
        try:
            p = subprocess.run(["apalache-mc", "check", "--init=IndInit", "--inv=IndInv", "--length=1", f"--out-dir={out}", "AccelApa.tla"],
                               cwd=tlc.SPEC_DIR, capture_output=True, text=True, timeout=900)
            verdict = "NoError" if "The outcome is: NoError" in p.stdout else ("Error" if "The outcome is: Error" in p.stdout else f"rc={p.returncode}")
        except Exception as ex:
            verdict = f"not run: {type(ex).__name__}"
        finally:
            shutil.rmtree(out, ignore_errors=True)
        ctx.notes["growth_accelerator"]["apalache_inductive_step_for_arbitrary_energies"] = verdict


def run(ctx: Ctx):
    quick = ctx.tier == "quick"
    ctx.rule = ("histories = constructor arguments + <= D assignments; emitted by TLC from GridImpl (exhaustive over the "
                "small alphabet, -simulate over the large one) and by a seeded generator (1-D/2-D, mixed endpoints, tuple "
                "arguments); distinct = distinct history; non-trivial = at least one assignment on a defined grid")
    ctx.assumptions += ["rationals with denominators <= 4096 are recovered exactly from the floats the class stores "
                        "(traces containing a float that is not such a rational are counted as inexact and skipped)",
                        "TLC, SANY, CPython, fractions.Fraction"]
    # 1. design level
    ctx.design_check("MCGrid", cfg_text=cfg(True, 3 if quick else 5, False, view=True), label="GridImpl=>Grid",
                     coverage=True, timeout=1500)
    self_test(ctx)
    # 2. behaviours from TLC
    beh = {}
    r = tlc.run_tlc("MCGrid", cfg_text=cfg(False, 2 if quick else 3, True, props=False), workers=1, timeout=1500)
    if r.error:
        raise Machinery("behaviour emission failed: " + r.error)
    for s in r.printed("BEH"):
        v = tlc.tla_value_to_py(s)
        beh[v[1]] = None
    n_ex = len(beh)
    r = tlc.run_tlc("MCGrid", cfg_text=cfg(True, 4 if quick else 6, True, props=False), workers=1, timeout=1500,
                    extra=["-simulate", f"num={150 if quick else 4000}", "-depth", "12", "-seed", str(ctx.seed + 1)])
    if r.error:
        raise Machinery("behaviour simulation failed: " + r.error)
    for s in r.printed("BEH"):
        v = tlc.tla_value_to_py(s)
        beh[v[1]] = None
    ctx.notes["behaviours_exhaustive"] = n_ex
    ctx.notes["behaviours_simulated"] = len(beh) - n_ex
    items = []
    skipped = 0
    for js in beh:
        h = hist_from_tlc(json.loads(js))
        out = run_history(h, 1)
        if out is None:
            continue
        t, ok = out
        if not ok:
            skipped += 1
            continue
        ctx.case(js, nontrivial=len(t) > 1)
        items.append((h, 1, t))
    # the same behaviours on a 2-D grid (scalar arguments are broadcast by the class)
    for n_b, js in enumerate(list(beh)[:: (7 if quick else 3)]):
        h = hist_from_tlc(json.loads(js))
        h[0]["forms"] = n_b % 5          # argument forms: NumPy scalars, 0-d arrays, ... (0 = as given)
        out = run_history(h, 2)
        if out is None:
            continue
        t, ok = out
        if ok:
            ctx.case("2d:" + js)
            items.append((h, 2, t))
    # 3. seeded random histories
    rng = random.Random(ctx.seed)
    for i in range(1500 if quick else 60000):
        h, dims = fuzz_history(rng)
        h[0]["forms"] = i % 5 if i % 2 else 0
        out = run_history(h, dims)
        if out is None:
            continue
        t, ok = out
        if not ok:
            skipped += 1
            continue
        ctx.case(json.dumps(h), nontrivial=len(t) > 1)
        items.append((h, dims, t))
    ctx.notes["inexact_traces_skipped"] = skipped
    for it in items[:3]:
        ctx.sample({"history": it[0], "dims": it[1], "trace": it[2]})
    _judge(ctx, items)
    accelerator_growth(ctx, quick)


def replay(ctx: Ctx, case):
    out = run_history(case["history"], case["dims"])
    if out is None:
        raise Machinery("constructor raises on replay")
    t, ok = out
    ctx.case("replay")
    ctx.sample({"history": case["history"], "trace": t})
    _judge(ctx, [(case["history"], case["dims"], t)])
