"""C32  API calls do not modify caller-owned inputs.

design  : TLC enumerates the call space of Ownership.tla: atoms-taking callees x kinds of atoms, measurement types x complex/real x
          lazy/eager (the frame condition itself is a one-line predicate)
inputs  : every enumerated (callee, atoms kind); for measurements every public method that returns a measurement when called with
          no or simple arguments (enumerated by introspection; methods unknown to the harness' argument table are listed in the
          evidence as not exercised)
verdict : OwnershipTrace: snapshot(input) before == after (positions, cell, numbers, pbc, constraints / array bytes, metadata,
          axes metadata), whether or not the call raises
"""
from __future__ import annotations

import hashlib
import inspect
import json
import warnings

import numpy as np

from ..core import Ctx, Machinery
from .. import tlc


def atoms_of(kind):
    from ase import Atoms
    from ase.build import bulk, graphene
    if kind == "orthogonal":
        return bulk("Si", cubic=True)
    if kind == "hexagonal":
        a = graphene(vacuum=3.0)
        a.pbc = True
        return a
    if kind == "outside_cell":
        a = bulk("Si", cubic=True)
        a.positions[0] += (7.3, -6.1, 11.0)
        a.positions[3] -= (0.2, 9.0, 0.1)
        return a
    if kind == "offdiagonal_noise":
        a = bulk("Cu", cubic=True)
        c = a.cell.array.copy()
        c[0, 1] = 3e-7
        c[2, 0] = -5e-8
        a.set_cell(c, scale_atoms=False)
        return a
    if kind == "with_constraints":
        from ase.constraints import FixAtoms
        a = bulk("Si", cubic=True)
        a.set_constraint(FixAtoms(indices=[0, 1]))
        a.set_tags(list(range(len(a))))
        return a
    if kind == "non_pbc":
        a = bulk("Si", cubic=True)
        a.pbc = (True, True, False)
        return a
    raise Machinery(kind)


def snap_atoms(a):
    h = hashlib.sha1()
    for x in (a.positions, a.cell.array, a.numbers, np.asarray(a.pbc), a.get_tags(), a.get_initial_magnetic_moments()):
        h.update(np.ascontiguousarray(x).tobytes())
    h.update(repr([type(c).__name__ + repr(getattr(c, "index", "")) for c in a.constraints]).encode())
    h.update(repr(sorted(a.info.items())).encode())
    return h.hexdigest()[:16]


def call_atoms(callee, a):
    import abtem
    with warnings.catch_warnings():
        warnings.simplefilter("ignore")
        if callee == "orthogonalize_cell":
            abtem.orthogonalize_cell(a)
        elif callee == "standardize_cell":
            abtem.standardize_cell(a)
        elif callee == "Potential":
            abtem.Potential(a, gpts=16, slice_thickness=2.0)
        elif callee == "Potential.build":
            abtem.Potential(a, gpts=16, slice_thickness=2.0).build(lazy=False)
        elif callee == "FrozenPhonons":
            abtem.FrozenPhonons(a, num_configs=2, sigmas=0.1, seed=1)
        elif callee == "FrozenPhonons.iterate":
            fp = abtem.FrozenPhonons(a, num_configs=2, sigmas=0.1, seed=1)
            from ..ms import displaced_configurations
            displaced_configurations(fp)
            abtem.Potential(fp, gpts=16, slice_thickness=2.0).build(lazy=False)
        elif callee.startswith("FrozenPhonons.iterate("):
            symbols = sorted(set(a.get_chemical_symbols()))
            sig = {"FrozenPhonons.iterate(per-element sigmas)": {el: 0.05 + 0.03 * i for i, el in enumerate(symbols)},
                   "FrozenPhonons.iterate(anisotropic sigmas)": {el: (0.05, 0.1, 0.02) for el in symbols},
                   "FrozenPhonons.iterate(per-atom sigmas)": np.full((len(a), 3), 0.07),
                   "FrozenPhonons.iterate(zero sigmas)": 0.0, "FrozenPhonons.iterate(one configuration)": 0.05}[callee]
            fp = abtem.FrozenPhonons(a, num_configs=1 if "one configuration" in callee else 2, sigmas=sig, seed=1)
            from ..ms import displaced_configurations
            displaced_configurations(fp)
            abtem.Potential(fp, gpts=16, slice_thickness=2.0).build(lazy=False)
        elif callee == "Potential.build(finite)":
            abtem.Potential(a, gpts=16, slice_thickness=2.0, projection="finite").build(lazy=False)
        elif callee == "Potential.project":
            abtem.Potential(a, gpts=16, slice_thickness=1.0).project()
        elif callee == "StructureFactor":
            from abtem.bloch import StructureFactor
            StructureFactor(a, g_max=2.0).build(lazy=False) if hasattr(StructureFactor(a, g_max=2.0), "build") else None
        elif callee == "BlochWaves":
            from abtem.bloch import StructureFactor, BlochWaves
            sf = StructureFactor(a, g_max=2.0)
            BlochWaves(sf, energy=100e3, sg_max=0.1)
        elif callee == "PlaneWave.multislice":
            abtem.PlaneWave(energy=100e3, gpts=16).multislice(a, lazy=False)
        elif callee == "Probe.multislice":
            abtem.Probe(energy=100e3, semiangle_cutoff=20, gpts=16).multislice(a, scan=abtem.CustomScan(np.array([[0.5, 0.5]])), lazy=False)
        else:
            raise Machinery(callee)


def atoms_event(c):
    a = atoms_of(c["kind"])
    ev = {"target": "atoms", "callee": c["callee"], "kind": c["kind"], "raised": False, "before": snap_atoms(a), "after": ""}
    try:
        call_atoms(c["callee"], a)
    except Machinery:
        raise
    except Exception as ex:
        ev["raised"] = True
        ev["exc"] = f"{type(ex).__name__}: {ex}"[:160]
    ev["after"] = snap_atoms(a)
    return ev


def make_measurement(typ, cx, lazy, axes_kind="scan"):
    import abtem
    from abtem.core.axes import ScanAxis, AxisAlignedTiltAxis, ThicknessAxis
    dt = np.complex64 if cx else np.float32
    axes = [ScanAxis(label="x", sampling=0.2, units="Å"), ScanAxis(label="y", sampling=0.2, units="Å")]
    if axes_kind == "series":
        # a tilt series (along y) and a thickness series: axes whose selected item is written into the metadata of the result
        axes = [AxisAlignedTiltAxis(label="tilt_y", values=(10.0, 20.0), direction="y"), ThicknessAxis(values=(5.0, 10.0, 15.0))]
    base = {"Images": (6, 6), "DiffractionPatterns": (6, 6), "RealSpaceLineProfiles": (8,), "PolarMeasurements": (3, 4)}[typ]
    ens = (2, 3) if typ in ("DiffractionPatterns", "PolarMeasurements") else (2,)
    arr = (np.arange(int(np.prod(ens + base))).reshape(ens + base) % 7 + 1.0).astype(dt)
    if cx:
        arr = (arr * np.exp(0.3j)).astype(dt)         # abTEM's own complex precision (complex64): in-place FFT paths apply
    if lazy:
        import dask.array as da
        arr = da.from_array(arr, chunks=(1,) * len(ens) + base)
    md = {"energy": 100e3, "label": "original", "units": "orig"}
    if axes_kind == "series":
        md.update({"base_tilt_x": 1.0, "base_tilt_y": 2.0})
    ax = axes[: len(ens)]
    if typ == "Images":
        return abtem.Images(arr, sampling=0.2, ensemble_axes_metadata=ax, metadata=md)
    if typ == "DiffractionPatterns":
        return abtem.measurements.DiffractionPatterns(arr, sampling=0.05, fftshift=True, ensemble_axes_metadata=ax, metadata=md)
    if typ == "RealSpaceLineProfiles":
        return abtem.measurements.RealSpaceLineProfiles(arr, sampling=0.2, ensemble_axes_metadata=ax, metadata=md)
    return abtem.measurements.PolarMeasurements(arr, radial_sampling=5.0, azimuthal_sampling=np.pi / 2, ensemble_axes_metadata=ax, metadata=md)


def snap_measurement(m):
    h = hashlib.sha1()
    a = m.array
    a = np.asarray(a.compute(scheduler="synchronous")) if hasattr(a, "compute") else np.asarray(a)
    h.update(a.tobytes())
    h.update(str(a.dtype).encode())
    h.update(json.dumps(m.metadata, sort_keys=True, default=repr).encode())
    h.update(repr([(type(x).__name__, sorted((k, repr(v)) for k, v in vars(x).items())) for x in m.axes_metadata]).encode())
    return h.hexdigest()[:16]


ARGS = {
    "interpolate": [dict(sampling=0.1), dict(gpts=(9, 9)), dict(sampling=0.1, method="spline"), dict(sampling="uniform")],
    "crop": [dict(extent=(0.6, 0.6)), dict(extent=(0.6, 0.6), offset=(0.2, 0.2))], "tile": [dict(repetitions=(2, 2))],
    "gaussian_filter": [dict(sigma=0.3), dict(sigma=(0.3, 0.0)), dict(sigma=0.3, boundary="constant")],
    "diffractograms": [{}], "integrate_radial": [dict(inner=0.0, outer=10.0)], "integrate": [{}], "center_of_mass": [{}, dict(units="reciprocal")], "bandlimit": [dict(inner=0.0, outer=0.1)],
    "block_direct": [{}, dict(radius=2.0)], "gaussian_source_size": [dict(sigma=0.3)], "poisson_noise": [dict(total_dose=1e4, seed=1), dict(total_dose=1e4, samples=2, seed=0), dict(dose_per_area=1e4, seed=3)], "normalize_ensemble": [{}, dict(shift="none"), dict(scale="sum", shift="none"), dict(scale="ptp", shift="min")],
    "integrated_center_of_mass": [{}], "polar_binning": [dict(nbins_radial=2, nbins_azimuthal=2, inner=0.0, outer=10.0)],
    "radial_binning": [dict(step_size=5.0, inner=0.0, outer=10.0)], "to_cpu": [{}], "copy": [{}], "squeeze": [{}], "ensure_lazy": [{}], "compute": [{}],
    "sum": [dict(axis=0)], "mean": [dict(axis=0)], "std": [dict(axis=0)], "min": [dict(axis=0)], "max": [dict(axis=0)], "expand_dims": [{}],
    "interpolate_line": [dict(start=(0.0, 0.0), end=(0.8, 0.8))], "interpolate_line_at_position": [dict(center=(0.4, 0.4), angle=0.0, extent=0.4)],
    "relative_difference": "self", "add_noise": [dict(total_dose=1e4)], "reduce_ensemble": [{}], "to_images": [{}], "abs": [{}], "real": [{}], "imag": [{}],
    "phase": [{}], "intensity": [{}], "no_base_chunks": [{}], "lazy": [{}], "to_data_array": [{}], "crop_diffraction_patterns": [{}],
}
SKIP = {"show", "to_zarr", "to_tiff", "from_zarr", "to_hyperspy", "to_quantem", "apply_func", "apply_transform", "from_array_and_metadata", "rechunk",
        "generate_blocks", "ensemble_blocks", "get_items", "get_from_metadata", "set_ensemble_axes_metadata", "index_diffraction_spots", "to_gpu",
        "copy_to_device"}


def measurement_events(c):
    import abtem
    typ, (cx, lazy) = c["callee"], c["kind"]
    evs, not_exercised = [], []
    probe = make_measurement(typ, cx, lazy)
    names = sorted(n for n, f in inspect.getmembers(type(probe), predicate=inspect.isfunction) if not n.startswith("_"))
    for name in names:
        if name in SKIP:
            continue
        if name not in ARGS:
            not_exercised.append(name)
            continue
        m = make_measurement(typ, cx, lazy)
        kwl = [{}] if ARGS[name] == "self" else ARGS[name]
        for kw in kwl:
            ev = {"target": "measurement", "callee": f"{typ}.{name}", "kind": [cx, lazy], "raised": False, "before": snap_measurement(m), "after": ""}
            try:
                with warnings.catch_warnings():
                    warnings.simplefilter("ignore")
                    if ARGS[name] == "self":
                        out = getattr(m, name)(make_measurement(typ, cx, lazy))
                    else:
                        out = getattr(m, name)(**kw)
                    if hasattr(out, "compute") and lazy:
                        out.compute(scheduler="synchronous") if "scheduler" in inspect.signature(out.compute).parameters else out.compute()
            except Exception as ex:
                ev["raised"] = True
                ev["exc"] = f"{type(ex).__name__}: {ex}"[:120]
            ev["after"] = snap_measurement(m)
            evs.append(ev)
    # operators are methods too: indexing (twice with the same item), arithmetic and negation on a measurement whose ensemble axes are a
    # tilt series and a thickness series
    ops = [("__getitem__", (0,)), ("__getitem__", (0,)), ("__getitem__", (1, 0) if typ in ("DiffractionPatterns", "PolarMeasurements") else (1,)),
           ("__getitem__", (slice(0, 1),)), ("__add__", "self"), ("__sub__", "self"), ("__mul__", 2.0), ("__truediv__", 2.0), ("__neg__", None),
           ("__pow__", 2.0)]
    m = make_measurement(typ, cx, lazy, axes_kind="series")
    for name, arg in ops:
        ev = {"target": "measurement", "callee": f"{typ}.{name}", "kind": [cx, lazy], "raised": False, "before": snap_measurement(m), "after": ""}
        try:
            with warnings.catch_warnings():
                warnings.simplefilter("ignore")
                fn = getattr(m, name, None)
                if fn is None:
                    continue
                if name == "__getitem__":
                    out = m[arg if len(arg) > 1 else arg[0]]
                elif arg is None:
                    out = fn()
                else:
                    out = fn(make_measurement(typ, cx, lazy, axes_kind="series") if arg == "self" else arg)
                if hasattr(out, "compute") and lazy:
                    out.compute()
        except Exception as ex:
            ev["raised"] = True
            ev["exc"] = f"{type(ex).__name__}: {ex}"[:120]
        ev["after"] = snap_measurement(m)
        evs.append(ev)
    return evs, not_exercised


def judge(ctx: Ctx, evs):
    res = ctx.validate("OwnershipTrace", [[e] for e in evs], "OwnershipTrace.cfg")
    for e, (ok, bad) in zip(evs, res):
        if not ok:
            tg = {"clauses": sorted(bad[0][1]), "callee": e["callee"], "kind": e["kind"] if e["target"] == "atoms" else "measurement"}
            ctx.report(tg, {"event": e}, f"{e['callee']} on {e['kind']}: {','.join(tg['clauses'])} (raised={e['raised']} {e.get('exc', '')})")


def self_test(ctx: Ctx):
    g = {"target": "atoms", "before": "aa", "after": "aa"}
    b = {"target": "atoms", "before": "aa", "after": "ab"}
    m = {"target": "measurement", "before": "aa", "after": "ab"}
    res = ctx.validate("OwnershipTrace", [[g], [b], [m]], "OwnershipTrace.cfg")
    if not res[0][0] or res[1][0] or res[2][0]:
        raise Machinery(f"OwnershipTrace self-test failed: {res}")
    ctx.notes["binding_selftest"] = {"good_accepted": True, "modified_atoms_rejected": res[1][1], "modified_receiver_rejected": res[2][1]}


def run(ctx: Ctx):
    ctx.rule = ("calls = atoms-taking callee (17, frozen phonons with scalar / per-element / anisotropic / per-atom / zero sigmas, one configuration, finite projection, project) x atoms kind (6: orthogonal, hexagonal, atoms outside the cell, tiny off-diagonal cell "
                "noise, constraints/tags, partial pbc), and measurement type (4) x complex/real x lazy/eager x every public method "
                "with an entry in the argument table; enumerated by TLC from Ownership.tla; non-trivial = the call returns")
    r = ctx.design_check("Ownership", "Ownership.cfg", label="call space", workers=1)
    self_test(ctx)
    cases = [json.loads(tlc.tla_value_to_py(s)[1]) for s in r.printed("CASE")]
    evs, missing = [], set()
    for c in cases:
        if c["target"] == "atoms":
            ev = atoms_event(c)
            evs.append(ev)
            ctx.case(json.dumps(c), nontrivial=not ev["raised"])
        else:
            es, ne = measurement_events(c)
            missing |= set(f"{c['callee']}.{n}" for n in ne)
            for ev in es:
                evs.append(ev)
                ctx.case((ev["callee"], json.dumps(c["kind"])), nontrivial=not ev["raised"])
    ctx.exhaustive = True
    ctx.notes["public_methods_not_exercised"] = sorted(missing)
    ctx.notes["calls_that_raised"] = sorted({e["callee"] + ":" + str(e["kind"]) for e in evs if e["raised"]})[:60]
    for e in evs[:2] + evs[-1:]:
        ctx.sample(e)
    judge(ctx, evs)
    # growth (Rebuild.tla): objects with non-default constructor arguments along the routes they travel in practice
    ctx.design_check("MCRebuild", "MCRebuild.cfg", label="Rebuild (growth): every route carries every field", workers=1)
    from ..rebuild import probe
    res = probe()
    ctx.notes["growth_object_routes"] = {"routes_travelled": sum(1 for r in res if r["error"] is None),
                                         "routes_not_offered": sorted({f"{r['cls']}:{r['route']}" for r in res if r["error"] is not None}),
                                         "fields_changed_on_the_way": [r for r in res if r["differing"]]}
    for r in res:
        if r["differing"]:
            ctx.drift.append({"clauses": ["growth_object_changed_on_its_way"], "cls": r["cls"], "route": r["route"], "fields": r["differing"]})


def replay(ctx: Ctx, case):
    e = case["event"]
    if e["target"] == "atoms":
        ev = atoms_event({"callee": e["callee"], "kind": e["kind"]})
        ctx.case("replay")
        ctx.sample(ev)
        judge(ctx, [ev])
    else:
        typ = e["callee"].split(".")[0]
        evs, _ = measurement_events({"callee": typ, "kind": e["kind"]})
        evs = [x for x in evs if x["callee"] == e["callee"]]
        ctx.case("replay")
        ctx.sample(evs[0])
        judge(ctx, evs)
