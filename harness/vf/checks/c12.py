"""C12  Detectors measure consistent integrated intensities.

design  : TLC enumerates DetectModel (grid size x inner/mid/outer limits that no lattice pixel lies on x flexible step x segment
          counts) and checks the ring algebra on the integer frequency lattice (adjacent rings are disjoint and add up, flexible
          bins of width w tile the range)
inputs  : every scenario on real detectors applied to the one-hot ensemble over diffraction pixels (member p has all its intensity
          in pixel p), so each result decodes exactly to the set of pixels the detector integrates
verdict : DetectTrace: AnnularDetector = integrate_radial = segments summed = ring(inner, outer); adjacent ranges add;
          FlexibleAnnularDetector bin k = ring(offset + k w, offset + (k+1) w) with w the sampling its metadata states, and its
          integrate_radial over two bins = the corresponding ring
"""
from __future__ import annotations

import json
import random
from fractions import Fraction

import numpy as np

from ..core import Ctx, Machinery
from ..rat import rat
from .. import tlc

CFG = """SPECIFICATION Spec
CONSTANTS
  Sizes = {sizes}
  Emit = TRUE
INVARIANT Additive
INVARIANT BinsTile
INVARIANT EmitCase
CHECK_DEADLOCK FALSE
"""
ENERGY = 100e3
DELTA = 2.1      # mrad per diffraction pixel


def F(x):
    return float(Fraction(x[0], x[1]))


_waves_cache = {}


def onehot_waves(n, lazy=False, stretch=1.0):
    """stretch != 1: the same arrays on a grid of another extent (same gpts, another angular sampling)"""
    import abtem
    from abtem.core.energy import energy2wavelength
    from abtem.core.axes import OrdinalAxis
    key = (n, lazy, stretch)
    if key not in _waves_cache:
        lam = energy2wavelength(ENERGY)
        L = stretch * lam * 1e3 / DELTA
        k = np.zeros((n * n, n, n), dtype=np.complex64)
        for p in range(n * n):
            k[p, p // n, p % n] = 1.0
        arr = np.fft.ifft2(k).astype(np.complex64) * n      # unit total intensity per member after abTEM's normalisation
        if lazy:
            import dask.array as da
            arr = da.from_array(arr, chunks=(n * n // 2 + 1, n, n))
        _waves_cache[key] = abtem.Waves(arr, energy=ENERGY, extent=L, ensemble_axes_metadata=[OrdinalAxis(label="pixel", values=tuple(range(n * n)))])
    return _waves_cache[key]


def decode(x, axis_members=0):
    """x: result with the member axis first -> (sorted member indices with non-zero response, all responses equal)"""
    a = x.compute() if hasattr(x, "compute") else x
    v = np.asarray(a.array if hasattr(a, "array") else a, dtype=float)
    v = v.reshape(v.shape[0], -1).sum(axis=1) if v.ndim > 1 else v
    nz = np.nonzero(np.abs(v) > 1e-6 * max(np.abs(v).max(), 1e-30))[0]
    unit = bool(len(nz) == 0 or np.allclose(v[nz], v[nz][0], rtol=1e-4))
    return [int(i) for i in nz], unit


def observe(c, lazy=False):
    import abtem
    n = c["n"]
    inner, mid, outer, step = F(c["inner"]) * DELTA, F(c["mid"]) * DELTA, F(c["outer"]) * DELTA, F(c["step"]) * DELTA
    ev = {"case": c, "lazy": lazy, "raised": False, "n": n, "inner": c["inner"], "mid": c["mid"], "outer": c["outer"], "annular": [], "annular_unit": True,
          "integrate_radial": [], "integrate_unit": True, "flexible": [], "flexible_unit": True, "flexible_applicable": False, "segmented_sum": [],
          "segmented_unit": True, "annular_reused": [], "segmented_reused": [], "segmented_reassigned": [], "split_low": [], "split_high": [], "pattern_low": [], "pattern_high": [], "flex_bins": [], "flex_prefix": [], "flex_offset": c["inner"], "flex_width": c["step"]}
    try:
        w = onehot_waves(n, lazy)
        import zlib
        from ..routes import reroute
        r = zlib.crc32(json.dumps(c, sort_keys=True, default=str).encode())
        via = lambda det, k: reroute(det, r + k)[0]          # detectors reach detect() through a copy / deepcopy / pickle round trip
        ev["annular"], ev["annular_unit"] = decode(via(abtem.AnnularDetector(inner=inner, outer=outer), 0).detect(w))
        dp = w.diffraction_patterns(max_angle=None, fftshift=(n % 2 == 0))
        ev["integrate_radial"], ev["integrate_unit"] = decode(dp.integrate_radial(inner, outer))
        ev["pattern_low"], _ = decode(dp.integrate_radial(inner, mid))          # the same pattern object again
        ev["pattern_high"], _ = decode(dp.integrate_radial(mid, outer))
        ev["split_low"], _ = decode(abtem.AnnularDetector(inner=inner, outer=mid).detect(w))
        ev["split_high"], _ = decode(abtem.AnnularDetector(inner=mid, outer=outer).detect(w))
        nr, na = c["segs"]
        seg = via(abtem.SegmentedDetector(inner=inner, outer=outer, nbins_radial=nr, nbins_azimuthal=na, rotation=0.3), 1).detect(w)
        ev["segmented_sum"], ev["segmented_unit"] = decode(seg)
        # detector objects have histories: the same limits, but the object has already detected wave functions of the same gpts on a
        # grid of another extent (another angular sampling) - eagerly, so whatever it keeps is really there
        other = onehot_waves(n, False, 0.8)
        worn = abtem.AnnularDetector(inner=inner, outer=outer)
        worn.detect(other)
        ev["annular_reused"], _ = decode(worn.detect(w))
        worn = abtem.SegmentedDetector(inner=inner, outer=outer, nbins_radial=nr, nbins_azimuthal=na, rotation=0.3)
        worn.detect(other)
        ev["segmented_reused"], _ = decode(worn.detect(w))
        # ... and its limits are public attributes: a detector built for (inner, mid), used, then given outer through the setter is
        # the detector with limits (inner, outer)
        worn = abtem.SegmentedDetector(inner=inner, outer=mid, nbins_radial=nr, nbins_azimuthal=na, rotation=0.3)
        worn.detect(w)
        worn.outer = outer
        ev["segmented_reassigned"], _ = decode(worn.detect(w))
        try:
            flex = via(abtem.FlexibleAnnularDetector(step_size=step, inner=inner), 2).detect(w)
        except RuntimeError as ex:
            if "number of bins" in str(ex):
                return ev          # the simulated range leaves no room for one bin of this step: nothing to check
            raise
        if hasattr(flex, "compute"):
            try:
                flex = flex.compute()
            except RuntimeError as ex:
                if "number of bins" in str(ex):
                    return ev
                raise
        fm = flex.compute() if hasattr(flex, "compute") else flex
        fa = np.asarray(fm.array, dtype=float)                     # (members, radial bins, 1)
        stated = float(fm.radial_sampling)
        ev["flex_width"] = rat(stated / DELTA, 64)
        ev["flex_offset"] = rat(float(fm.radial_offset) / DELTA, 64)
        for k in range(fa.shape[1]):
            col = fa[:, k].reshape(fa.shape[0], -1).sum(axis=1)
            ev["flex_bins"].append([int(i) for i in np.nonzero(np.abs(col) > 1e-6)[0]])
        if fa.shape[1] >= 2:
            ev["flexible_applicable"] = True
            off = float(fm.radial_offset)
            ev["flexible"], ev["flexible_unit"] = decode(fm.integrate_radial(off, off + 2 * stated))
            for k in range(1, min(fa.shape[1], 18) + 1):
                ev["flex_prefix"].append(decode(fm.integrate_radial(off, off + k * stated))[0])
    except Exception as ex:
        ev["raised"] = True
        ev["exc"] = f"{type(ex).__name__}: {ex}"[:300]
    return ev


def tags_for(ev, clauses):
    c = ev["case"]
    return {"clauses": sorted(clauses), "n": c["n"], "lazy": ev["lazy"], "inner_zero": c["inner"][0] == 0}


def reuse_probe():
    """Growth, outside the statement of C12: a detector whose limits were left to the waves is used for two wave functions with
    different simulated ranges; what it returns for the second should be what a fresh detector returns.  Reported as drift only."""
    import abtem
    out = {}
    try:
        mk = lambda n: abtem.Probe(energy=ENERGY, semiangle_cutoff=20, gpts=n, extent=8.0).build(lazy=False)
        a, b = mk(32), mk(64)
        for name, make in (("FlexibleAnnularDetector(outer=None)", lambda: abtem.FlexibleAnnularDetector(step_size=5.0)),
                           ("AnnularDetector(outer=None)", lambda: abtem.AnnularDetector(inner=10.0)),
                           ("PixelatedDetector(max_angle='valid')", lambda: abtem.PixelatedDetector(max_angle="valid"))):
            d = make()
            d.detect(a)
            second, fresh = d.detect(b), make().detect(b)
            out[name] = bool(second.shape == fresh.shape and np.allclose(np.asarray(second.array), np.asarray(fresh.array)))
    except Exception as ex:
        out["error"] = f"{type(ex).__name__}: {ex}"[:200]
    return out


def judge(ctx: Ctx, evs):
    res = ctx.validate("DetectTrace", [[e] for e in evs], "DetectTrace.cfg")
    for e, (ok, bad) in zip(evs, res):
        if not ok:
            tg = tags_for(e, bad[0][1])
            ctx.report(tg, {"event": e}, f"{json.dumps(e['case'])}: {','.join(tg['clauses'])} flex_width={e['flex_width']} nbins={len(e['flex_bins'])} {e.get('exc', '')}")


def self_test(ctx: Ctx):
    q = lambda a, b=1: [a, b]
    n = 4
    # pixels of a 4x4 lattice with 1 <= r2 < (9/4)^2: r2 in {1, 2, 4, 5}; limits 3/4 .. 9/4
    from itertools import product
    def fr(a): return a if a < 2 else a - 4
    ring = lambda lo, hi: [a * n + b for a, b in product(range(n), range(n)) if lo * lo <= fr(a) ** 2 + fr(b) ** 2 < hi * hi]
    good = {"raised": False, "n": 4, "inner": q(3, 4), "mid": q(5, 4), "outer": q(9, 4), "annular": ring(0.75, 2.25), "annular_unit": True,
            "integrate_radial": ring(0.75, 2.25), "integrate_unit": True, "flexible": ring(0.75, 2.75), "flexible_unit": True, "flexible_applicable": True,
            "segmented_sum": ring(0.75, 2.25), "segmented_unit": True, "annular_reused": ring(0.75, 2.25), "segmented_reused": ring(0.75, 2.25), "segmented_reassigned": ring(0.75, 2.25), "split_low": ring(0.75, 1.25), "split_high": ring(1.25, 2.25), "pattern_low": ring(0.75, 1.25), "pattern_high": ring(1.25, 2.25),
            "flex_bins": [ring(0.75, 1.75), ring(1.75, 2.75)], "flex_prefix": [ring(0.75, 1.75), ring(0.75, 2.75)], "flex_offset": q(3, 4), "flex_width": q(1)}
    b1 = dict(good, flex_bins=[ring(0.75, 2.0), ring(2.0, 3.25)])          # bins wider than the stated sampling
    b2 = dict(good, annular=ring(0.75, 2.25)[:-1])
    b3 = dict(good, split_high=ring(1.0, 2.25))
    b4 = dict(good, flex_prefix=[ring(0.75, 1.75), ring(0.75, 1.75)])     # the outermost requested bin dropped
    res = ctx.validate("DetectTrace", [[good], [b1], [b2], [b3], [b4]], "DetectTrace.cfg")
    if not res[0][0] or res[1][0] or res[2][0] or res[3][0] or res[4][0]:
        raise Machinery(f"DetectTrace self-test failed: {res}")
    ctx.notes["binding_selftest"] = {"good_accepted": True, "wrong_bin_width_rejected": res[1][1], "missing_pixel_rejected": res[2][1],
                                    "overlapping_ranges_rejected": res[3][1]}


def run(ctx: Ctx):
    quick = ctx.tier == "quick"
    ctx.rule = ("scenarios = grid size (12 even, 13 odd) x inner < mid < outer from {0, k + 1/4} (pixel units, no lattice pixel on a "
                "limit) x flexible step {9/8, 13/8, and from the centre 7/20} pixels x segment counts, enumerated by TLC; each on the one-hot ensemble over all "
                "n^2 diffraction pixels (angular sampling 2.1 mrad, so limits and steps are fractional in mrad), eager and lazy; "
                "non-trivial = every scenario")
    r = ctx.design_check("DetectModel", cfg_text=CFG.format(sizes="{12}" if quick else "{12, 13}"), label="DetectModel ring algebra", workers=1,
                         timeout=3000)
    self_test(ctx)
    cases = [json.loads(tlc.tla_value_to_py(s)[1]) for s in r.printed("CASE")]
    ctx.notes["scenarios_from_tlc"] = len(cases)
    rng = random.Random(ctx.seed)
    rng.shuffle(cases)
    if quick:
        cases = cases[:70] + [c for c in cases if c["n"] == 12][:0]
    evs = []
    for j, c in enumerate(cases):
        if quick and j % 2:
            c = dict(c, n=13)
        evs.append(observe(c, lazy=(j % 5 == 0)))
        ctx.case(json.dumps(c, sort_keys=True))
    for e in evs[:1]:
        ctx.sample({k: e[k] for k in ("case", "annular", "flex_bins", "flex_width", "flex_offset", "segmented_sum")})
    reuse = reuse_probe()
    ctx.notes["growth_detector_reused_for_other_waves_equals_fresh"] = reuse
    for name, same in reuse.items():
        if same is not True:
            ctx.drift.append({"what": "growth (outside C12): a default-limit detector used for a second wave function keeps the limits of the first", "detector": name})
    judge(ctx, evs)


def replay(ctx: Ctx, case):
    e = case["event"]
    ev = observe(e["case"], e.get("lazy", False))
    ctx.case("replay")
    ctx.sample({k: ev[k] for k in ("case", "annular", "flex_bins", "flex_width")})
    judge(ctx, [ev])
