"""C21  The contrast transfer function implements the polar aberration expansion.

design  : TLC explores AberrationsModel (coefficient store with symbols, aliases and defocus; set by attribute or through
          set_aberrations; read; evaluate) to depth 2 over all 50 names and checks the addressing invariants; it prints the
          (n, m) table of the expansion, which the reference evaluation is built from
inputs  : TLC's histories (all two-step ones, simulated longer ones) replayed on a real Aberrations object; every history
          ends with an evaluation on an (alpha, phi) grid in double precision
verdict : AberrationsTrace: reported coefficients follow the abstract store after every step; evaluation equals
          exp(-2 pi i chi / lambda) for the current coefficients; azimuthal rotation identity
"""
from __future__ import annotations

import json
import math
import random

import numpy as np

from ..core import Ctx, Machinery
from ..rat import ppb
from .. import tlc

CFG = """SPECIFICATION Spec
CONSTANTS
  Depth = {d}
  Emit = {emit}
  Focus <- {focus}
{props}
CHECK_DEADLOCK FALSE
"""
PROPS = "INVARIANT AliasSameCell\nINVARIANT DefocusMirrorsC10\nINVARIANT EveryNameKnown\nINVARIANT AnglesHaveMagnitudes\nVIEW DesignView\n"
ENERGY = 100e3
SCALE = {1: 40.0, 2: 2.0e3, 3: 9.0e4, 4: 3.8e6, 5: 1.5e8}
MULT = {1: 1.0, 2: 1.7}


class Table:
    def __init__(self, t):
        self.mag = {k: tuple(v) for k, v in t["mag"].items()}
        self.angle = dict(t["angle"])
        self.alias = dict(t["alias"])
        self.angle_syms = set(self.angle.values())
        self.symbols = list(self.mag) + sorted(self.angle_syms)
        self.order = {}
        for s, (n, m) in self.mag.items():
            self.order[s] = n
        for s, a in self.angle.items():
            self.order[a] = 0

    def canon(self, name):
        return self.alias.get(name, name)

    def value(self, name, vid):
        sym = self.canon(name)
        sgn = -1.0 if vid < 0 else 1.0
        if vid == 0:
            return 0.0
        if sym in self.angle_syms:
            return sgn * 0.4 * MULT[abs(vid)]
        return sgn * SCALE[self.mag[sym][0]] * MULT[abs(vid)]

    def vid(self, sym, value):
        for v in (0, 1, 2, -1, -2):
            if abs(self.value(sym, v) - float(value)) <= 1e-9 * max(1.0, abs(float(value))):
                return v
        return 99

    def chi(self, coeffs, alpha, phi):
        out = np.zeros_like(alpha, dtype=np.float64)
        for s, (n, m) in self.mag.items():
            c = float(coeffs[s])
            if m == 0:
                out = out + c * alpha ** (n + 1) / (n + 1)
            else:
                out = out + c * alpha ** (n + 1) / (n + 1) * np.cos(m * (phi - float(coeffs[self.angle[s]])))
        return out


def grids():
    a = np.linspace(0.0, 0.03, 7)
    p = np.linspace(-np.pi, np.pi, 16, endpoint=False)
    A, P = np.meshgrid(a, p, indexing="ij")
    return A, P


def evaluate(ab, A, P):
    import abtem
    with abtem.config.set({"precision": "float64"}):
        return np.asarray(ab._evaluate_from_angular_grid(A.copy(), P.copy()))


def replay_hist(tab: Table, hist):
    import abtem
    from abtem.core.energy import energy2wavelength
    lam = energy2wavelength(ENERGY)
    A, P = grids()
    ab = abtem.transfer.Aberrations(energy=ENERGY)
    trace = []
    steps = list(hist)
    if not steps or steps[-1]["a"] != "eval":
        steps.append({"a": "eval", "name": "", "v": 0, "how": ""})

    def report_of(o):
        c = o.aberration_coefficients
        return [[s, tab.vid(s, c[s])] for s in tab.symbols]

    def report():
        return report_of(ab)

    for st in steps:
        ev = {"a": st["a"], "name": st["name"], "v": st["v"], "how": st["how"], "raised": False, "coeffs": [], "got": 0,
              "err_ppb": 0, "rot_ppb": 0}
        try:
            if st["a"] == "set":
                val = tab.value(st["name"], st["v"])
                if st["how"] == "attr":
                    setattr(ab, st["name"], val)
                else:
                    ab.set_aberrations({st["name"]: val})
            elif st["a"] == "get":
                got = getattr(ab, st["name"])
                sym = tab.canon(st["name"])
                ev["got"] = tab.vid(sym, got)
            else:
                c = ab.aberration_coefficients
                ref = np.exp(-2j * np.pi * tab.chi(c, A, P) / lam)
                got = evaluate(ab, A, P)
                ev["err_ppb"] = ppb(float(np.abs(got - ref).max()))
                # the same object through a copy / deepcopy / pickle round trip: same coefficients, same evaluation
                from ..routes import reroute
                twin, _route = reroute(ab, 1 + len(trace))
                if report_of(twin) != report():
                    ev["err_ppb"] = max(ev["err_ppb"], 10 ** 9)
                ev["err_ppb"] = max(ev["err_ppb"], ppb(float(np.abs(evaluate(twin, A, P) - ref).max())))
                # an aberration object without an energy of its own, applied (eagerly) to waves of one energy and then to waves of another:
                # the second application is that of a fresh object
                bare = abtem.transfer.Aberrations(**{s: float(c[s]) for s in tab.symbols})
                noise = np.random.default_rng(5).normal(size=(2, 18, 18))
                w_hi = abtem.Waves((noise[0] + 1j * noise[1]).astype(np.complex64), energy=200e3, extent=12.0)
                w_lo = abtem.Waves((noise[0] + 1j * noise[1]).astype(np.complex64), energy=60e3, extent=12.0)
                bare.apply(w_hi)
                second = np.asarray(bare.apply(w_lo).array)
                fresh = np.asarray(abtem.transfer.Aberrations(**{s: float(c[s]) for s in tab.symbols}).apply(w_lo).array)
                ev["err_ppb"] = max(ev["err_ppb"], ppb(float(np.abs(second - fresh).max())))
                delta = 0.37
                rot = abtem.transfer.Aberrations(energy=ENERGY, **{s: (float(c[s]) + delta if s in tab.angle_syms else float(c[s]))
                                                                   for s in tab.symbols})
                ev["rot_ppb"] = ppb(float(np.abs(evaluate(rot, A, P) - evaluate(ab, A, P - delta)).max()))
        except Exception as ex:
            ev["raised"] = True
            ev["exc"] = f"{type(ex).__name__}: {ex}"[:200]
        ev["coeffs"] = report()
        trace.append(ev)
    return trace


def tags_for(t, bad):
    line, clauses = bad[0]
    ev = t[line - 1]
    prior_eval = any(e["a"] == "eval" for e in t[: line - 1])
    nz = sorted(s for s, v in ev["coeffs"] if v != 0)
    return {"clauses": sorted(clauses), "a": ev["a"], "name": ev["name"], "evaluated_before": prior_eval, "nonzero": nz}


def judge(ctx: Ctx, traces):
    res = ctx.validate("AberrationsTrace", traces, "AberrationsTrace.cfg")
    for t, (ok, bad) in zip(traces, res):
        if not ok:
            tg = tags_for(t, bad)
            ctx.report(tg, {"hist": [{k: e[k] for k in ("a", "name", "v", "how")} for e in t], "bad": bad},
                       f"{tg['a']} {tg['name']}: {','.join(tg['clauses'])}; nonzero={tg['nonzero']} after "
                       f"{[(e['a'], e['name'], e['v']) for e in t][:6]}")


def self_test(ctx: Ctx, tab):
    z = [[s, 0] for s in tab.symbols]
    c1 = [[s, (-1 if s == "C10" else 0)] for s in tab.symbols]
    good = [{"a": "set", "name": "defocus", "v": 1, "how": "attr", "raised": False, "coeffs": c1, "got": 0, "err_ppb": 0, "rot_ppb": 0},
            {"a": "get", "name": "defocus", "v": 0, "how": "attr", "raised": False, "coeffs": c1, "got": 1, "err_ppb": 0, "rot_ppb": 0},
            {"a": "eval", "name": "", "v": 0, "how": "", "raised": False, "coeffs": c1, "got": 0, "err_ppb": 3, "rot_ppb": 2}]
    b1 = json.loads(json.dumps(good)); b1[0]["coeffs"] = [[s, (1 if s == "C10" else 0)] for s in tab.symbols]
    b2 = json.loads(json.dumps(good)); b2[2]["err_ppb"] = 5 * 10 ** 8
    b3 = [good[1], good[2]]            # the set event removed
    res = ctx.validate("AberrationsTrace", [good, b1, b2, b3], "AberrationsTrace.cfg")
    if not res[0][0] or res[1][0] or res[2][0] or res[3][0]:
        raise Machinery(f"AberrationsTrace self-test failed: {res}")
    ctx.notes["binding_selftest"] = {"good_accepted": True, "defocus_sign_rejected": res[1][1], "kernel_mismatch_rejected": res[2][1],
                                    "removed_event_rejected": res[3][1]}


def run(ctx: Ctx):
    quick = ctx.tier == "quick"
    ctx.rule = ("histories of set (attribute / set_aberrations; 25 symbols + 25 aliases incl. defocus; two values) / get / evaluate "
                "on one Aberrations object: all [set, evaluate] singletons, all two-step histories (sampled in quick), simulated "
                "histories of length 4 per symbol group; every history ends with an evaluation on a 7x16 (alpha, phi) grid; "
                "non-trivial = at least one non-zero coefficient at evaluation")
    r = ctx.design_check("MCAberrations", cfg_text=CFG.format(d=2, emit="FALSE", focus="FocusAll", props=PROPS), label="AberrationsModel",
                         timeout=3000)
    tab = Table(json.loads(tlc.tla_value_to_py(r.printed("TABLE")[0])[1]))
    self_test(ctx, tab)
    rng = random.Random(ctx.seed)
    hists = {}
    # all singletons, deterministically
    for name in list(tab.symbols) + list(tab.alias):
        for v in (1, -2):
            for how in ("attr", "dict"):
                h = [{"a": "set", "name": name, "v": v, "how": how}, {"a": "get", "name": name, "v": 0, "how": "attr"}]
                hists[json.dumps(h)] = None
        # evaluate, assign, evaluate again: the transfer function must follow the current coefficients
        h = [{"a": "eval", "name": "", "v": 0, "how": ""}, {"a": "set", "name": name, "v": 1, "how": "attr"}]
        hists[json.dumps(h)] = None
    r2 = tlc.run_tlc("MCAberrations", cfg_text=CFG.format(d=2, emit="TRUE", focus="FocusAll", props="CONSTRAINT AtBound\n"), workers=1,
                     timeout=3000)
    if r2.error:
        raise Machinery("behaviour emission failed: " + r2.error)
    two = sorted({tlc.tla_value_to_py(s)[1] for s in r2.printed("BEH")})
    ctx.notes["two_step_histories_from_tlc"] = len(two)
    rng.shuffle(two)
    for s in two[: (500 if quick else 20000)]:
        hists[s] = None
    for fi, focus in enumerate(["FocusA", "FocusB", "FocusC", "FocusD", "FocusE"]):
        r3 = tlc.run_tlc("MCAberrations", cfg_text=CFG.format(d=4, emit="TRUE", focus=focus, props="CONSTRAINT AtBound\n"), workers=1,
                         timeout=1500, extra=["-simulate", f"num={6 if quick else 200}", "-depth", "6", "-seed", str(ctx.seed + fi + 1)])
        sim = sorted({tlc.tla_value_to_py(s)[1] for s in r3.printed("BEH")})
        rng.shuffle(sim)
        for s in sim[: (120 if quick else 5000)]:
            hists[s] = None
    traces = []
    for js in hists:
        t = replay_hist(tab, json.loads(js))
        traces.append(t)
        ctx.case(js, nontrivial=any(v != 0 for _, v in t[-1]["coeffs"]))
    ctx.notes["histories_replayed"] = len(traces)
    for t in traces[:1] + traces[-1:]:
        ctx.sample([{k: e[k] for k in ("a", "name", "v", "how", "err_ppb", "rot_ppb", "got")} for e in t])
    judge(ctx, traces)


def replay(ctx: Ctx, case):
    r = tlc.run_tlc("MCAberrations", cfg_text=CFG.format(d=0, emit="FALSE", focus="FocusA", props=""), workers=1)
    tab = Table(json.loads(tlc.tla_value_to_py(r.printed("TABLE")[0])[1]))
    t = replay_hist(tab, [h for h in case["hist"]])
    ctx.case("replay")
    ctx.sample([{k: e[k] for k in ("a", "name", "v", "how", "err_ppb", "rot_ppb")} for e in t])
    judge(ctx, [t])
