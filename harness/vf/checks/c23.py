"""C23  Apertures and partial-coherence envelopes stay within physical bounds.

design  : TLC enumerates TransferModel: the scenario space (grid parity x extent x energy x cutoff class x soft/hard for
          apertures; spreads and aberration sets for envelopes and CTFs)
inputs  : every scenario evaluated on the real Aperture / TemporalEnvelope / SpatialEnvelope / CTF objects
verdict : TransferTrace: bounds on the logged fixed-point observations (extrema, value at zero angle, extrema over the
          inside / outside zones, max(|CTF| - aperture)); coverage: every enumerated scenario observed
"""
from __future__ import annotations

import json

import numpy as np

from ..core import Ctx, Machinery
from ..rat import fixed
from .. import tlc

FOCAL = [0.0, 10.0, 100.0]
ANGULAR = [0.0, 0.5, 5.0]
ABS = {"none": {}, "defocus": {"defocus": 80.0}, "cs_defocus": {"Cs": 1.2e7, "defocus": -350.0},
       "astigmatism": {"astigmatism": 60.0, "astigmatism_angle": 0.7, "defocus": 20.0}, "coma": {"coma": 3000.0, "coma_angle": -0.4}}


def geometry(c):
    from abtem.core.energy import energy2wavelength
    energy = c["energy"] * 1e3
    lam = energy2wavelength(energy)
    gpts, extent = tuple(c["gpts"]), tuple(float(x) for x in c["extent"])
    dax, day = lam / extent[0] * 1e3, lam / extent[1] * 1e3          # mrad per pixel
    nyq = min(dax * (gpts[0] // 2), day * (gpts[1] // 2))
    cutoff = {"sub_pixel": 0.4 * min(dax, day), "one_pixel": 1.0 * max(dax, day), "mid": 0.45 * nyq, "near_nyquist": 0.93 * nyq}[c["cutoff"]]
    return energy, lam, gpts, extent, (dax, day), cutoff


def observe(c):
    import abtem
    energy, lam, gpts, extent, (dax, day), cutoff = geometry(c)
    ev = {"kind": c["kind"], "case": c, "raised": False, "soft": bool(c["soft"]), "min_fp": 0, "max_fp": 0, "at_zero": 0, "n_inner": 0,
          "n_outer": 0, "inner_min": 0, "inner_max": 0, "outer_min": 0, "outer_max": 0, "binary": True, "excess_fp": 0}
    try:
        kx = np.fft.fftfreq(gpts[0], extent[0] / gpts[0])
        ky = np.fft.fftfreq(gpts[1], extent[1] / gpts[1])
        alpha = np.sqrt(kx[:, None] ** 2 + ky[None, :] ** 2) * lam * 1e3          # mrad, independent of abTEM's grid helpers
        half = 0.5 * max(dax, day)
        if c["kind"] == "aperture":
            obj = abtem.Aperture(semiangle_cutoff=cutoff, soft=c["soft"], energy=energy, extent=extent, gpts=gpts)
            k = np.asarray(obj._evaluate_kernel()).real.astype(np.float64)
            margin = half if c["soft"] else 1e-6 * max(cutoff, 1.0)
            inner, outer = alpha < cutoff - margin, alpha > cutoff + margin
            ev["n_inner"], ev["n_outer"] = int(inner.sum()), int(outer.sum())
            if inner.any():
                ev["inner_min"], ev["inner_max"] = fixed(k[inner].min()), fixed(k[inner].max())
            if outer.any():
                ev["outer_min"], ev["outer_max"] = fixed(k[outer].min()), fixed(k[outer].max())
            ev["binary"] = bool(np.all((k == 0.0) | (k == 1.0)))
        elif c["kind"] == "temporal":
            obj = abtem.transfer.TemporalEnvelope(focal_spread=FOCAL[c["spread"]], energy=energy, extent=extent, gpts=gpts)
            k = np.asarray(obj._evaluate_kernel()).real.astype(np.float64)
        elif c["kind"] == "spatial":
            obj = abtem.transfer.SpatialEnvelope(angular_spread=ANGULAR[c["spread"]], energy=energy, extent=extent, gpts=gpts, **ABS[c["ab"]])
            k = np.asarray(obj._evaluate_kernel()).real.astype(np.float64)
        else:
            kw = dict(semiangle_cutoff=cutoff, soft=c["soft"], energy=energy, extent=extent, gpts=gpts)
            ctf = abtem.CTF(focal_spread=FOCAL[c["spread"]], angular_spread=ANGULAR[(c["spread"] + 1) % 3], **kw, **ABS[c["ab"]])
            ap = abtem.Aperture(**kw)
            k = np.abs(np.asarray(ctf._evaluate_kernel())).astype(np.float64)
            a = np.asarray(ap._evaluate_kernel()).real.astype(np.float64)
            ev["excess_fp"] = fixed(float((k - a).max()))
        ev["min_fp"], ev["max_fp"] = fixed(k.min()), fixed(k.max())
        ev["at_zero"] = fixed(k[0, 0])
    except Exception as ex:
        ev["raised"] = True
        ev["exc"] = f"{type(ex).__name__}: {ex}"[:200]
    return ev


def tags_for(ev, clauses):
    c = ev["case"]
    return {"clauses": sorted(clauses), "kind": c["kind"], "soft": c["soft"], "cutoff": c["cutoff"], "ab": c["ab"], "spread": c["spread"]}


def judge(ctx: Ctx, evs):
    res = ctx.validate("TransferTrace", [[e] for e in evs], "TransferTrace.cfg")
    for e, (ok, bad) in zip(evs, res):
        if not ok:
            tg = tags_for(e, bad[0][1])
            ctx.report(tg, {"event": e}, f"{tg['kind']}: {','.join(tg['clauses'])}: {json.dumps(e['case'])[:200]} "
                       f"min={e['min_fp']} max={e['max_fp']} inner=[{e['inner_min']},{e['inner_max']}] outer=[{e['outer_min']},{e['outer_max']}] "
                       f"excess={e['excess_fp']} {e.get('exc', '')}")


def self_test(ctx: Ctx):
    base = {"kind": "aperture", "raised": False, "soft": True, "min_fp": 0, "max_fp": 1000000, "at_zero": 1000000, "n_inner": 5, "n_outer": 9,
            "inner_min": 1000000, "inner_max": 1000000, "outer_min": 0, "outer_max": 0, "binary": False, "excess_fp": 0}
    b1 = dict(base, outer_max=400000)
    b2 = dict(base, max_fp=1300000)
    b3 = dict(base, kind="ctf", excess_fp=5000)
    b4 = dict(base, kind="temporal", at_zero=900000)
    res = ctx.validate("TransferTrace", [[base], [b1], [b2], [b3], [b4]], "TransferTrace.cfg")
    if not res[0][0] or any(r[0] for r in res[1:]):
        raise Machinery(f"TransferTrace self-test failed: {res}")
    ctx.notes["binding_selftest"] = {"good_accepted": True, "leak_outside_cutoff_rejected": res[1][1], "above_one_rejected": res[2][1],
                                    "ctf_excess_rejected": res[3][1], "envelope_not_one_at_zero_rejected": res[4][1]}


def run(ctx: Ctx):
    ctx.rule = ("scenarios = kind x grid parity (4) x extent (2) x energy (2) x cutoff class (4) x soft/hard x spreads (3) x aberration "
                "sets (5), pruned per kind, all enumerated by TLC and all evaluated; non-trivial = every scenario (each is a distinct "
                "kernel)")
    r = ctx.design_check("TransferModel", "TransferModel.cfg", label="scenario enumeration", workers=1)
    self_test(ctx)
    cases = [json.loads(tlc.tla_value_to_py(s)[1]) for s in r.printed("CASE")]
    evs = []
    for c in cases:
        evs.append(observe(c))
        ctx.case(json.dumps(c, sort_keys=True))
    if len(evs) != len(cases) or not cases:
        raise Machinery("coverage: not every enumerated scenario was observed")
    ctx.exhaustive = True
    ctx.notes["scenarios"] = len(cases)
    for e in evs[:1] + evs[-1:]:
        ctx.sample(e)
    judge(ctx, evs)


def replay(ctx: Ctx, case):
    ev = observe(case["event"]["case"])
    ctx.case("replay")
    ctx.sample(ev)
    judge(ctx, [ev])
