"""C23  Apertures and partial-coherence envelopes stay within physical bounds.

design  : TLC enumerates TransferModel: the scenario space (grid parity x extent x energy x cutoff class x soft/hard for
          apertures; spreads and aberration sets for envelopes and CTFs)
inputs  : every scenario evaluated on the real Aperture / TemporalEnvelope / SpatialEnvelope / CTF objects
verdict : TransferTrace: bounds on the logged fixed-point observations (extrema, value at zero angle, extrema over the
          inside / outside zones, max(|CTF| - aperture)); coverage: every enumerated scenario observed
"""
from __future__ import annotations

import json

import numpy as np

from ..core import Ctx, Machinery
from ..rat import fixed
from .. import tlc

FOCAL = [0.0, 10.0, 100.0]
ANGULAR = [0.0, 0.5, 5.0]
ABS = {"none": {}, "defocus": {"defocus": 80.0}, "cs_defocus": {"Cs": 1.2e7, "defocus": -350.0},
       "astigmatism": {"astigmatism": 60.0, "astigmatism_angle": 0.7, "defocus": 20.0}, "coma": {"coma": 3000.0, "coma_angle": -0.4}}


import zlib
from ..routes import reroute

def geometry(c):
    from abtem.core.energy import energy2wavelength
    energy = c["energy"] * 1e3
    lam = energy2wavelength(energy)
    gpts, extent = tuple(c["gpts"]), tuple(float(x) for x in c["extent"])
    dax, day = lam / extent[0] * 1e3, lam / extent[1] * 1e3          # mrad per pixel
    nyq = min(dax * (gpts[0] // 2), day * (gpts[1] // 2))
    return energy, lam, gpts, extent, (dax, day), None


def cutoff_for(cc, lam, gpts, extent):
    dax, day = lam / extent[0] * 1e3, lam / extent[1] * 1e3          # mrad per pixel
    nyq = min(dax * (gpts[0] // 2), day * (gpts[1] // 2))
    # largest on-axis angle (the Nyquist pixel row / column) and the corner of the grid
    ax_max = max(dax * (gpts[0] // 2), day * (gpts[1] // 2))
    corner = float(np.hypot(dax * (gpts[0] // 2), day * (gpts[1] // 2)))
    return {"sub_pixel": 0.4 * min(dax, day), "one_pixel": 1.0 * max(dax, day), "mid": 0.45 * nyq, "mid_b": 0.53 * nyq, "near_nyquist": 0.93 * nyq,
            "beyond_axis_nyquist": 0.5 * (ax_max + corner) + 0.3 * max(dax, day)}[cc]


def _spread(table, i):
    """index 3: a weighted series of spreads (non-unit weights, as a Gaussian focal-spread quadrature has) - an ensemble of envelopes"""
    import abtem
    if i < 3:
        return table[i]
    return abtem.distributions.from_values(np.array([table[1] * 0.5, table[1], table[2]]), weights=np.array([0.25, 2.0, 1.5]))


def build(kind, energy, extent, gpts, cutoff, soft, spread, ab):
    import abtem
    if kind == "aperture":
        return abtem.Aperture(semiangle_cutoff=cutoff, soft=soft, energy=energy, extent=extent, gpts=gpts)
    if kind == "temporal":
        return abtem.transfer.TemporalEnvelope(focal_spread=_spread(FOCAL, spread), energy=energy, extent=extent, gpts=gpts)
    if kind == "spatial":
        return abtem.transfer.SpatialEnvelope(angular_spread=_spread(ANGULAR, spread), energy=energy, extent=extent, gpts=gpts, **ABS[ab])
    return abtem.CTF(focal_spread=_spread(FOCAL, spread), angular_spread=ANGULAR[(spread + 1) % 3], semiangle_cutoff=cutoff, soft=soft, energy=energy,
                     extent=extent, gpts=gpts, **ABS[ab])


def measure(obj, kind, energy, extent, gpts, cutoff, soft, case):
    """Observations of one evaluation of `obj`, judged against the geometry of the parameters passed in (the CURRENT ones)."""
    import abtem
    from abtem.core.energy import energy2wavelength
    lam = energy2wavelength(energy)
    dax, day = lam / extent[0] * 1e3, lam / extent[1] * 1e3
    ev = {"kind": kind, "case": case, "raised": False, "soft": bool(soft), "min_fp": 0, "max_fp": 0, "at_zero": 0, "n_inner": 0,
          "n_outer": 0, "inner_min": 0, "inner_max": 0, "outer_min": 0, "outer_max": 0, "binary": True, "excess_fp": 0,
          "n_axis_inner": 0, "n_axis_outer": 0, "axis_inner_min": 0, "axis_outer_max": 0, "shape_ok": True}
    try:
        kx = np.fft.fftfreq(gpts[0], extent[0] / gpts[0])
        ky = np.fft.fftfreq(gpts[1], extent[1] / gpts[1])
        alpha = np.sqrt(kx[:, None] ** 2 + ky[None, :] ** 2) * lam * 1e3          # mrad, independent of abTEM's grid helpers
        half = 0.5 * max(dax, day)
        raw = np.asarray(obj._evaluate_kernel())
        if raw.shape[-2:] != tuple(gpts):
            ev["shape_ok"] = False
            return ev
        if kind == "aperture":
            k = raw.real.astype(np.float64)
            margin = half if soft else 1e-6 * max(cutoff, 1.0)
            inner, outer = alpha < cutoff - margin, alpha > cutoff + margin
            ev["n_inner"], ev["n_outer"] = int(inner.sum()), int(outer.sum())
            if inner.any():
                ev["inner_min"], ev["inner_max"] = fixed(k[inner].min()), fixed(k[inner].max())
            if outer.any():
                ev["outer_min"], ev["outer_max"] = fixed(k[outer].min()), fixed(k[outer].max())
            ev["binary"] = bool(np.all((k == 0.0) | (k == 1.0)))
            if soft:
                # on a coordinate axis the radial extent of a pixel is that axis' angular sampling: no reading of "half a pixel" is wider
                ins, outs = [], []
                for line, a, h in ((k[:, 0], alpha[:, 0], 0.5 * dax), (k[0, :], alpha[0, :], 0.5 * day)):
                    ins += list(line[a < cutoff - h * 1.0001])
                    outs += list(line[a > cutoff + h * 1.0001])
                ev["n_axis_inner"], ev["n_axis_outer"] = len(ins), len(outs)
                if ins:
                    ev["axis_inner_min"] = fixed(min(ins))
                if outs:
                    ev["axis_outer_max"] = fixed(max(outs))
        elif kind in ("temporal", "spatial"):
            k = raw.real.astype(np.float64)
        else:
            ap = abtem.Aperture(semiangle_cutoff=cutoff, soft=soft, energy=energy, extent=extent, gpts=gpts)
            k = np.abs(raw).astype(np.float64)
            a = np.asarray(ap._evaluate_kernel()).real.astype(np.float64)
            ev["excess_fp"] = fixed(float((k - a).max()))
        ev["min_fp"], ev["max_fp"] = fixed(k.min()), fixed(k.max())
        z = k[..., 0, 0].reshape(-1)                   # every member of an ensemble of transfer functions
        ev["at_zero"] = fixed(z[np.argmax(np.abs(z - 1.0))])
    except Exception as ex:
        ev["raised"] = True
        ev["exc"] = f"{type(ex).__name__}: {ex}"[:200]
    return ev


def observe(c):
    energy, lam, gpts, extent, (dax, day), _ = geometry(c)
    cutoff = cutoff_for(c["cutoff"], lam, gpts, extent)
    try:
        obj = build(c["kind"], energy, extent, gpts, cutoff, c["soft"], c["spread"], c["ab"])
        obj, _route = reroute(obj, zlib.crc32(json.dumps(c, sort_keys=True, default=str).encode()))     # through a copy / deepcopy / pickle
    except Exception as ex:
        return {"kind": c["kind"], "case": c, "raised": True, "exc": f"{type(ex).__name__}: {ex}"[:200]}
    return measure(obj, c["kind"], energy, extent, gpts, cutoff, c["soft"], c)


EXTENT_IDX = {1: (8.0, 8.0), 2: (8.0, 12.0), 3: (6.0, 18.0)}
GPTS_IDX = {1: (16, 16), 2: (17, 24)}


class _EditNotOffered(Exception):
    pass


def _set(obj, name, value):
    try:
        setattr(obj, name, value)
    except AttributeError as ex:
        raise _EditNotOffered(str(ex))


def replay_history(h):
    """One TLC history on one real object; returns the trace (one event per Evaluate)."""
    from abtem.core.energy import energy2wavelength
    kind = h[0]["kind"]
    p = {"energy": 80, "extent": 1, "gpts": 1, "cutoff": "mid", "soft": kind != "aperture", "spread": 1}
    ab = "cs_defocus" if kind in ("ctf", "spatial") else "none"

    def phys():
        e, x, g = p["energy"] * 1e3, EXTENT_IDX[p["extent"]], GPTS_IDX[p["gpts"]]
        return e, x, g, cutoff_for(p["cutoff"], energy2wavelength(e), g, x)
    e, x, g, cut = phys()
    trace = []
    try:
        obj = build(kind, e, x, g, cut, p["soft"], p["spread"], ab)
        obj, _route = reroute(obj, zlib.crc32(json.dumps([kind, str(p)], default=str).encode()))
        for i, st in enumerate(h[1:], start=1):
            a = st["a"]
            if a == "SetEnergy":
                p["energy"] = st["v"]; _set(obj, "energy", st["v"] * 1e3)
            elif a == "SetExtent":
                p["extent"] = st["v"]; _set(obj, "extent", EXTENT_IDX[st["v"]])
            elif a == "SetGpts":
                p["gpts"] = st["v"]; _set(obj, "gpts", GPTS_IDX[st["v"]])
            elif a == "SetSpread":
                p["spread"] = st["v"]
                if kind in ("ctf", "temporal"):
                    _set(obj, "focal_spread", FOCAL[st["v"]])
                if kind in ("ctf", "spatial"):
                    _set(obj, "angular_spread", ANGULAR[(st["v"] + 1) % 3] if kind == "ctf" else ANGULAR[st["v"]])
            elif a == "Copy":
                obj = obj.copy()
            if a in ("SetEnergy", "SetExtent", "SetGpts", "SetCutoff"):
                if a == "SetCutoff":
                    p["cutoff"] = st["v"]
                # the cutoff class is relative to the grid: keep the object's cutoff at the class value of its current geometry
                if kind in ("aperture", "ctf"):
                    _set(obj, "semiangle_cutoff", phys()[3])
            if a == "Evaluate":
                e, x, g, cut = phys()
                trace.append(measure(obj, kind, e, x, g, cut, p["soft"], {"kind": kind, "history": h[: i + 1], "step": i}))
    except _EditNotOffered:
        return trace            # the harness' own edit is not offered by this version of the API: the rest of the history is not applicable
    except Exception as ex:
        trace.append({"kind": kind, "case": {"kind": kind, "history": h}, "raised": True, "exc": f"{type(ex).__name__}: {ex}"[:200]})
    return trace


def tags_for(ev, clauses):
    c = ev["case"]
    if "history" in c:
        return {"clauses": sorted(clauses), "kind": c["kind"], "history": [st["a"] for st in c["history"]]}
    return {"clauses": sorted(clauses), "kind": c["kind"], "soft": c["soft"], "cutoff": c["cutoff"], "ab": c["ab"], "spread": c["spread"]}


def judge(ctx: Ctx, traces):
    traces = [t if isinstance(t, list) else [t] for t in traces]
    res = ctx.validate("TransferTrace", traces, "TransferTrace.cfg")
    for tr, (ok, bad) in zip(traces, res):
        if not ok:
            e = tr[bad[0][0] - 1]
            tg = tags_for(e, bad[0][1])
            ctx.report(tg, {"event": e}, f"{tg['kind']}: {','.join(tg['clauses'])}: {json.dumps(e['case'])[:300]} "
                       f"min={e.get('min_fp')} max={e.get('max_fp')} inner=[{e.get('inner_min')},{e.get('inner_max')}] "
                       f"outer=[{e.get('outer_min')},{e.get('outer_max')}] axis=[{e.get('axis_inner_min')},{e.get('axis_outer_max')}] "
                       f"excess={e.get('excess_fp')} {e.get('exc', '')}")


def self_test(ctx: Ctx):
    base = {"kind": "aperture", "raised": False, "soft": True, "min_fp": 0, "max_fp": 1000000, "at_zero": 1000000, "n_inner": 5, "n_outer": 9,
            "inner_min": 1000000, "inner_max": 1000000, "outer_min": 0, "outer_max": 0, "binary": False, "excess_fp": 0,
            "n_axis_inner": 3, "n_axis_outer": 4, "axis_inner_min": 1000000, "axis_outer_max": 0, "shape_ok": True}
    b1 = dict(base, outer_max=400000)
    b2 = dict(base, max_fp=1300000)
    b3 = dict(base, kind="ctf", excess_fp=5000)
    b4 = dict(base, kind="temporal", at_zero=900000)
    b5 = dict(base, axis_inner_min=700000)
    b6 = [base, dict(base, inner_min=0)]          # second evaluation of a history judged against stale geometry
    res = ctx.validate("TransferTrace", [[base], [b1], [b2], [b3], [b4], [b5], b6], "TransferTrace.cfg")
    if not res[0][0] or any(r[0] for r in res[1:]):
        raise Machinery(f"TransferTrace self-test failed: {res}")
    ctx.notes["binding_selftest"] = {"good_accepted": True, "leak_outside_cutoff_rejected": res[1][1], "above_one_rejected": res[2][1],
                                    "ctf_excess_rejected": res[3][1], "envelope_not_one_at_zero_rejected": res[4][1],
                                    "wide_edge_on_axis_rejected": res[5][1], "stale_second_evaluation_rejected": res[6][1]}


def run(ctx: Ctx):
    ctx.rule = ("scenarios = kind x grid parity (4) x extent (2) x energy (2) x cutoff class (4) x soft/hard x spreads (3) x aberration "
                "sets (5), pruned per kind, all enumerated by TLC and all evaluated; non-trivial = every scenario (each is a distinct "
                "kernel)")
    r = ctx.design_check("TransferModel", "TransferModel.cfg", label="scenario enumeration", workers=1)
    self_test(ctx)
    cases = [json.loads(tlc.tla_value_to_py(s)[1]) for s in r.printed("CASE")]
    evs = []
    for c in cases:
        evs.append(observe(c))
        ctx.case(json.dumps(c, sort_keys=True))
    if len(evs) != len(cases) or not cases:
        raise Machinery("coverage: not every enumerated scenario was observed")
    ctx.exhaustive = True
    ctx.notes["scenarios"] = len(cases)
    for e in evs[:1] + evs[-1:]:
        ctx.sample(e)
    # histories on one object: evaluate, edit through the public setters / copy, evaluate again
    hcfg = ("SPECIFICATION Spec\nCONSTANTS\n  MaxLen = %d\n  Emit = TRUE\n  CacheAngularGrid = FALSE\nINVARIANT EvaluationUsesCurrentParameters\n"
            "INVARIANT EmitHistory\nCHECK_DEADLOCK FALSE\n" % (5 if ctx.tier == "quick" else 6))
    rh = ctx.design_check("TransferHist", cfg_text=hcfg, label="histories: every evaluation uses the current parameters", workers=1)
    hists = [json.loads(tlc.tla_value_to_py(s)[1]) for s in rh.printed("HIST")]
    hists.sort(key=lambda h: json.dumps(h, sort_keys=True))
    if ctx.tier == "quick":
        import random
        rng = random.Random(ctx.seed)
        rng.shuffle(hists)
        # stratified: every (kind, set of setter names used) once, then the seeded remainder
        seen, first, rest = set(), [], []
        for h in hists:
            k = (h[0]["kind"], tuple(sorted({st["a"] for st in h[1:]})))
            (rest if k in seen else first).append(h)
            seen.add(k)
        hists = first + rest[:150]
    htraces = []
    for h in hists:
        tr = replay_history(h)
        if tr:
            htraces.append(tr)
        ctx.case("hist:" + json.dumps(h, sort_keys=True))
    ctx.notes["histories"] = len(htraces)
    if htraces:
        ctx.sample(htraces[0][-1])
    judge(ctx, evs + htraces)


def replay(ctx: Ctx, case):
    c = case["event"]["case"]
    tr = replay_history(c["history"]) if "history" in c else [observe(c)]
    ctx.case("replay")
    ctx.sample(tr[-1])
    judge(ctx, [tr])
