"""C11  A potential reused after changing its grid behaves like a fresh one.

design  : TLC explores PotentialCacheImpl: every history (<= 4 steps) of Build / SetGpts / SetSampling over three grids with the
          per-element cache remembering its grid; every build must equal the fresh potential at the current grid (the cache
          keyed by element only gives TLC's 3-step counterexample Build; SetGpts; Build)
inputs  : TLC's histories replayed on real Potential objects (infinite and finite projection, one and two elements, building
          directly and through a multislice run)
verdict : PotentialCacheTrace: after every build, result == a newly constructed potential at the same grid (logged
          deviation), and both raise or neither
"""
from __future__ import annotations

import json
import random

import numpy as np

from ..core import Ctx, Machinery
from ..rat import ppb
from .. import tlc
from ..ms import relerr

CFG = """SPECIFICATION Spec
CONSTANTS
  Grids = {{1, 2, 3}}
  Depth = {d}
  Emit = {emit}
  KeyedByGrid = TRUE
{props}
CHECK_DEADLOCK FALSE
"""
GPTS = {1: (12, 12), 2: (16, 16), 3: (20, 12)}
EXTENT = 4.0


def atoms_for(elements):
    from ase import Atoms
    pos = [(0.9, 1.3, 1.0), (2.6, 2.2, 3.0), (1.5, 3.1, 2.2)][: len(elements)]
    return Atoms(elements, positions=pos, cell=(EXTENT, EXTENT, 4.0), pbc=True)


def new_potential(elements, projection, g):
    import abtem
    return abtem.Potential(atoms_for(elements), gpts=GPTS[g], slice_thickness=2.0, projection=projection)


def do_build(pot, via):
    import abtem
    if via == "build":
        return np.asarray(pot.build(lazy=False).array)
    w = abtem.PlaneWave(energy=100e3).multislice(pot, lazy=False)
    return np.asarray(w.array)


def replay_hist(hist, elements, projection, via):
    g0 = hist[0]["g"]
    trace = []
    pot = new_potential(elements, projection, g0)
    g = g0
    for st in hist[1:]:
        ev = {"a": st["a"], "g": st["g"], "raised": False, "fresh_raised": False, "err_ppb": 0}
        if st["a"] == "set_gpts":
            pot.gpts = GPTS[st["g"]]
            g = st["g"]
        elif st["a"] == "set_sampling":
            pot.sampling = (EXTENT / GPTS[st["g"]][0], EXTENT / GPTS[st["g"]][1])
            g = st["g"]
            if tuple(pot.gpts) != GPTS[g]:
                ev["note"] = f"sampling assignment gave gpts {tuple(pot.gpts)}"
        else:
            got = ref = None
            try:
                got = do_build(pot, via)
            except Exception as ex:
                ev["raised"] = True
                ev["exc"] = f"{type(ex).__name__}: {ex}"[:200]
            try:
                import abtem
                fresh = abtem.Potential(atoms_for(elements), gpts=tuple(pot.gpts), slice_thickness=2.0, projection=projection)
                ref = do_build(fresh, via)
            except Exception as ex:
                ev["fresh_raised"] = True
            if got is not None and ref is not None:
                ev["err_ppb"] = ppb(relerr(got, ref))
        trace.append(ev)
    return trace


def judge(ctx: Ctx, items):
    res = ctx.validate("PotentialCacheTrace", [t for _, t in items], "PotentialCacheTrace.cfg")
    for (meta, t), (ok, bad) in zip(items, res):
        if not ok:
            line, clauses = bad[0]
            builds_before = sum(1 for e in t[: line - 1] if e["a"] == "build")
            tg = {"clauses": sorted(clauses), "projection": meta["projection"], "via": meta["via"], "earlier_builds": builds_before > 0}
            ctx.report(tg, {"meta": meta, "bad": bad, "trace": t},
                       f"{json.dumps(meta)[:260]}: build #{builds_before + 1} at line {line}: {','.join(tg['clauses'])} err_ppb={t[line - 1]['err_ppb']} "
                       f"{t[line - 1].get('exc', '')}")


def self_test(ctx: Ctx):
    good = [{"a": "build", "g": 1, "raised": False, "fresh_raised": False, "err_ppb": 0}, {"a": "set_gpts", "g": 2, "raised": False, "fresh_raised": False, "err_ppb": 0},
            {"a": "build", "g": 2, "raised": False, "fresh_raised": False, "err_ppb": 12}]
    b1 = json.loads(json.dumps(good)); b1[2]["err_ppb"] = 4 * 10 ** 8
    b2 = json.loads(json.dumps(good)); b2[2]["raised"] = True
    res = ctx.validate("PotentialCacheTrace", [good, b1, b2], "PotentialCacheTrace.cfg")
    if not res[0][0] or res[1][0] or res[2][0]:
        raise Machinery(f"PotentialCacheTrace self-test failed: {res}")
    ctx.notes["binding_selftest"] = {"good_accepted": True, "stale_result_rejected": res[1][1], "raise_mismatch_rejected": res[2][1]}


def run(ctx: Ctx):
    quick = ctx.tier == "quick"
    ctx.rule = ("histories (<= 4 steps, thorough 5) of build / gpts assignment / sampling assignment over three grids, all emitted by "
                "TLC; replayed on Potential objects with infinite and finite projection, one and two elements, building directly and "
                "through PlaneWave.multislice; non-trivial = a build after a grid change that followed an earlier build")
    ctx.design_check("PotentialCacheImpl", cfg_text=CFG.format(d=4 if quick else 6, emit="FALSE", props="PROPERTY BuildsFresh\nVIEW DesignView\n"),
                     label="PotentialCacheImpl=>PotentialCache", timeout=3000)
    self_test(ctx)
    r = tlc.run_tlc("PotentialCacheImpl", cfg_text=CFG.format(d=4 if quick else 5, emit="TRUE", props="CONSTRAINT AtBound\n"), workers=1, timeout=3000)
    if r.error:
        raise Machinery("behaviour emission failed: " + r.error)
    beh = sorted({tlc.tla_value_to_py(s)[1] for s in r.printed("BEH")})
    ctx.notes["histories_from_tlc"] = len(beh)
    rng = random.Random(ctx.seed)

    def interesting(h):
        seen_build = changed = False
        for st in h[1:]:
            if st["a"] == "build":
                if seen_build and changed:
                    return True
                seen_build = True
            elif seen_build:
                changed = True
        return False
    hs = [json.loads(b) for b in beh]
    good = [h for h in hs if interesting(h)]
    rng.shuffle(good)
    combos = [(["Si"], "infinite", "build"), (["Si", "C"], "infinite", "multislice"), (["C", "O"], "finite", "build"), (["Si", "O", "C"], "infinite", "build"),
              (["C"], "finite", "build"), (["Si", "C"], "finite", "multislice")]
    items = []
    for j, h in enumerate(good[: (60 if quick else 1200)]):
        el, proj, via = combos[j % len(combos)]
        if quick and proj == "finite" and j >= 18:            # finite projection integrals are slow: the first 18 histories of every seed carry them
            el, proj, via = combos[j % 2]
        meta = {"hist": h, "elements": el, "projection": proj, "via": via}
        items.append((meta, replay_hist(h, el, proj, via)))
        ctx.case(json.dumps(meta), nontrivial=True)
    ctx.notes["histories_replayed"] = len(items)
    for meta, t in items[:1] + items[-1:]:
        ctx.sample({"meta": meta, "trace": t})
    judge(ctx, items)


def replay(ctx: Ctx, case):
    m = case["meta"]
    t = replay_hist(m["hist"], m["elements"], m["projection"], m["via"])
    ctx.case("replay")
    ctx.sample({"meta": m, "trace": t})
    judge(ctx, [(m, t)])
