"""C19  Ensemble partitioning reassembles every member exactly once.

design  : TLC enumerates EnsembleModel: every shape (rank 1-2, axis length <= 4/5) and every chunking (all compositions per
          axis); the model's own chunk_ranges-based split satisfies Ensemble.tla and reassembles to the identity
inputs  : every enumerated (shape, chunking) applied to every ensemble kind of matching rank on the real code, eagerly
          (generate_blocks) and lazily (ensemble_blocks().compute())
verdict : EnsembleTrace: each block holds exactly the members its chunk range selects, in order, every block index once,
          slices = ranges, lazy = eager
"""
from __future__ import annotations

import json
import os
import random

import numpy as np

from ..core import Ctx, Machinery
from .. import tlc

CFG = """SPECIFICATION Spec
CONSTANTS
  MaxLen = {n}
  Ranks = {ranks}
  Emit = TRUE
INVARIANT ModelOK
INVARIANT EmitCase
CHECK_DEADLOCK FALSE
"""


class Intern:
    def __init__(self):
        self.d = {}

    def __call__(self, v):
        k = json.dumps(v, sort_keys=True, default=lambda o: repr(o))
        if k not in self.d:
            self.d[k] = len(self.d) + 1
        return self.d[k]


def rnd(x):
    return round(float(x), 5)


def _atoms(i=0):
    from ase import Atoms
    return Atoms("C2", positions=[(0.5 + 0.01 * i, 0.5, 0.5), (1.5, 1.5, 1.0)], cell=(2.0, 2.0, 2.0))


# --------------------------------------------------------------------------- ensemble kinds
def k_line_scan(shape, endpoint, v=0):
    from abtem.scan import LineScan
    obj = LineScan(start=(0.25 + 0.5 * v, 0.5 - 0.25 * v), end=(0.25 + 0.5 * v + 0.75 * shape[0], 0.5 - 0.25 * v), gpts=shape[0], endpoint=endpoint)
    return obj, lambda o: [[(rnd(p[0]), rnd(p[1])) for p in o.get_positions()]]


def k_line_scan_moved(shape, endpoint):
    """a LineScan that has been partitioned once, then pointed somewhere else: the end moves to another point at the SAME distance
    from the start (the scalar extent, gpts and sampling do not change), and the scan is partitioned again"""
    obj, axes = k_line_scan(shape, endpoint)

    def edit(o):
        L = float(np.hypot(o.end[0] - o.start[0], o.end[1] - o.start[1]))
        o.end = (o.start[0] + 0.6 * L, o.start[1] + 0.8 * L)
        o.gpts = shape[0]
    return obj, axes, (lambda o: True), edit


def k_grid_scan_moved(shape, endpoint):
    """a GridScan partitioned once, then translated as a whole (same extent, gpts, sampling), then partitioned again"""
    obj, axes = k_grid_scan(shape, endpoint)

    def edit(o):
        s, e = tuple(o.start), tuple(o.end)
        o.start = (s[0] + 0.375, s[1] - 0.25)
        o.end = (e[0] + 0.375, e[1] - 0.25)
        o.gpts = tuple(shape)
    return obj, axes, (lambda o: True), edit


def k_custom_scan(shape, v=0):
    from abtem.scan import CustomScan
    pos = np.array([[0.3 * i + 0.125 * v, 1.0 - 0.2 * i * i - 0.25 * v] for i in range(shape[0])])
    return CustomScan(pos), lambda o: [[(rnd(p[0]), rnd(p[1])) for p in o.get_positions()]]


def k_grid_scan(shape, endpoint, v=0):
    from abtem.scan import GridScan
    obj = GridScan(start=(0.0 + 0.25 * v, 0.5 + 0.5 * v), end=(1.5 + 0.25 * v, 3.0 + 0.5 * v), gpts=tuple(shape), endpoint=endpoint)

    def axes(o):
        p = np.asarray(o.get_positions(), dtype=float)
        return [[rnd(v) for v in p[:, 0, 0]], [rnd(v) for v in p[0, :, 1]]]
    return obj, axes


def _dist(n, k=0, weights=True):
    import abtem
    vals = np.array([1.5 * i - 0.7 * k + 0.25 * i * i for i in range(n)])
    w = np.array([1.0 + 0.5 * i for i in range(n)]) if weights else None
    return abtem.distributions.from_values(vals, w)


def _dist_ident(d):
    return [(rnd(v), rnd(w)) for v, w in zip(np.asarray(d.values).ravel(), np.asarray(d.weights).ravel())]


def k_aperture(shape, v=0):
    import abtem
    obj = abtem.Aperture(semiangle_cutoff=_dist(shape[0], 0 + 5 * v), energy=100e3)
    return obj, lambda o: [_dist_ident(o.semiangle_cutoff)]


def k_ctf2(shape, v=0):
    import abtem
    obj = abtem.CTF(defocus=_dist(shape[0], 1 + 5 * v), Cs=_dist(shape[1], 2 + 3 * v, weights=False), energy=100e3)
    return obj, lambda o: [_dist_ident(o.defocus), _dist_ident(o.Cs)]


def k_frozen_phonons(shape, v=0):
    import abtem
    seeds = tuple([1000003, 17, 65537, 3, 424242, 5, 99991, 8][i % 8] + 10 * (i // 8) + 1000 * v for i in range(shape[0]))
    obj = abtem.FrozenPhonons(_atoms(), num_configs=shape[0], sigmas=0.1, seed=seeds)
    return obj, lambda o: [[int(s) for s in o.seed]]


def k_frozen_phonons_generated(shape, v=0):
    import abtem
    obj = abtem.FrozenPhonons(_atoms(), num_configs=shape[0], sigmas=0.1, seed=3 + v)
    return obj, lambda o: [[int(s) for s in o.seed]]


def k_atoms_ensemble(shape, v=0):
    import abtem
    obj = abtem.AtomsEnsemble([_atoms(i + 11 * v) for i in range(shape[0])])

    def axes(o):
        tr = o.trajectory
        if hasattr(tr, "compute"):
            tr = tr.compute()
        return [[rnd(a.positions[0, 0]) for a in list(np.asarray(tr, dtype=object).ravel())]]
    return obj, axes


def _array_obj(shape, axis_kinds, lazy, cls="Waves"):
    import abtem
    from abtem.core import axes as A
    import dask.array as da
    full = tuple(shape) + (4, 4)
    arr = np.zeros(full, dtype=np.complex64 if cls == "Waves" else np.float32)
    for idx in np.ndindex(tuple(shape)):
        arr[idx] = sum((i + 1) * (100 ** (len(shape) - 1 - d)) for d, i in enumerate(idx))
    md = []
    for d, (n, kind) in enumerate(zip(shape, axis_kinds)):
        if kind == "ordinal":
            md.append(A.ThicknessAxis(values=tuple(2.0 * i + d for i in range(n))))
        elif kind == "param":
            md.append(A.ParameterAxis(label="C10", values=tuple(-1.0 * i for i in range(n)), _ensemble_mean=True))
        elif kind == "positions":
            md.append(A.PositionsAxis(values=tuple((0.1 * i, 0.2 * i) for i in range(n))))
        elif kind == "scan":
            md.append(A.ScanAxis(label="x", sampling=0.3, offset=0.5, units="Å"))
        elif kind == "fp":
            md.append(A.FrozenPhononsAxis())
    a = da.from_array(arr, chunks=(1,) * len(shape) + (4, 4)) if lazy else arr
    if cls == "Waves":
        obj = abtem.Waves(a, energy=100e3, sampling=0.1, ensemble_axes_metadata=md)
    else:
        obj = abtem.Images(a, sampling=0.1, ensemble_axes_metadata=md)

    def axes(o):
        if hasattr(o, "compute"):
            o = o.compute()
        x = np.asarray(o.array).real
        out = []
        k = len(shape)
        for d in range(k):
            sel = tuple(slice(None) if e == d else 0 for e in range(k)) + (0, 0)
            ids = [int(round(v)) // (100 ** (k - 1 - d)) % 100 for v in x[sel]]
            m = o.ensemble_axes_metadata[d]
            if hasattr(m, "values"):
                vals = [json.dumps(v) for v in m.values]
                if len(vals) != len(ids):
                    vals = (vals + ["?"] * len(ids))[: len(ids)] if len(vals) < len(ids) else vals[: len(ids)] + ["extra"]
                out.append([(i, v) for i, v in zip(ids, vals)] if len(vals) == len(ids) else [("len-mismatch", len(vals))])
            else:
                out.append([(i, type(m).__name__, m.label, rnd(getattr(m, "sampling", 0.0))) for i in ids])
        return out

    def product_ok(o):
        if hasattr(o, "compute"):
            o = o.compute()
        x = np.asarray(o.array).real
        return bool(np.all(x == x[..., :1, :1]))
    return obj, axes, product_ok


KINDS1 = {
    "line_scan": lambda sh, v=0: k_line_scan(sh, False, v), "line_scan_endpoint": lambda sh, v=0: k_line_scan(sh, True, v),
    "line_scan_moved_after_partition": lambda sh: k_line_scan_moved(sh, False), "line_scan_endpoint_moved_after_partition": lambda sh: k_line_scan_moved(sh, True),
    "custom_scan": k_custom_scan, "aperture_distribution": k_aperture, "frozen_phonons": k_frozen_phonons, "frozen_phonons_generated_seeds": k_frozen_phonons_generated,
    "atoms_ensemble": k_atoms_ensemble,
    "waves_ordinal": lambda sh: _array_obj(sh, ["ordinal"], False), "waves_ordinal_lazy": lambda sh: _array_obj(sh, ["ordinal"], True),
    "waves_scan_axis": lambda sh: _array_obj(sh, ["scan"], False), "waves_positions": lambda sh: _array_obj(sh, ["positions"], True),
    "images_param": lambda sh: _array_obj(sh, ["param"], False, "Images"),
}
KINDS2 = {
    "grid_scan": lambda sh, v=0: k_grid_scan(sh, False, v), "grid_scan_endpoint": lambda sh, v=0: k_grid_scan(sh, (True, False), v),
    "grid_scan_endpoint2": lambda sh, v=0: k_grid_scan(sh, True, v), "grid_scan_moved_after_partition": lambda sh: k_grid_scan_moved(sh, False),
    "ctf_two_distributions": k_ctf2,
    "waves_fp_scan": lambda sh: _array_obj(sh, ["fp", "scan"], False), "waves_ordinal_positions_lazy": lambda sh: _array_obj(sh, ["ordinal", "positions"], True),
    "images_scan_scan": lambda sh: _array_obj(sh, ["scan", "scan"], True, "Images"),
}


def _names_shared(a, b):
    """some task key occurs in both graphs with different payloads (GraphNames.tla: merged by name, one of them is lost)"""
    try:
        from dask.base import tokenize
        ga, gb = dict(a.__dask_graph__()), dict(b.__dask_graph__())
        for k in set(ga) & set(gb):
            if ga[k] is not gb[k] and tokenize(ga[k]) != tokenize(gb[k]):
                return True
    except Exception:
        pass
    return False


def observe(kind, shape, chunks):
    from abtem.core.chunks import chunk_ranges
    made = (KINDS1 if len(shape) == 1 else KINDS2)[kind](list(shape))
    obj, axes_fn = made[0], made[1]
    prod_fn = made[2] if len(made) > 2 else (lambda o: True)
    it = Intern()
    ev = {"kind": kind, "shape": list(shape), "chunks": [list(c) for c in chunks], "raised": False, "members": [],
          "eager": [], "lazy": [], "product_ok": True, "names_shared": False}
    try:
        ch = tuple(tuple(c) for c in chunks)
        if len(made) > 3:
            # objects have histories: partition once (both routes), edit the object through its public setters, partition again
            list(obj.generate_blocks(ch))
            obj.ensemble_blocks(ch).compute(scheduler="synchronous")
            made[3](obj)
        ev["members"] = [[it(v) for v in ax] for ax in axes_fn(obj)]
        # the partitioned object reaches the two routes through a copy / deepcopy / pickle round trip (what dask does to ship it)
        import zlib
        from ..routes import reroute
        r = zlib.crc32(json.dumps([kind, list(shape), [list(c) for c in chunks]]).encode())
        obj_e, ev["route_eager"] = reroute(obj, r)
        obj_l, ev["route_lazy"] = reroute(obj, r // 4)
        for idx, slics, blk in obj_e.generate_blocks(ch):
            b = blk.item() if isinstance(blk, np.ndarray) else blk
            ev["eager"].append({"idx": [int(i) + 1 for i in idx], "axes": [[it(v) for v in ax] for ax in axes_fn(b)],
                                "slices": [[int(s.start), int(s.stop)] for s in slics]})
            ev["product_ok"] = ev["product_ok"] and prod_fn(b)
        # the lazy blocks are computed in ONE dask graph together with those of a sibling ensemble of the same kind, shape and chunking
        # but other parameters (other start point, other seeds, other values): every ensemble gets its own blocks back
        import dask
        import inspect
        maker = (KINDS1 if len(shape) == 1 else KINDS2)[kind]
        sib = maker(list(shape), 1)[0] if "v" in inspect.signature(maker).parameters else None
        if sib is not None:
            la, lb = obj_l.ensemble_blocks(ch), sib.ensemble_blocks(ch)
            ev["names_shared"] = _names_shared(la, lb)
            arr, arr_sib = dask.compute(la, lb, scheduler="synchronous")
            ev["sibling"] = {"kind": kind, "shape": list(shape), "chunks": [list(c) for c in chunks], "raised": False, "joint_sibling": True, "names_shared": False,
                             "members": [[it(v) for v in ax] for ax in axes_fn(sib)], "eager": [], "lazy": [], "product_ok": True}
            for idx, slics, blk in sib.generate_blocks(ch):
                b = blk.item() if isinstance(blk, np.ndarray) else blk
                ev["sibling"]["eager"].append({"idx": [int(i) + 1 for i in idx], "axes": [[it(v) for v in ax] for ax in axes_fn(b)],
                                               "slices": [[int(s.start), int(s.stop)] for s in slics]})
            for idx in np.ndindex(arr_sib.shape):
                b = arr_sib[idx]
                b = b.item() if isinstance(b, np.ndarray) else b
                ev["sibling"]["lazy"].append({"idx": [int(i) + 1 for i in idx], "axes": [[it(v) for v in ax] for ax in axes_fn(b)], "slices": []})
        else:
            arr = obj_l.ensemble_blocks(ch).compute(scheduler="synchronous")
        for idx in np.ndindex(arr.shape):
            b = arr[idx]
            b = b.item() if isinstance(b, np.ndarray) else b
            ev["lazy"].append({"idx": [int(i) + 1 for i in idx], "axes": [[it(v) for v in ax] for ax in axes_fn(b)], "slices": []})
            ev["product_ok"] = ev["product_ok"] and prod_fn(b)
    except Exception as ex:
        ev["raised"] = True
        ev["exc"] = f"{type(ex).__name__}: {ex}"[:300]
    return ev


def observe_divide(shape, chunks, lazy_first):
    """BaseDistribution.divide: a second partition API (used by EnsembleFromDistributions._partition_args)"""
    d = _dist(shape[0], 3)
    it = Intern()
    ev = {"kind": "distribution_divide", "shape": list(shape), "chunks": [list(chunks[0])], "raised": False,
          "members": [[it(v) for v in _dist_ident(d)]], "eager": [], "lazy": [], "product_ok": True, "names_shared": False}
    try:
        from abtem.core.chunks import chunk_ranges
        rng = chunk_ranges((tuple(chunks[0]),))[0]
        for i, b in enumerate(d.divide(tuple(chunks[0]), lazy=False)):
            ev["eager"].append({"idx": [i + 1], "axes": [[it(v) for v in _dist_ident(b)]], "slices": [list(rng[i])]})
        for i, b in enumerate(d.divide(tuple(chunks[0]), lazy=True).compute(scheduler="synchronous")):
            ev["lazy"].append({"idx": [i + 1], "axes": [[it(v) for v in _dist_ident(b)]], "slices": []})
    except Exception as ex:
        ev["raised"] = True
        ev["exc"] = f"{type(ex).__name__}: {ex}"[:300]
    return ev


def tags_for(ev, clauses):
    return {"clauses": sorted(clauses), "kind": ev["kind"], "rank": len(ev["shape"]), "single_block": all(len(c) == 1 for c in ev["chunks"]),
            "single_member": all(n == 1 for n in ev["shape"])}


def judge(ctx: Ctx, evs):
    flat = []
    for e in evs:
        flat.append(({k: v for k, v in e.items() if k != "sibling"}, e))
        if "sibling" in e:
            flat.append((e["sibling"], e))
    res = ctx.validate("EnsembleTrace", [[f] for f, _ in flat], "EnsembleTrace.cfg")
    for (f, e), (ok, bad) in zip(flat, res):
        if not ok:
            clauses = set().union(*[set(cl) for _l, cl in bad])
            growth = {x for x in clauses if x.startswith("growth_")}
            if growth and len(ctx.drift) < 20:
                ctx.drift.append({"clauses": sorted(growth), "kind": e["kind"], "shape": e["shape"], "chunks": e["chunks"],
                                  "note": "growth (GraphNames.tla): two distinct lazy ensembles share a task name"})
            if not clauses - growth:
                continue
            tg = tags_for(e, sorted(clauses - growth))
            if f.get("joint_sibling"):
                tg["joint_sibling"] = True
            ctx.report(tg, {"event": {k: v for k, v in e.items() if k != "sibling"}}, f"{e['kind']} shape={e['shape']} chunks={e['chunks']}: {','.join(tg['clauses'])} {e.get('exc', '')}")


def self_test(ctx: Ctx):
    good = {"kind": "x", "shape": [3], "chunks": [[2, 1]], "raised": False, "members": [[7, 8, 9]], "product_ok": True, "names_shared": False,
            "eager": [{"idx": [1], "axes": [[7, 8]], "slices": [[0, 2]]}, {"idx": [2], "axes": [[9]], "slices": [[2, 3]]}],
            "lazy": [{"idx": [1], "axes": [[7, 8]], "slices": []}, {"idx": [2], "axes": [[9]], "slices": []}]}
    c1 = json.loads(json.dumps(good)); c1["lazy"][1]["axes"] = [[8]]            # a member delivered twice, one lost
    c2 = json.loads(json.dumps(good)); c2["eager"] = c2["eager"][:1]             # a block missing
    c3 = json.loads(json.dumps(good)); c3["eager"][0]["axes"] = [[8, 7]]         # order changed
    res = ctx.validate("EnsembleTrace", [[good], [c1], [c2], [c3]], "EnsembleTrace.cfg")
    if not res[0][0] or res[1][0] or res[2][0] or res[3][0]:
        raise Machinery(f"EnsembleTrace self-test failed: {res}")
    ctx.notes["binding_selftest"] = {"good_accepted": True, "duplicated_member_rejected": res[1][1],
                                    "missing_block_rejected": res[2][1], "reordered_members_rejected": res[3][1]}


def run(ctx: Ctx):
    quick = ctx.tier == "quick"
    ctx.rule = ("(shape, chunking) pairs: every shape of rank 1-2 with axis length <= N and every chunking (all compositions of "
                "each axis length), enumerated by TLC; each applied to every ensemble kind of that rank (scans, distributions, "
                "frozen phonons, atoms ensembles, array objects with ordinal/linear/positions/frozen-phonon axes eager and lazy, "
                "CTF with two distribution axes), partitioned eagerly and lazily; non-trivial = more than one block")
    r = ctx.design_check("EnsembleModel", cfg_text=CFG.format(n=4 if quick else 5, ranks="{1, 2}"), label="EnsembleModel", workers=1,
                         timeout=3000)
    self_test(ctx)
    # growth: task identity in merged dask graphs (names derived from every payload field, or unique per creation)
    ctx.design_check("GraphNames", cfg_text=open(os.path.join(tlc.SPEC_DIR, "GraphNames.cfg")).read(), label="GraphNames (growth)", workers=1, timeout=1200)
    cases = [json.loads(tlc.tla_value_to_py(s)[1]) for s in r.printed("CASE")]
    ctx.notes["cases_from_tlc"] = len(cases)
    rng = random.Random(ctx.seed)
    evs = []
    for c in cases:
        shape, chunks = c["shape"], c["chunks"]
        kinds = list(KINDS1 if len(shape) == 1 else KINDS2)
        if quick and len(shape) == 2:
            sampled = rng.sample(kinds, 3)
            kinds = kinds if all(n == 1 for n in shape) else sampled       # the single-member ensemble: every kind, at every seed
        for k in kinds:
            ev = observe(k, shape, chunks)
            evs.append(ev)
            ctx.case((k, json.dumps(c)), nontrivial=any(len(x) > 1 for x in chunks))
        if len(shape) == 1:
            ev = observe_divide(shape, chunks, True)
            evs.append(ev)
            ctx.case(("divide", json.dumps(c)), nontrivial=len(chunks[0]) > 1)
    ctx.exhaustive = not quick
    ctx.notes["kinds"] = sorted(KINDS1) + sorted(KINDS2) + ["distribution_divide"]
    for e in evs[:1] + evs[len(evs) // 2: len(evs) // 2 + 1] + evs[-1:]:
        ctx.sample(e)
    judge(ctx, evs)


def replay(ctx: Ctx, case):
    e = case["event"]
    ev = observe_divide(e["shape"], e["chunks"], True) if e["kind"] == "distribution_divide" else observe(e["kind"], e["shape"], e["chunks"])
    ctx.case("replay")
    ctx.sample(ev)
    judge(ctx, [ev])
