"""C14  Diffraction pattern geometry is self-consistent.

design  : TLC checks PatternModel (FFT order -> fft_crop mask copy -> optional fftshift, per axis) against Pattern!AxisMapOK for
          every n2 <= n <= MaxN and both layouts, and the shift algebra (ifftshift inverts fftshift for odd and even sizes,
          fftshift is its own inverse only for even sizes); it emits the scenario space
inputs  : every scenario (grid parities x max_angle keyword/number x parity x layout) on real waves whose members hold all
          their intensity at one frequency; block_direct on constant patterns for radii no pixel lies on, +- margin, both layouts
verdict : PatternTrace: the decoded position of every member shows its frequency (centred crop, inverse shift), requested
          parity, blocked pixel set = disc of the effective radius in integer arithmetic, all other pixels unchanged
"""
from __future__ import annotations

import json
import random

from ..core import Ctx, Machinery
from .. import tlc
from ..pattern import crop_event, block_event

CFG = """SPECIFICATION Spec
CONSTANTS
  MaxN = {n}
  Emit = TRUE
INVARIANT MapOK
INVARIANT ShiftInverse
INVARIANT FftShiftTwiceOnlyEven
INVARIANT EmitCase
CHECK_DEADLOCK FALSE
"""


def tags_for(ev, clauses):
    return {"clauses": sorted(clauses), "k": ev["k"], "shifted": ev.get("shifted"), "odd_axis": any(x % 2 for x in ev["n"]), "lazy": ev.get("lazy")}


def judge(ctx: Ctx, evs):
    res = ctx.validate("PatternTrace", [[e] for e in evs], "PatternTrace.cfg")
    for e, (ok, bad) in zip(evs, res):
        if not ok:
            tg = tags_for(e, bad[0][1])
            ctx.report(tg, {"event": e}, f"{e['k']}: {','.join(tg['clauses'])}: {json.dumps({k: v for k, v in e.items() if k != 'case'})[:340]}")


def self_test(ctx: Ctx):
    good = {"k": "crop", "raised": False, "n": [4, 5], "n2": [3, 5], "shifted": True, "parity": "odd", "full": False, "beyond_grid": False,
            "maps": [[1, 2, -1, 0], [2, 3, 4, 0, 1]]}
    b1 = dict(good, maps=[[0, 1, -1, 2], [2, 3, 4, 0, 1]])                   # unshifted positions reported for a shifted pattern
    b2 = dict(good, n2=[4, 5], maps=[[2, 3, 0, 1], [2, 3, 4, 0, 1]])          # even size although odd parity was requested
    blk = {"k": "block", "raised": False, "n": [4, 4], "radius_given": [1, 4], "margin": "default", "has_cutoff": True, "cutoff": [9, 4], "zeroed": [[-1, 0], [0, -1], [0, 0], [0, 1], [1, 0]], "others_unchanged": True}
    b3 = dict(blk, zeroed=[[0, 0], [0, 1], [1, 0]])
    res = ctx.validate("PatternTrace", [[good], [b1], [b2], [blk], [b3]], "PatternTrace.cfg")
    if not (res[0][0] and res[3][0]) or res[1][0] or res[2][0] or res[4][0]:
        raise Machinery(f"PatternTrace self-test failed: {res}")
    ctx.notes["binding_selftest"] = {"good_accepted": True, "wrong_layout_rejected": res[1][1], "wrong_parity_rejected": res[2][1],
                                    "wrong_blocked_set_rejected": res[4][1]}


def run(ctx: Ctx):
    quick = ctx.tier == "quick"
    ctx.rule = ("scenarios = grid (8|9) x (8|9|12) x max_angle in {full, cutoff, valid, 0.55 max, 0.3 max} x parity in {same, odd, even} x "
                "fftshift in {T, F}, enumerated by TLC; block_direct for radii {5/4, 9/4, 13/4 pixels, left to the metadata} x margin {True, False, default} x semiangle cutoff in the metadata or not x layout x grid parities; "
                "eager and lazy; non-trivial = every scenario")
    r = ctx.design_check("PatternModel", cfg_text=CFG.format(n=9 if quick else 14), label="PatternModel=>Pattern", workers=1, timeout=3000)
    self_test(ctx)
    cases = [json.loads(tlc.tla_value_to_py(s)[1]) for s in r.printed("CASE")]
    ctx.notes["scenarios_from_tlc"] = len(cases)
    evs = []
    for j, c in enumerate(cases):
        evs.append(crop_event(c, lazy=(j % 4 == 0)))
        ctx.case(json.dumps(c, sort_keys=True))
    for n in ((8, 8), (9, 9), (8, 9), (9, 12)):
        for shifted in (True, False):
            for rq in ([5, 4], [9, 4], [13, 4], None):
                for margin in ("false", "true", "default"):
                    for has_cutoff in (False, True):
                        evs.append(block_event(n, shifted, rq, margin, lazy=(rq is not None and rq[0] == 9), has_cutoff=has_cutoff))
                        ctx.case(("block", n, shifted, tuple(rq or ()), margin, has_cutoff))
                        if rq is not None and rq[0] in (5, 9) and margin != "default":
                            evs.append(block_event(n, shifted, rq, margin, lazy=(rq[0] == 9), has_cutoff=has_cutoff, reuse=True))
                            ctx.case(("block-reuse", n, shifted, tuple(rq), margin, has_cutoff))
    ctx.exhaustive = True
    for e in evs[:1] + evs[-1:]:
        ctx.sample(e)
    judge(ctx, evs)


def replay(ctx: Ctx, case):
    e = case["event"]
    if e["k"] == "crop":
        ev = crop_event(e["case"], e.get("lazy", False))
    else:
        ev = block_event(tuple(e["n"]), e["shifted"], e["radius_given"] or None, e["margin"], e.get("lazy", False), has_cutoff=e["has_cutoff"], reuse=e.get("reuse", False),
                         cutoff_q=tuple(e["cutoff"]))
    ctx.case("replay")
    ctx.sample(ev)
    judge(ctx, [ev])
