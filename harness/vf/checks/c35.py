"""C35  Axis metadata behaves like the value sequences it describes.

design  : TLC explores AxesModel (histories of index expressions and concatenations over an ordinal axis, Python slice
          semantics transcribed in Axes.tla) and checks the sequence algebra; it emits every history
inputs  : TLC's histories replayed on every ordinal axis class; dict round trips for every axis class (introspected) with
          every single-field deviation from the defaults plus seeded random field combinations; linear coordinates
verdict : AxesTrace (sliced / concatenated values, round trip equality per field, offset + i x sampling)
"""
from __future__ import annotations

import dataclasses
import json
import random

import numpy as np

from ..core import Ctx, Machinery
from ..rat import rat, exact
from .. import tlc

CFG = """SPECIFICATION Spec
CONSTANTS
  N0 = {n}
  Depth = {d}
  Emit = {emit}
{props}
CHECK_DEADLOCK FALSE
"""
PROPS = ("INVARIANT ValuesFromUniverse\nINVARIANT SlicePositionsInRange\nINVARIANT ReverseTwice\n"
         "INVARIANT FullSliceIdentity\nINVARIANT EvenOddPartition\nVIEW DesignView\n")

ORDINAL_SCALAR = ["OrdinalAxis", "NonLinearAxis", "ParameterAxis", "ThicknessAxis", "AxisAlignedTiltAxis", "WaveVectorAxis"]
ORDINAL_PAIR = ["TiltAxis", "PositionsAxis"]
# the axis classes the specification knows about (a class found by introspection but missing here is reported)
SPEC_CLASSES = set(ORDINAL_SCALAR + ORDINAL_PAIR + ["AxisMetadata", "UnknownAxis", "SampleAxis", "LinearAxis", "RealSpaceAxis",
                   "ReciprocalSpaceAxis", "ScanAxis", "FrozenPhononsAxis", "PrismPlaneWavesAxis"])


def canon(v):
    if isinstance(v, (bool, np.bool_)):
        return ("bool", bool(v))
    if isinstance(v, (int, float, np.integer, np.floating)):
        return ("num", float(v))
    if isinstance(v, str):
        return ("str", v)
    if v is None:
        return ("none",)
    if isinstance(v, np.ndarray):
        return ("tuple", tuple(canon(x) for x in v.tolist()))
    if isinstance(v, tuple):
        return ("tuple", tuple(canon(x) for x in v))
    if isinstance(v, list):
        return ("list", tuple(canon(x) for x in v))
    if isinstance(v, dict):
        return ("dict", tuple(sorted((str(k), canon(x)) for k, x in v.items())))
    return ("other", repr(v))


class Interner:
    def __init__(self):
        self.ids = {}

    def id(self, v):
        k = canon(v)
        if k not in self.ids:
            self.ids[k] = len(self.ids) + 1
        return self.ids[k]


def flat_axis(ax, it):
    return {"cls": type(ax).__name__,
            "fields": [[f.name, it.id(getattr(ax, f.name))] for f in sorted(dataclasses.fields(ax), key=lambda f: f.name)]}


def value_of(cls, i):
    return (0.5 * i, -1.0 * i) if cls in ORDINAL_PAIR else 0.5 * i


def ids_of(cls, values):
    back = {}
    for i in list(range(0, 12)) + [101, 102]:
        back[canon(value_of(cls, i))] = i
    return [back.get(canon(v), 0) for v in values]


def py_item(op, variant):
    def o(x):
        return None if x == [] else x[0]
    if op["k"] == "slice":
        return slice(o(op["start"]), o(op["stop"]), o(op["step"]))
    if op["k"] == "int":
        return np.int64(op["i"]) if variant else int(op["i"])
    if op["k"] == "list":
        return np.array(op["idx"]) if variant else list(op["idx"])
    if op["k"] == "mask":
        return np.array(op["mask"], dtype=bool) if variant else [bool(b) for b in op["mask"]]
    raise Machinery("bad op")


def replay_hist(cls, n0, hist, variant):
    from abtem.core import axes as A
    klass = getattr(A, cls)
    ax = klass(values=tuple(value_of(cls, i) for i in range(1, n0 + 1)))
    trace = [{"op": {"k": "init"}, "cls": cls, "vals": ids_of(cls, ax.values), "raised": False}]
    for step in hist:
        op = step["op"]
        rec = {"op": op, "raised": False, "vals": []}
        try:
            if op["k"] == "concat":
                other = klass(values=tuple(value_of(cls, i) for i in op["other"]))
                ax2 = ax.concatenate(other)
            else:
                ax2 = ax[py_item(op, variant)]
            rec["vals"] = ids_of(cls, ax2.values)
            ax = ax2
        except Exception as ex:
            rec["raised"] = True
            rec["exc"] = type(ex).__name__
        trace.append(rec)
        if rec["raised"]:
            break
    return trace


FIELD_POOL = {
    "label": ["", "x", "Δf"], "units": [None, "Å", "mrad"], "tex_label": [None, "$x$"], "tex_units": [None, r"\mathrm{nm}"],
    "_default_type": ["index", "overlay"], "_concatenate": [True, False], "_ensemble_mean": [False, True],
    "_squeeze": [False, True], "sampling": [1.0, 0.25], "offset": [0.0, -3.5], "endpoint": [True, False],
    "fftshift": [True, False], "_main": [True, False], "direction": ["x", "y"],
    "values": [(), (1.0, 2.5), (1, 2, 3), ((0.0, 1.0), (2.0, 3.0)), np.array([1.0, 2.0]), [4.0, 5.0], 7.0],
}


def roundtrip(cls, kwargs, it, which):
    from abtem.core import axes as A
    klass = getattr(A, cls)
    rec = {"op": {"k": "roundtrip", "via": which}, "cls": cls, "raised": False, "before": {"cls": cls, "fields": []},
           "after": {"cls": "", "fields": []}, "kwargs": {k: repr(v) for k, v in kwargs.items()}}
    try:
        ax = klass(**kwargs)
    except Exception:
        return None
    rec["before"] = flat_axis(ax, it)
    try:
        # the serialised dict is read TWICE (one saved description used for two arrays) and the axis is looked at again afterwards:
        # both reads give the axis, and neither the dict's reader nor the writer changed the axis that was serialised
        if which == "method":
            d = ax.to_dict()
            ax2, ax3 = A.AxisMetadata.from_dict(d), A.AxisMetadata.from_dict(d)
        else:
            d = A.axis_to_dict(ax)
            ax2, ax3 = A.axis_from_dict(d), A.axis_from_dict(d)
        first, second, kept = flat_axis(ax2, it), flat_axis(ax3, it), flat_axis(ax, it)
        rec["after"] = first if first != rec["before"] else (second if second != rec["before"] else kept)
    except Exception as ex:
        rec["raised"] = True
        rec["exc"] = type(ex).__name__
    return rec


def coords_event(cls, offset, sampling, n):
    from abtem.core import axes as A
    ax = getattr(A, cls)(offset=offset, sampling=sampling)
    c = ax.coordinates(n)
    ok = all(exact(x) for x in c)
    return {"op": {"k": "coords"}, "cls": cls, "offset": rat(offset), "sampling": rat(sampling), "n": n,
            "coords": [rat(x) for x in c], "raised": False}, ok


def tags_for(t, bad):
    line, clauses = bad[0]
    ev = t[line - 1]
    return {"clauses": sorted(clauses), "op": ev["op"]["k"], "cls": t[0].get("cls") or ev.get("cls")}


def judge(ctx: Ctx, traces):
    res = ctx.validate("AxesTrace", traces, "AxesTrace.cfg")
    for t, (ok, bad) in zip(traces, res):
        if not ok:
            tg = tags_for(t, bad)
            ev = t[bad[0][0] - 1]
            ctx.report(tg, {"trace": t, "bad": bad}, f"{tg['cls']} {tg['op']}: {','.join(tg['clauses'])}: "
                       f"{json.dumps({k: v for k, v in ev.items() if k != 'before'}, default=str)[:260]}")


def self_test(ctx: Ctx):
    init = {"op": {"k": "init"}, "cls": "X", "vals": [1, 2, 3], "raised": False}
    good = [init, {"op": {"k": "slice", "start": [], "stop": [], "step": [-1]}, "raised": False, "vals": [3, 2, 1]},
            {"op": {"k": "mask", "mask": [True, False, True]}, "raised": False, "vals": [3, 1]},
            {"op": {"k": "concat", "other": [101, 102]}, "raised": False, "vals": [3, 1, 101, 102]}]
    c1 = json.loads(json.dumps(good)); c1[2]["vals"] = [2, 3]
    c2 = [good[0], good[2], good[3]]           # one recorded step removed
    rt = [init, {"op": {"k": "roundtrip"}, "raised": False, "before": {"cls": "A", "fields": [["a", 1], ["b", 2]]},
                 "after": {"cls": "A", "fields": [["a", 1], ["b", 3]]}}]
    co = [init, {"op": {"k": "coords"}, "offset": [1, 2], "sampling": [1, 4], "n": 3, "coords": [[1, 2], [3, 4], [5, 4]]}]
    res = ctx.validate("AxesTrace", [good, c1, c2, rt, co], "AxesTrace.cfg")
    if not res[0][0] or res[1][0] or res[2][0] or res[3][0] or res[4][0]:
        raise Machinery(f"AxesTrace self-test failed: {res}")
    ctx.notes["binding_selftest"] = {"good_accepted": True, "corrupt_field_rejected": res[1][1], "removed_step_rejected": res[2][1],
                                    "roundtrip_field_change_rejected": res[3][1], "wrong_coordinate_rejected": res[4][1]}


def run(ctx: Ctx):
    from abtem.core import axes as A
    quick = ctx.tier == "quick"
    ctx.rule = ("(a) histories of index expressions (slices with None/negative parts and steps +-1,+-2, int, int lists, "
                "boolean masks as python and numpy objects) and concatenations on every ordinal axis class, all emitted by TLC; "
                "(b) to_dict/from_dict round trips of every axis class for each single-field deviation and random field "
                "combinations; (c) LinearAxis.coordinates.  distinct = distinct (class, history/fields); non-trivial = "
                "history contains an op that changes the values / an axis with a non-default field")
    ctx.design_check("AxesModel", cfg_text=CFG.format(n=3 if quick else 4, d=3 if quick else 3, emit="FALSE", props=PROPS),
                     label="AxesModel algebra", timeout=3000)
    self_test(ctx)
    n0 = 3
    r = tlc.run_tlc("AxesModel", cfg_text=CFG.format(n=n0, d=1 if quick else 2, emit="TRUE", props="CONSTRAINT AtBound\n"),
                    workers=1, timeout=3000)
    if r.error:
        raise Machinery("behaviour emission failed: " + r.error)
    beh = {}
    for s in r.printed("BEH"):
        beh[tlc.tla_value_to_py(s)[1]] = None
    # depth-2 histories by simulation in the quick tier
    if quick:
        r = tlc.run_tlc("AxesModel", cfg_text=CFG.format(n=n0, d=3, emit="TRUE", props="CONSTRAINT AtBound\n"), workers=1,
                        timeout=600, extra=["-simulate", "num=30", "-depth", "5", "-seed", str(ctx.seed + 1)])
        sim = sorted({tlc.tla_value_to_py(s)[1] for s in r.printed("BEH")})
        random.Random(ctx.seed).shuffle(sim)
        for s in sim[:400]:
            beh[s] = None
    ctx.notes["histories_from_tlc"] = len(beh)
    traces = []
    drift = 0
    classes = ORDINAL_SCALAR + ORDINAL_PAIR
    for j, js in enumerate(beh):
        hist = json.loads(js)
        for ci, cls in enumerate(classes if not quick else [classes[j % len(classes)], classes[(j + 3) % len(classes)]]):
            t = replay_hist(cls, n0, hist, variant=(j + ci) % 2)
            traces.append(t)
            ctx.case((cls, js), nontrivial=True)
            for step, rec in zip(hist, t[1:]):
                if not rec["raised"] and rec["vals"] != step["vals"]:
                    drift += 1
                    if len(ctx.drift) < 10:
                        ctx.drift.append({"cls": cls, "op": step["op"], "model": step["vals"], "code": rec["vals"]})
                    break
    ctx.notes["model_drift_count"] = drift
    # round trips
    it = Interner()
    found = sorted(n for n, c in vars(A).items() if isinstance(c, type) and issubclass(c, A.AxisMetadata))
    ctx.notes["axis_classes_found"] = found
    ctx.notes["axis_classes_not_in_spec"] = sorted(set(found) - SPEC_CLASSES)
    rng = random.Random(ctx.seed)
    for cls in found:
        klass = getattr(A, cls)
        names = [f.name for f in dataclasses.fields(klass)]
        combos = [{}]
        for nme in names:
            for v in FIELD_POOL.get(nme, []):
                combos.append({nme: v})
        for _ in range(30 if quick else 600):
            combos.append({nme: rng.choice(FIELD_POOL[nme]) for nme in names if nme in FIELD_POOL and rng.random() < 0.6})
        for kw in combos:
            for which in ("method", "function"):
                rec = roundtrip(cls, kw, it, which)
                if rec is None:
                    continue
                traces.append([{"op": {"k": "init"}, "cls": cls, "vals": [], "raised": False}, rec])
                ctx.case((cls, which, json.dumps(rec["kwargs"], sort_keys=True)), nontrivial=bool(kw))
    # linear coordinates
    skipped = 0
    for cls in ["LinearAxis", "RealSpaceAxis", "ReciprocalSpaceAxis", "ScanAxis"]:
        for off in (0.0, -3.5, 0.125, 2.75):
            for samp in (1.0, 0.25, 0.75, 1.5, 0.1):
                for n in (1, 2, 5, 9):
                    ev, ok = coords_event(cls, off, samp, n)
                    if not ok:
                        skipped += 1
                        continue
                    traces.append([{"op": {"k": "init"}, "cls": cls, "vals": [], "raised": False}, ev])
                    ctx.case((cls, off, samp, n))
    ctx.notes["inexact_coordinate_cases_skipped"] = skipped
    for t in traces[:2] + traces[-2:]:
        ctx.sample(t)
    judge(ctx, traces)


def replay(ctx: Ctx, case):
    t = case["trace"]
    cls = t[0]["cls"]
    if t[1]["op"]["k"] in ("slice", "list", "mask", "int", "concat"):
        hist = [{"op": e["op"]} for e in t[1:]]
        new = [replay_hist(cls, len(t[0]["vals"]), hist, v) for v in (0, 1)]
    elif t[1]["op"]["k"] == "coords":
        from fractions import Fraction
        e = t[1]
        new = [[t[0], coords_event(cls, float(Fraction(*e["offset"])), float(Fraction(*e["sampling"])), e["n"])[0]]]
    else:
        raise Machinery("round-trip replays are re-run by the full check (field values are not serialisable)")
    ctx.case("replay")
    ctx.sample(new[0])
    judge(ctx, new)
