"""C02  A frozen-phonon ensemble equals independent per-configuration simulations.

design  : TLC explores MultisliceImpl with 1..K configurations: every recorded measurement of configuration k is the wave
          through the slices of configuration k starting from the INCIDENT wave (the wave is restarted per configuration)
inputs  : TLC's (configurations, slices, exit planes) cases realised with FrozenPhonons / AtomsEnsemble potentials, PlaneWave /
          Probe (+ scan), Waves / annular / pixelated detection, ensemble_mean on/off, eager (hook events) and lazy with
          different chunkings
verdict : MultisliceTrace: the events are a run of the machine; member k equals the independent run through the potential
          built from displaced configuration k; the mean member equals the mean of the members; the displaced positions do
          not depend on chunking / mode / iteration order
"""
from __future__ import annotations

import json
import random

import numpy as np

from ..core import Ctx, Machinery
from ..rat import ppb
from .. import tlc
from ..ms import Sink, relerr, arr, small_atoms, displaced_configurations
from .c07 import CFG, exit_planes_arg, judge as _judge_ms


def positions_signature(fp, chunks, lazy):
    out = []
    if lazy:
        blocks = fp.ensemble_blocks(chunks).compute(scheduler="synchronous")
        items = [blocks[i] for i in np.ndindex(blocks.shape)]
    else:
        items = [b for _, _, b in fp.generate_blocks(chunks)]
    for b in items:
        b = b.item() if isinstance(b, np.ndarray) else b
        for _, _, bb in b.generate_blocks(1):
            x = bb.item()
            out.append(np.asarray(x.randomize(x.atoms).positions).copy())
    return out


PROBE = r"""
import sys, json, numpy as np
sys.path.insert(0, sys.argv[1]); sys.path.insert(0, sys.argv[2])
import abtem
from vf.ms import small_atoms, displaced_configurations
out = {}
for d in ("xyz", "xy", "z", "yz"):
    fp = abtem.FrozenPhonons(small_atoms(nz=2), num_configs=2, sigmas=0.1, seed=(7, 11), directions=d)
    out[d] = [np.asarray(a.positions).round(12).tolist() for a in displaced_configurations(fp)]
print(json.dumps(out))
"""


def cross_process_event():
    """the displaced configurations for fixed seeds, computed in interpreter processes with different string-hash seeds"""
    import os, subprocess, sys
    ev = {"e": "Result", "kind": "c02", "raised": False, "members_ppb": [], "mean_ppb": 0, "positions_same": True, "shape_ok": True,
          "cross_process": True, "lazy_ppb": 0, "joint_ppb": []}
    try:
        outs = []
        for hs in ("0", "1", "2", "3"):
            env = dict(os.environ, PYTHONHASHSEED=hs)
            p = subprocess.run([sys.executable, "-c", PROBE, os.environ.get("ABTEM_REPO", "/repo"), os.path.join(os.path.dirname(__file__), "..", "..")],
                               env=env, capture_output=True, text=True, timeout=300)
            if p.returncode != 0:
                raise RuntimeError(p.stderr[-300:])
            outs.append(json.loads(p.stdout.strip().splitlines()[-1]))
        ev["positions_same"] = all(o == outs[0] for o in outs[1:])
    except Exception as ex:
        ev["raised"] = True
        ev["exc"] = f"{type(ex).__name__}: {ex}"[:300]
    return [ev]


def run_case(c, kind, builder, detector, mean, rng):
    import abtem
    n, k = c["n"], c["ncfg"]
    atoms = small_atoms(nz=n, dz=2.0)
    ev = {"e": "Result", "kind": "c02", "raised": False, "members_ppb": [], "mean_ppb": 0, "positions_same": True, "shape_ok": True,
          "lazy_ppb": 0, "joint_ppb": []}
    sink = Sink()
    try:
        seeds = tuple([1000003, 17, 65537, 3][i % 4] + i for i in range(k))
        if kind in ("frozen_phonons", "frozen_phonons_built"):
            fp = abtem.FrozenPhonons(atoms, num_configs=k, sigmas=0.12, seed=seeds, ensemble_mean=mean)
        elif kind == "atoms_ensemble_labelled_built":
            # snapshots labelled by a user axis (time stamps), built into a potential ARRAY first
            from abtem.core.axes import NonLinearAxis
            base = abtem.FrozenPhonons(atoms, num_configs=k, sigmas=0.12, seed=seeds)
            fp = abtem.AtomsEnsemble(displaced_configurations(base), ensemble_mean=False,
                                     ensemble_axes_metadata=[NonLinearAxis(label="t", units="fs", values=tuple(50.0 * i for i in range(k)))])
        else:
            base = abtem.FrozenPhonons(atoms, num_configs=k, sigmas=0.12, seed=seeds)
            fp = abtem.AtomsEnsemble(displaced_configurations(base), ensemble_mean=mean)
        ep = exit_planes_arg(c["spec"]) if not builder.startswith("prism") else None
        mk = lambda a: abtem.Potential(a, gpts=16, slice_thickness=2.0, exit_planes=ep, projection="infinite")
        pot = mk(fp)
        if kind.endswith("_built"):
            pot = pot.build(lazy=False)
        det = {"waves": None, "annular": abtem.AnnularDetector(inner=10, outer=40 if builder.startswith("prism") else 60),
               "pixelated": abtem.PixelatedDetector(max_angle=None)}[detector]
        if builder == "plane":
            wave, kw = abtem.PlaneWave(energy=100e3), {}
        elif builder in ("prism", "prism_built"):
            # the PRISM route: the S-matrix of every configuration, reduced at the scan positions; prism_built: interpolation 2 and the
            # S-matrix of ALL configurations built eagerly as one array object before it is reduced
            built = builder == "prism_built"

            class _Prism:
                def multislice(self, p, detectors=None, lazy=False, max_batch="auto", scan=None):
                    S = abtem.SMatrix(potential=p, energy=100e3, semiangle_cutoff=25.0, interpolation=2 if built else 1)
                    if built and not lazy:
                        S = S.build(lazy=False)
                        # (SMatrixArray.scan itself raises on the pinned tree - it hands `rechunk` to reduce(), which does not take it -
                        # so the detectors go to reduce(); noted in DESIGN 10.10, outside C02)
                        return S.reduce(scan=scan) if detectors is None else S.reduce(scan=scan, detectors=detectors)
                    return S.reduce(scan=scan, lazy=lazy) if detectors is None else S.scan(scan=scan, detectors=detectors, lazy=lazy)
            wave, kw = _Prism(), {"scan": abtem.CustomScan(np.array([[1.0, 1.5], [2.5, 0.5]]))}
        else:
            wave, kw = abtem.Probe(energy=100e3, semiangle_cutoff=25), {"scan": abtem.CustomScan(np.array([[1.0, 1.5], [2.5, 0.5]]))}
        use_mean = mean and detector != "waves"
        import contextlib
        with (sink if not builder.startswith("prism") else contextlib.nullcontext()):
            res = wave.multislice(pot, detectors=det, lazy=False, **kw)
        full = arr(res)
        configs = displaced_configurations(fp)
        singles = [arr(wave.multislice(mk(a), detectors=det, lazy=False, **kw)) for a in configs]
        if use_mean:
            ref = np.mean(np.stack(singles), axis=0)
            ev["mean_ppb"] = ppb(relerr(np.squeeze(full), np.squeeze(ref)))
            ev["shape_ok"] = np.squeeze(full).shape == np.squeeze(ref).shape
        else:
            if k == 1:
                ev["members_ppb"] = [ppb(relerr(np.squeeze(full), np.squeeze(singles[0])))]
            else:
                ev["shape_ok"] = full.shape[0] == k
                ev["members_ppb"] = [ppb(relerr(np.squeeze(full[i]), np.squeeze(singles[i]))) for i in range(min(k, full.shape[0]))]
        # configurations are determined by the seeds alone
        ref_pos = positions_signature(fp, 1, False)
        for chunks, lazy in ((1, True), (max(1, k), False), (max(1, k - 1), True)):
            got = positions_signature(fp, chunks, lazy)
            if len(got) != len(ref_pos) or any(not np.array_equal(a, b) for a, b in zip(got, ref_pos)):
                ev["positions_same"] = False
        import zlib
        from ..routes import reroute
        lazy_pot, ev["route_lazy"] = reroute(mk(fp) if kind.endswith("_built") else pot, zlib.crc32(json.dumps([c, kind, builder, detector, mean], default=str).encode()))
        lz = arr(wave.multislice(lazy_pot, detectors=det, lazy=True, max_batch=rng.choice([1, 2, "auto"]), **kw))
        ev["lazy_ppb"] = ppb(relerr(lz, full))
        if kind in ("frozen_phonons", "frozen_phonons_built"):
            # two ensembles that differ ONLY in their seeds, computed in one dask graph: each keeps its own configurations
            import dask
            fp2 = abtem.FrozenPhonons(atoms, num_configs=k, sigmas=0.12, seed=tuple(s + 1000 for s in seeds), ensemble_mean=mean)
            la = wave.multislice(mk(fp), detectors=det, lazy=True, **kw)
            lb = wave.multislice(mk(fp2), detectors=det, lazy=True, **kw)
            ra, rb = dask.compute(la.array, lb.array, scheduler="synchronous")
            full_b = arr(wave.multislice(mk(fp2), detectors=det, lazy=False, **kw))
            ev["joint_ppb"] = [ppb(relerr(np.asarray(ra), full)), ppb(relerr(np.asarray(rb), full_b))]
    except Exception as ex:
        ev["raised"] = True
        ev["exc"] = f"{type(ex).__name__}: {ex}"[:300]
    return sink.ms_events() + [ev]


def run(ctx: Ctx):
    quick = ctx.tier == "quick"
    ctx.rule = ("(configurations 1..K, slices, exit planes) enumerated by TLC from MultisliceImpl, realised with FrozenPhonons / "
                "AtomsEnsemble x PlaneWave / Probe+scan / PRISM S-matrix reduced at scan positions x Waves / annular / pixelated x ensemble_mean; eager with hook events, "
                "lazy with several max_batch; non-trivial = more than one configuration")
    r = ctx.design_check("MultisliceImpl", cfg_text=CFG.format(n=3, k=3 if quick else 4), label="MultisliceImpl=>Multislice", workers=1,
                         timeout=3000)
    from .c07 import self_test
    self_test(ctx)
    cases = [json.loads(tlc.tla_value_to_py(s)[1]) for s in r.printed("CASE")]
    ctx.notes["cases_from_tlc"] = len(cases)
    rng = random.Random(ctx.seed)
    rng.shuffle(cases)
    cases.sort(key=lambda c: -c["ncfg"])
    items = []
    combos = [("frozen_phonons", "plane", "waves", False), ("frozen_phonons", "probe", "annular", False), ("frozen_phonons", "probe", "pixelated", True),
              ("atoms_ensemble", "plane", "pixelated", False), ("atoms_ensemble", "probe", "annular", True), ("frozen_phonons", "plane", "pixelated", True),
              ("frozen_phonons", "prism", "waves", False), ("frozen_phonons", "prism", "pixelated", False), ("atoms_ensemble", "prism", "annular", True),
              ("atoms_ensemble_labelled_built", "plane", "waves", False), ("frozen_phonons_built", "probe", "annular", False),
              ("atoms_ensemble_labelled_built", "probe", "pixelated", False),
              ("frozen_phonons", "prism_built", "waves", False), ("atoms_ensemble", "prism_built", "pixelated", False)]
    for j, c in enumerate(cases[: (42 if quick else 400)]):
        kind, builder, det, mean = combos[j % len(combos)]
        t = run_case(c, kind, builder, det, mean, rng)
        meta = {"case": c, "kind": kind, "builder": builder, "detector": det, "mean": mean}
        items.append((meta, t))
        ctx.case(json.dumps(meta), nontrivial=c["ncfg"] > 1)
    xp_meta = {"case": {"n": 2, "ncfg": 2, "spec": ["none"], "planes": [1]}, "kind": "cross_process", "builder": "-", "detector": "-", "mean": False}
    items.append((xp_meta, cross_process_event()))
    ctx.case("cross-process configurations (PYTHONHASHSEED 0..3)")
    for meta, t in items[:1] + items[-1:]:
        ctx.sample({"meta": meta, "trace": t})
    _judge(ctx, items)


def _judge(ctx, items):
    res = ctx.validate("MultisliceTrace", [t for _, t in items], "MultisliceTrace.cfg")
    for (meta, t), (ok, bad) in zip(items, res):
        if not ok:
            line, clauses = bad[0]
            ev = t[line - 1]
            tg = {"clauses": sorted(clauses), "event": ev["e"], "kind": meta["kind"], "builder": meta["builder"], "mean": meta["mean"],
                  "multi_config": meta["case"]["ncfg"] > 1}
            ctx.report(tg, {"meta": meta, "bad": bad, "result": t[-1]},
                       f"{json.dumps(meta)[:220]}: line {line} {ev['e']}: {','.join(tg['clauses'])} members={t[-1].get('members_ppb')} "
                       f"mean={t[-1].get('mean_ppb')} {t[-1].get('exc', '')}")


def replay(ctx: Ctx, case):
    m = case["meta"]
    t = run_case(m["case"], m["kind"], m["builder"], m["detector"], m["mean"], random.Random(0))
    ctx.case("replay")
    ctx.sample({"meta": m, "trace": t})
    _judge(ctx, [(m, t)])
