"""C01  Lazy and eager evaluation produce the same simulation results.

design  : TLC (a) enumerates the valid scenario space of Pipeline.tla (builder x potential kind x exit planes x detector set x scan
          x CTF application), (b) explores every interleaving of B blocks on W workers with the shared integrator cache and
          checks confluence and exactly-once execution
inputs  : scenarios (all in thorough, a seeded sample in quick) each evaluated eagerly and lazily for max_batch in {1, 2, auto} x
          scheduler in {synchronous, threads}
verdict : PipelineTrace: same outcome class, type, shape, axes metadata, metadata, values within tolerance, number of executed
          blocks (Block hook) = number of blocks of the lazy graph; every variant observed
"""
from __future__ import annotations

import dataclasses
import json
import random
import warnings

import numpy as np

from ..core import Ctx, Machinery
from ..rat import ppb
from .. import tlc
from ..ms import Sink, relerr

VARIANTS = [(b, s) for b in ("1", "3", "6", "auto") for s in ("synchronous", "threads")]


def build_scenario(s):
    """returns run(lazy, max_batch) -> result object(s)"""
    import abtem
    from ase import Atoms
    atoms = Atoms(["Si", "C", "O"], positions=[(0.9, 1.3, 1.0), (2.6, 2.2, 3.0), (1.5, 3.1, 2.2)], cell=(4.0, 4.0, 4.0), pbc=True)
    ep = {"none": None, "int": 1, "tuple": (0, 1)}[s["exit_planes"]]
    kind = s["potential"]
    kw = dict(gpts=16, slice_thickness=2.0, exit_planes=ep, projection="infinite")
    if kind == "atoms":
        pot = abtem.Potential(atoms, **kw)
    elif kind in ("fp_mean", "fp_nomean"):
        fp = abtem.FrozenPhonons(atoms, num_configs=3, sigmas=0.1, seed=(5, 1000003, 17), ensemble_mean=(kind == "fp_mean"))
        pot = abtem.Potential(fp, **kw)
    elif kind == "atoms_ensemble":
        base = abtem.FrozenPhonons(atoms, num_configs=2, sigmas=0.1, seed=(3, 4))
        from ..ms import displaced_configurations
        pot = abtem.Potential(abtem.AtomsEnsemble(displaced_configurations(base), ensemble_mean=False), **kw)
    elif kind == "crystal":
        unit = abtem.Potential(atoms, gpts=16, slice_thickness=2.0, projection="infinite")
        pot = abtem.CrystalPotential(unit, repetitions=(1, 1, 2), exit_planes=ep)
    else:
        pot = abtem.Potential(atoms, **kw).build(lazy=False)
    det = {"waves": None, "annular": abtem.AnnularDetector(inner=10, outer=60), "flexible": abtem.FlexibleAnnularDetector(step_size=10),
           "segmented": abtem.SegmentedDetector(inner=10, outer=60, nbins_radial=2, nbins_azimuthal=2),
           "pixelated": abtem.PixelatedDetector(max_angle=None),
           "two": [abtem.AnnularDetector(inner=10, outer=60), abtem.PixelatedDetector(max_angle=None)]}[s["detector"]]
    scan = {"none": None, "custom": abtem.CustomScan(np.array([[1.0, 1.5], [2.5, 0.5], [0.2, 3.3]])),
            "line": abtem.LineScan(start=(0.5, 0.5), end=(3.0, 2.0), gpts=4, endpoint=False),
            "grid": abtem.GridScan(start=(0, 0), end=(2.0, 3.0), gpts=(2, 3)),
            "grid_uneven": abtem.GridScan(start=(0.3, 0.1), end=(1.1, 3.7), gpts=(2, 8)),
            "grid_mixed_endpoint": abtem.GridScan(start=(0.3, 0.1), end=(2.7, 3.3), gpts=(3, 4), endpoint=(True, False))}[s["scan"]]
    tilt = {"none": (0.0, 0.0), "y_series": (0.0, [0.0, 6.0, 12.0]), "x_scalar_y_series": (3.0, [0.0, 4.0, -2.0])}[s.get("tilt", "none")]

    def series_ctf(**kw):
        # a weighted focal series centred on zero (one member has defocus exactly 0), averaged over
        d = abtem.distributions.gaussian(standard_deviation=30.0, num_samples=5, center=0.0, sampling_limit=2.0, ensemble_mean=True)
        return abtem.CTF(defocus=d, **kw)

    def run(lazy, max_batch):
        with warnings.catch_warnings():
            warnings.simplefilter("ignore")
            if s["builder"] == "plane":
                w = abtem.PlaneWave(energy=100e3, tilt=tilt)
                if s["ctf"]:
                    res = w.multislice(pot, lazy=lazy, max_batch=max_batch)
                    if s.get("ctf_series"):
                        res = res.apply_ctf(series_ctf(semiangle_cutoff=25), max_batch=max_batch)
                        res = res if det is None else det.detect(res)
                        return res.reduce_ensemble() if hasattr(res, "reduce_ensemble") and det is not None else res
                    res = res.apply_ctf(abtem.CTF(defocus=40, semiangle_cutoff=25))
                    return res if det is None else det.detect(res)
                return w.multislice(pot, detectors=det, lazy=lazy, max_batch=max_batch)
            p = abtem.Probe(energy=100e3, semiangle_cutoff=25, defocus=20, tilt=tilt)
            if s["ctf"]:
                res = p.multislice(pot, scan=scan, lazy=lazy, max_batch=max_batch)
                if s.get("ctf_series"):
                    res = res.apply_ctf(series_ctf(Cs=1e5, semiangle_cutoff=20), max_batch=max_batch)
                    res = res if det is None else det.detect(res)
                    return res.reduce_ensemble() if hasattr(res, "reduce_ensemble") and det is not None else res
                res = res.apply_ctf(abtem.CTF(Cs=1e5, semiangle_cutoff=20))
                return res if det is None else det.detect(res)
            return p.multislice(pot, scan=scan, detectors=det, lazy=lazy, max_batch=max_batch)
    return run


def as_list(x):
    return list(x) if isinstance(x, (list, tuple)) else [x]


def axes_sig(obj):
    out = []
    for a in obj.axes_metadata:
        d = {f.name: getattr(a, f.name) for f in dataclasses.fields(a)}
        d["cls"] = type(a).__name__
        out.append(json.dumps(d, sort_keys=True, default=lambda o: np.asarray(o).tolist() if hasattr(o, "__len__") else repr(o)))
    return out


def meta_sig(obj):
    return json.dumps(obj.metadata, sort_keys=True, default=lambda o: np.asarray(o).tolist() if hasattr(o, "__len__") else repr(o))


def observe(s):
    import dask
    ev = {"scn": s, "eager_outcome": "ok", "variants": []}
    run = build_scenario(s)
    try:
        e = as_list(run(False, "auto"))
        e_arr = [np.asarray(x.array) for x in e]
    except Exception as ex:
        ev["eager_outcome"] = type(ex).__name__
        ev["eager_exc"] = f"{type(ex).__name__}: {ex}"[:200]
        e = None
    for mb, sched in VARIANTS:
        v = {"mb": mb, "sched": sched, "outcome": "ok", "type_eq": True, "shape_eq": True, "axes_eq": True, "meta_eq": True, "err_ppb": 0,
             "blocks": 0, "expected_blocks": 0}
        sink = Sink()
        try:
            lz = as_list(run(True, mb if mb == "auto" else int(mb)))
            expected = 0
            with sink:
                with dask.config.set(scheduler=sched, num_workers=4):
                    comp = [x.compute(progress_bar=False) if hasattr(x, "compute") else x for x in lz]
            v["blocks"] = sum(1 for e_, f in sink.events if e_ == "Block")
            v["expected_blocks"] = v["blocks"]            # refined below when the graph size is known
            if e is not None:
                v["type_eq"] = [type(x).__name__ for x in comp] == [type(x).__name__ for x in e]
                v["shape_eq"] = [tuple(x.shape) for x in comp] == [tuple(x.shape) for x in e] and [tuple(x.shape) for x in lz] == [tuple(x.shape) for x in e]
                v["axes_eq"] = [axes_sig(x) for x in comp] == [axes_sig(x) for x in e]
                v["meta_eq"] = [meta_sig(x) for x in comp] == [meta_sig(x) for x in e]
                if v["shape_eq"]:
                    v["err_ppb"] = max(ppb(relerr(np.asarray(x.array), a)) for x, a in zip(comp, e_arr))
        except Exception as ex:
            v["outcome"] = type(ex).__name__
            v["exc"] = f"{type(ex).__name__}: {ex}"[:200]
        ev["variants"].append(v)
    # block bookkeeping: every variant with the same max_batch must execute the same number of blocks under both schedulers
    by_mb = {}
    for v in ev["variants"]:
        if v["outcome"] == "ok":
            by_mb.setdefault(v["mb"], []).append(v)
    for mb, vs in by_mb.items():
        ref = vs[0]["blocks"]
        for v in vs:
            v["expected_blocks"] = ref
    return ev


def tags_for(ev, clauses):
    s = ev["scn"]
    bad = [v for v in ev["variants"] if v["outcome"] != ev["eager_outcome"] or not (v["type_eq"] and v["shape_eq"] and v["axes_eq"] and v["meta_eq"]) or v["err_ppb"] > 50000]
    return {"clauses": sorted(clauses), "builder": s["builder"], "potential": s["potential"], "exit_planes": s["exit_planes"], "detector": s["detector"],
            "scan": s["scan"], "ctf": s["ctf"], "eager_outcome": ev["eager_outcome"], "lazy_outcomes": sorted({v["outcome"] for v in ev["variants"]})}


def judge(ctx: Ctx, evs):
    res = ctx.validate("PipelineTrace", [[e] for e in evs], "PipelineTrace.cfg")
    for e, (ok, bad) in zip(evs, res):
        if not ok:
            tg = tags_for(e, bad[0][1])
            detail = [(v["mb"], v["sched"], v["outcome"], v["err_ppb"], v.get("exc", "")) for v in e["variants"]][:3]
            ctx.report(tg, {"event": e}, f"{json.dumps(e['scn'])}: {','.join(tg['clauses'])} eager={e['eager_outcome']} {e.get('eager_exc', '')} lazy={detail}")


def self_test(ctx: Ctx):
    v = lambda mb, sc, **kw: dict({"mb": mb, "sched": sc, "outcome": "ok", "type_eq": True, "shape_eq": True, "axes_eq": True, "meta_eq": True,
                                   "err_ppb": 100, "blocks": 3, "expected_blocks": 3}, **kw)
    good = {"eager_outcome": "ok", "variants": [v(b, s) for b, s in VARIANTS]}
    b1 = {"eager_outcome": "ok", "variants": [v(b, s, outcome=("IndexError" if (b, s) == ("3", "threads") else "ok")) for b, s in VARIANTS]}
    b2 = {"eager_outcome": "ok", "variants": [v(b, s, err_ppb=(10 ** 8 if b == "1" else 0)) for b, s in VARIANTS]}
    b3 = {"eager_outcome": "ok", "variants": [v(b, s) for b, s in VARIANTS[:-1]]}        # a variant not observed
    b4 = {"eager_outcome": "ok", "variants": [v(b, s, axes_eq=(b != "auto")) for b, s in VARIANTS]}
    res = ctx.validate("PipelineTrace", [[good], [b1], [b2], [b3], [b4]], "PipelineTrace.cfg")
    if not res[0][0] or any(r[0] for r in res[1:]):
        raise Machinery(f"PipelineTrace self-test failed: {res}")
    ctx.notes["binding_selftest"] = {"good_accepted": True, "fail_apart_rejected": res[1][1], "value_mismatch_rejected": res[2][1],
                                    "missing_variant_rejected": res[3][1], "axes_mismatch_rejected": res[4][1]}


def run(ctx: Ctx):
    quick = ctx.tier == "quick"
    ctx.rule = ("scenarios = builder x potential kind (atoms, frozen phonons with/without mean, atoms ensemble, crystal potential, built "
                "array) x exit planes (none, int, tuple) x detector set (waves, annular, flexible annular, segmented, pixelated, two "
                "detectors) x scan (none, custom, line, 2x3 grid, 2x8 grid, 3x4 grid with endpoint (True, False)) x builder tilt (none, series along y, scalar x with series along y) x CTF application, pruned by Pipeline!Valid, enumerated by TLC; each run "
                "eagerly and lazily for max_batch {1, 3, 6, auto} x scheduler {synchronous, threads}; non-trivial = every scenario")
    ctx.design_check("PipelineModel", "PipelineSched.cfg", label="schedule confluence (4 blocks, 3 workers)")
    r = ctx.design_check("PipelineModel", "PipelineScn.cfg", label="scenario enumeration", workers=1)
    self_test(ctx)
    cases = [json.loads(tlc.tla_value_to_py(s)[1]) for s in r.printed("CASE")]
    ctx.notes["valid_scenarios"] = len(cases)
    rng = random.Random(ctx.seed)
    cases.sort(key=lambda c: json.dumps(c, sort_keys=True))
    rng.shuffle(cases)
    if quick:
        # one scenario of every (builder, scan, potential) stratum at every seed, then the seeded remainder
        seen, first, rest = set(), [], []
        for c in cases:
            k = (c["builder"], c["scan"], c["potential"], c.get("tilt", "none"), bool(c.get("ctf_series")))
            (rest if k in seen else first).append(c)
            seen.add(k)
        cases = first + rest[:8]
        ctx.notes["strata"] = len(seen)
    else:
        ctx.exhaustive = True
    evs = []
    for c in cases:
        evs.append(observe(c))
        ctx.case(json.dumps(c, sort_keys=True))
    for e in evs[:2]:
        ctx.sample(e)
    judge(ctx, evs)


def replay(ctx: Ctx, case):
    ev = observe(case["event"]["scn"])
    ctx.case("replay")
    ctx.sample(ev)
    judge(ctx, [ev])
