"""C28  Ptychographic operators honour their mathematical contracts.

design  : TLC checks PtychoImpl.tla (position conversion over exact rationals incl. rational rotations, window indices with
          half-to-even rounding, the function queue, the reconstruction loop with every visiting order) against the
          property-level operators of Ptycho.tla and emits the cases
inputs  : every emitted case on the real static methods of abtem.reconstruct (all four operator classes for the Fourier
          projection), plus real reconstruct() runs whose step functions are wrapped by recorders
verdict : PtychoTrace: Fourier amplitude / phase / idempotence, object and probe unchanged and zero error at the truth,
          J explicit positions -> J positions in the same order.  Clauses named growth_* (loop order, raster scans, window
          indices) are behaviour the statement does not mention: reported as model drift only.
"""
from __future__ import annotations

import json
import math
import random
import warnings
from fractions import Fraction

import numpy as np

from ..core import Ctx, Machinery
from ..rat import ppb
from .. import tlc

ENERGY = 100e3


def frac(q):
    return Fraction(int(q[0]), int(q[1]))


# ---------------------------------------------------------------------------------------------- positions / window
ROT = {"none": None, "zero": 0.0, "quarter": math.pi / 2, "r345": math.atan2(4.0, 3.0)}


def positions_event(c):
    from abtem.reconstruct import RegularizedPtychographicOperator as R
    ev = {"k": "positions", "case": c, "raised": False, "explicit": bool(c["explicit"]), "pin": c["pin"], "sampling": c["sampling"],
          "rot": c["rot"] if c["rot"] in ("none", "zero") else "other", "nx": c["nx"], "ny": c["ny"], "step": c["step"], "count": 0,
          "pout_c": []}
    samp = tuple(float(frac(s)) for s in c["sampling"])
    params = {"grid_scan_shape": None, "scan_step_sizes": None, "rotation_angle": ROT[c["rot"]],
              "object_px_padding": None if c["pad"] == "default" else (3, 5)}
    pos = None
    if c["explicit"]:
        pos = np.array([[float(frac(p[0])), float(frac(p[1]))] for p in c["pin"]], dtype=np.float64)
        if c.get("gshape"):
            params["grid_scan_shape"] = (1, len(c["pin"]))
            params["scan_step_sizes"] = (1.0, 1.0)
    else:
        params["grid_scan_shape"] = (c["nx"], c["ny"])
        params["scan_step_sizes"] = tuple(float(frac(s)) for s in c["step"])
    try:
        out, _ = R._calculate_scan_positions_in_pixels(pos, samp, tuple(c["roi"]), params)
        out = np.asarray(out, dtype=np.float64)
        ev["count"] = int(out.shape[0]) if out.ndim == 2 else -1
        if out.ndim == 2 and out.shape[0] <= 64:
            ev["pout_c"] = [[int(round(100 * float(a))), int(round(100 * float(b)))] for a, b in out]
    except Exception as ex:
        ev["raised"] = True
        ev["exc"] = f"{type(ex).__name__}: {ex}"[:200]
    return ev


def window_events(ca, cb):
    from abtem.reconstruct import _wrapped_indices_2D_window as W
    ix = W(np.array([ca["c2"] / 2.0, cb["c2"] / 2.0]), (ca["n"], cb["n"]), (ca["s"], cb["s"]))
    return [{"k": "window", "idx": [int(v) for v in np.asarray(ix[0]).ravel()], "c2": ca["c2"], "n": ca["n"], "s": ca["s"]},
            {"k": "window", "idx": [int(v) for v in np.asarray(ix[1]).ravel()], "c2": cb["c2"], "n": cb["n"], "s": cb["s"]}]


# ---------------------------------------------------------------------------------------------- Fourier projection
def make_wave(kind, shape, rng, cdt):
    n, m = shape
    if kind == "random":
        a = rng.normal(size=shape) + 1j * rng.normal(size=shape)
    elif kind == "real":
        a = rng.normal(size=shape) + 0j
    elif kind == "sparse_spectrum":
        f = np.zeros(shape, complex)
        for _ in range(5):
            f[rng.integers(n), rng.integers(m)] = rng.normal() + 1j * rng.normal()
        a = np.fft.ifft2(f)
    elif kind == "plane":
        x, y = np.meshgrid(np.arange(n), np.arange(m), indexing="ij")
        a = np.exp(2j * np.pi * (2 * x / n + 1 * y / m)) * (0.7 + 0.2j)
    elif kind == "zero":
        a = np.zeros(shape, complex)
    else:
        a = np.zeros(shape, complex)
        a[n // 3, m // 2] = 1.5 - 0.5j
    return a.astype(cdt)


def make_amp(kind, wave, rng, rdt):
    shape = wave.shape[-2:]
    if kind == "random":
        a = np.abs(rng.normal(size=shape)) + 0.05
    elif kind == "with_zeros":
        a = np.abs(rng.normal(size=shape)) + 0.05
        a[rng.random(shape) < 0.3] = 0.0
    elif kind == "own":
        f = np.fft.fft2(wave.astype(np.complex128), axes=(-2, -1))
        a = np.abs(f) if wave.ndim == 2 else np.sqrt((np.abs(f) ** 2).sum(0))
    else:
        a = np.full(shape, 0.8)
    return a.astype(rdt)


def _proj_call(variant, waves, amp):
    import abtem.reconstruct as rc
    if variant == "rpie":
        out, sse = rc.RegularizedPtychographicOperator._fourier_projection(waves, amp, 0.0)
    elif variant == "mixed_warmup":
        out, sse = rc.MixedStatePtychographicOperator._warmup_fourier_projection(waves, amp, 0.0)
    elif variant == "mixed":
        out, sse = rc.MixedStatePtychographicOperator._fourier_projection(waves, amp, 0.0)
    elif variant == "ms":
        out, sse = rc.MultislicePtychographicOperator._fourier_projection(waves, amp, 0.0)
    elif variant == "sim_warmup":
        (o, _none), sse = rc.SimultaneousPtychographicOperator._warmup_fourier_projection((waves[0], waves[1]), (amp[0], amp[1]), 0.0)
        out = o
    else:
        (o1, o2), sse = rc.SimultaneousPtychographicOperator._fourier_projection((waves[0], waves[1]), (amp[0], amp[1]), 0.0)
        out = np.stack([o1, o2])
    return np.asarray(out), float(np.real(sse))


def _contract(variant, waves, amp, out):
    """(amp_err, phase_err) relative, numpy reference in complex128"""
    w = waves.astype(np.complex128)
    o = out.astype(np.complex128)
    if variant == "ms":
        w, o = w[-1], o[-1]
    if variant == "sim_warmup":
        w, amp = w[0], amp[0]
    if variant == "sim":
        errs = [_contract("rpie", w[i], amp[i], o[i]) for i in range(2)]
        return max(e[0] for e in errs), max(e[1] for e in errs)
    F_in, F_out = np.fft.fft2(w, axes=(-2, -1)), np.fft.fft2(o, axes=(-2, -1))
    A = amp.astype(np.float64)
    if variant == "mixed":
        mag_out = np.sqrt((np.abs(F_out) ** 2).sum(0))
        mag_in = np.sqrt((np.abs(F_in) ** 2).sum(0))
    else:
        mag_out, mag_in = np.abs(F_out), np.abs(F_in)
    amp_err = float(np.abs(mag_out - A).max() / max(A.max(), 1e-30))
    sel = (A > 0.1 * A.max()) & (mag_in > 0.1 * mag_in.max())
    if variant == "mixed":
        sel = sel[None] & (np.abs(F_in) > 0.1 * mag_in.max())
    ph = 0.0
    if sel.any():
        with np.errstate(all="ignore"):
            u_in, u_out = F_in / np.abs(F_in), F_out / np.abs(F_out)
        d = np.abs(u_out - u_in)[sel]
        ph = float(np.nanmax(d)) if np.isfinite(d).any() else 2.0
    return amp_err, ph


def proj_event(c, seed):
    rng = np.random.default_rng([seed, hash(json.dumps(c, sort_keys=True)) & 0xFFFF])
    cdt, rdt = (np.complex128, np.float64) if c["double"] else (np.complex64, np.float32)
    shape = tuple(c["shape"])
    v = c["variant"]
    ev = {"k": "proj", "case": c, "raised": False, "double": bool(c["double"]), "amp_ppb": 0, "phase_ppb": 0, "idem_ppb": 0, "sse_ppb": 0,
          "at_truth": c["amp"] == "own" and c["wave"] != "zero", "finite": True}
    try:
        with warnings.catch_warnings():
            warnings.simplefilter("ignore")
            zero = c["wave"] == "zero"
            if v in ("sim", "sim_warmup"):
                waves = np.stack([make_wave(c["wave"], shape, rng, cdt), make_wave("zero" if zero else "random", shape, rng, cdt)])
                amp = np.stack([make_amp(c["amp"], waves[0], rng, rdt), make_amp(c["amp"], waves[1], rng, rdt)])
            elif v == "mixed":
                waves = np.stack([make_wave(c["wave"], shape, rng, cdt), 0.5 * make_wave("zero" if zero else "random", shape, rng, cdt),
                                  0.2 * make_wave("zero" if zero else "random", shape, rng, cdt)])
                amp = make_amp(c["amp"], waves, rng, rdt)
            elif v == "ms":
                waves = np.stack([make_wave("random", shape, rng, cdt), make_wave(c["wave"], shape, rng, cdt)])
                amp = make_amp(c["amp"], waves[-1], rng, rdt)
            else:
                waves = make_wave(c["wave"], shape, rng, cdt)
                amp = make_amp(c["amp"], waves, rng, rdt)
            if zero and c["amp"] == "own":
                amp = make_amp("random", waves if v not in ("ms",) else waves[-1], rng, rdt) if v not in ("sim", "sim_warmup") else \
                    np.stack([make_amp("random", waves[0], rng, rdt), make_amp("random", waves[1], rng, rdt)])
            out, sse = _proj_call(v, waves.copy(), amp.copy())
            a_err, p_err = (0.0, 0.0) if zero else _contract(v, waves, amp, out)
            if v == "ms":
                again_in = np.stack([waves[0], out[-1]])
            elif v == "sim_warmup":
                again_in = np.stack([out, waves[1]])
            else:
                again_in = out
            out2, _ = _proj_call(v, again_in.astype(cdt), amp.copy())
            sel = (lambda x: x[-1]) if v == "ms" else (lambda x: x)
            scale = max(float(np.abs(sel(out)).max()), 1e-30)
            ev["idem_ppb"] = ppb(float(np.abs(sel(out2).astype(np.complex128) - sel(out).astype(np.complex128)).max()) / scale)
            ev["finite"] = bool(np.isfinite(sel(out)).all() and np.isfinite(sel(out2)).all())
            ev["amp_ppb"], ev["phase_ppb"], ev["sse_ppb"] = ppb(a_err), ppb(p_err), ppb(abs(sse))
    except Exception as ex:
        ev["raised"] = True
        ev["exc"] = f"{type(ex).__name__}: {ex}"[:200]
    return ev


# ---------------------------------------------------------------------------------------------- update at the truth
def window_ref(position, wshape, ashape):
    """independent statement of the documented window: w pixels centred on the pixel under the (integer) position"""
    cx, cy = int(position[0]), int(position[1])
    rows = [(cx - wshape[0] // 2 + i) % ashape[0] for i in range(wshape[0])]
    cols = [(cy - wshape[1] // 2 + i) % ashape[1] for i in range(wshape[1])]
    return np.ix_(rows, cols)


def fourier_shift(a, d):
    """independent sub-pixel shift of a 2-D array by d pixels (content moves towards larger indices for positive d)"""
    kx = np.fft.fftfreq(a.shape[0])[:, None]
    ky = np.fft.fftfreq(a.shape[1])[None, :]
    return np.fft.ifft2(np.fft.fft2(a) * np.exp(-2j * np.pi * (kx * d[0] + ky * d[1])))


def exit_candidates(obj, probe, pos, old, wshape):
    """The exit waves O[window] x P(shifted) that put the probe centre at `pos`, for every consistent rounding of a half-integer
    coordinate (down / up per axis): which pixel the window is centred on is a convention, that window pixel + sub-pixel shift
    = position is not.  `old` is the previous position (the probe array handed in is already shifted by its fractional part)."""
    import itertools as it
    old_frac = old - np.round(old)
    opts = []
    for ax in range(2):
        f = pos[ax] - np.floor(pos[ax])
        opts.append([np.floor(pos[ax]), np.floor(pos[ax]) + 1.0] if abs(f - 0.5) < 1e-9 else [np.floor(pos[ax] + 0.5)])
    out = []
    for cx, cy in it.product(*opts):
        centre = np.array([cx, cy])
        sh = (pos - centre) - old_frac
        p_s = fourier_shift(probe.astype(np.complex128), sh) if np.abs(sh).max() > 0 else probe.astype(np.complex128)
        out.append(obj[window_ref(centre, wshape, obj.shape)].astype(np.complex128) * p_s)
    return out


def make_object(shape, rng, cdt):
    return ((0.8 + 0.4 * rng.random(shape)) * np.exp(1j * rng.uniform(-1.0, 1.0, shape))).astype(cdt)


def make_probe(kind, shape, rng, cdt, sampling=0.25):
    if kind == "built":
        import abtem
        with abtem.config.set({"precision": "float64" if cdt == np.complex128 else "float32"}):
            p = abtem.Probe(energy=ENERGY, semiangle_cutoff=30.0, gpts=shape, sampling=sampling, defocus=40.0).build(lazy=False).array
        p = np.roll(np.asarray(p), (shape[0] // 2, shape[1] // 2), axis=(0, 1))
        return (p / np.abs(p).max()).astype(cdt)
    return ((0.5 + rng.random(shape)) * np.exp(1j * rng.uniform(-np.pi, np.pi, shape))).astype(cdt)


ALPHA = {"zero": 0.0, "small": 0.05, "half": 0.5, "one": 1.0}
STEP = {"one": 1.0, "half": 0.5}


def update_event(c, seed):
    import abtem
    with abtem.config.set({"precision": "float64" if c["double"] else "float32"}):      # the sub-pixel shift kernels follow the precision
        return _update_event(c, seed)


def _update_event(c, seed):
    import scipy.ndimage
    from abtem.reconstruct import RegularizedPtychographicOperator as R
    rng = np.random.default_rng([seed, hash(json.dumps(c, sort_keys=True)) & 0xFFFF])
    cdt = np.complex128 if c["double"] else np.complex64
    shape, oshape = tuple(c["shape"]), tuple(c["obj"])
    ev = {"k": "update", "case": c, "raised": False, "double": bool(c["double"]), "obj_ppb": 0, "probe_ppb": 0, "sse_ppb": 0, "pos_moved_ppb": 0}
    try:
        with warnings.catch_warnings():
            warnings.simplefilter("ignore")
            obj = make_object(oshape, rng, cdt)
            probe = make_probe(c["probe"], shape, rng, cdt)
            pos = {"integer": (oshape[0] // 2, oshape[1] // 2), "wrapping": (1, oshape[1] - 1), "half": (4.5, 3.5), "half_b": (3.5, 6.5),
                   "fractional": (oshape[0] // 2 + 0.3, oshape[1] // 2 - 0.35),
                   # a sub-pixel offset along ONE axis only (consecutive positions of one scan row / column)
                   "fractional_y_only": (float(oshape[0] // 2), oshape[1] // 2 + 0.25), "fractional_x_only": (oshape[0] // 2 - 0.25, float(oshape[1] // 2))}[c["pos"]]
            pos = np.array(pos, dtype=np.float64)
            old = np.array([float(shape[0] // 2), float(shape[1] // 2)]) + (np.array([0.25, -0.4]) if c["pos"] == "fractional" and c["fix_probe"] else 0.0)
            probes_s, exit_wave = R._overlap_projection(obj, probe.copy(), pos, old)
            # the truth comes from an independent numpy forward model; for half-integer coordinates every consistent rounding is a truth
            cands = exit_candidates(obj, probe, pos, old, shape)
            errs = [float(np.abs(np.asarray(exit_wave).astype(np.complex128) - t).max() / np.abs(t).max()) for t in cands]
            truth_exit = cands[int(np.argmin(errs))]
            ev["forward_ppb"] = ppb(min(errs))
            dp = np.abs(np.fft.fft2(truth_exit)).astype(np.float64 if c["double"] else np.float32)
            mod, sse = R._fourier_projection(exit_wave, dp, 0.0)
            o0, p0 = obj.copy(), np.asarray(probes_s).copy()
            params = {"alpha": ALPHA[c["alpha"]], "beta": ALPHA[c["beta"]], "object_step_size": STEP[c["step"]], "probe_step_size": STEP[c["step"]],
                      "position_step_size": 1.0}
            o1, p1, pos1 = R._update_function(obj, np.asarray(probes_s).astype(cdt), pos.copy(), exit_wave, mod, dp, fix_probe=bool(c["fix_probe"]),
                                              position_correction=R._position_correction if c["pcorr"] else None,
                                              sobel=scipy.ndimage.sobel, reconstruction_parameters=params)
            ev["obj_ppb"] = ppb(float(np.abs(np.asarray(o1).astype(np.complex128) - o0).max() / np.abs(o0).max()))
            ev["probe_ppb"] = ppb(float(np.abs(np.asarray(p1).astype(np.complex128) - p0).max() / np.abs(p0).max()))
            ev["sse_ppb"] = ppb(abs(float(np.real(sse))))
            ev["pos_moved_ppb"] = ppb(float(np.abs(np.asarray(pos1, dtype=float) - pos).max()))
    except Exception as ex:
        ev["raised"] = True
        ev["exc"] = f"{type(ex).__name__}: {ex}"[:200]
    return ev


# ---------------------------------------------------------------------------------------------- recorded reconstruct() runs
GRID = {1: (1, 1), 2: (1, 2), 4: (2, 2), 6: (2, 3)}


def recon_trace(c, seed):
    import abtem
    with abtem.config.set({"precision": "float64" if c["double"] else "float32"}):
        return _recon_trace(c, seed)


def _recon_trace(c, seed):
    import scipy.ndimage  # noqa: F401
    from abtem.core.energy import energy2wavelength
    from abtem.reconstruct import RegularizedPtychographicOperator as R
    rng = np.random.default_rng([seed, hash(json.dumps(c, sort_keys=True)) & 0xFFFF])
    cdt = np.complex128 if c["double"] else np.complex64
    J, shape, samp = c["J"], (8, 10), 0.25
    nx, ny = GRID[J]
    step_px = (3, 2)
    pospx = np.array([[i * step_px[0], k * step_px[1]] for i in range(nx) for k in range(ny)], dtype=float)
    pad = np.array([4, 5])
    oshape = (int(pospx[:, 0].max()) + 2 * pad[0], int(pospx[:, 1].max()) + 2 * pad[1])
    obj = make_object(oshape, rng, cdt)
    probe = make_probe("random", shape, rng, cdt)
    pats = []
    for p in pospx + pad:
        ew = obj[window_ref(p, shape, oshape)].astype(np.complex128) * probe.astype(np.complex128)
        pats.append(np.fft.fftshift(np.abs(np.fft.fft2(ew)) ** 2))
    pats = np.array(pats)
    nonempty = list(range(J))
    if c["empty"] and J > 1:
        pats[J - 1] = 0.0
        nonempty = list(range(J - 1))
    lam = energy2wavelength(ENERGY)
    ang = tuple(lam * 1e3 / (samp * n) for n in shape)
    params = {"angular_sampling": ang, "object_px_padding": tuple(int(v) for v in pad)}
    start_obj = obj.copy() if c["truth"] else make_object(oshape, rng, cdt)
    kw = dict(energy=ENERGY, semiangle_cutoff=20.0, objects=start_obj, probes=probe.copy(), preprocess=True, parameters=params)
    trace = [{"k": "loop", "e": "Begin", "J": J, "iters": c["iters"], "nonempty": nonempty, "pre_pos": c["prepos"], "pre_probe": c["preprobe"],
              "truth": bool(c["truth"]), "case": c}]
    with warnings.catch_warnings():
        warnings.simplefilter("ignore")
        try:
            if c["raster"]:
                params["scan_step_sizes"] = (step_px[0] * samp, step_px[1] * samp)
                op = R(pats.reshape((nx, ny) + shape).astype(np.float64), **kw)
            elif c.get("stack4d"):
                op = R(pats.reshape((nx, ny) + shape).astype(np.float64), positions=pospx * samp, **kw)
            else:
                op = R(pats.astype(np.float64), positions=pospx * samp, **kw)
            state = {"j": -1}

            def overlap(objects, probes, position, old_position, **k2):
                cur = np.asarray(op._positions_px)
                hit = [i for i in range(cur.shape[0]) if np.array_equal(cur[i], np.asarray(position))]
                state["j"] = hit[0] if len(hit) == 1 else (-2 if not hit else hit[0])
                trace.append({"k": "loop", "e": "Overlap", "j": state["j"]})
                return R._overlap_projection(objects, probes, position, old_position, **k2)

            def fourier(exit_waves, diffraction_patterns, sse, **k2):
                before = float(np.real(sse))
                out, s2 = R._fourier_projection(exit_waves, diffraction_patterns, sse, **k2)
                state["dsse"] = float(np.real(s2)) - before
                trace.append({"k": "loop", "e": "Fourier", "j": state["j"]})
                return out, s2

            def update(objects, probes, position, exit_waves, modified_exit_waves, diffraction_patterns, fix_probe=False, position_correction=None,
                       **k2):
                o0, p0 = np.array(objects, copy=True), np.array(probes, copy=True)
                res = R._update_function(objects, probes, position, exit_waves, modified_exit_waves, diffraction_patterns, fix_probe=fix_probe,
                                         position_correction=position_correction, **k2)
                trace.append({"k": "loop", "e": "Update", "j": state["j"], "fix_probe": bool(fix_probe), "pc": position_correction is not None,
                              "raised": False, "double": bool(c["double"]),
                              "obj_ppb": ppb(float(np.abs(np.asarray(res[0]) - o0).max() / np.abs(o0).max())),
                              "probe_ppb": ppb(float(np.abs(np.asarray(res[1]) - p0).max() / np.abs(p0).max())),
                              "sse_ppb": ppb(abs(state.get("dsse", 0.0)))})
                return res

            op._overlap_projection, op._fourier_projection, op._update_function = overlap, fourier, update
            out = op.reconstruct(max_iterations=c["iters"], fix_com=False, random_seed=seed + 1,
                                 pre_position_correction_update_steps=None if c["prepos"] < 0 else c["prepos"],
                                 pre_probe_correction_update_steps=None if c["preprobe"] < 0 else c["preprobe"])
            trace.append({"k": "loop", "e": "End"})
            final = {"object_ppb": ppb(float(np.abs(np.asarray(out[0].array) - obj).max() / np.abs(obj).max())),
                     "probe_ppb": ppb(float(np.abs(np.asarray(out[1].array) - probe).max() / np.abs(probe).max()))}
        except Exception as ex:
            final = {"exc": f"{type(ex).__name__}: {ex}"[:200]}
            if c["truth"]:
                trace.append({"k": "update", "raised": True, "double": bool(c["double"]), "obj_ppb": 0, "probe_ppb": 0, "sse_ppb": 0})
            trace.append({"k": "loop", "e": "End"})
    return trace, final


# ---------------------------------------------------------------------------------------------- judging
def tags_for(ev, clauses, first):
    t = {"clauses": sorted(clauses), "k": first.get("k")}
    c = first.get("case") or {}
    if first.get("k") == "proj":
        t.update(variant=c.get("variant"), wave=c.get("wave"), amp=c.get("amp"), double=c.get("double"))
    elif first.get("k") == "update":
        t.update(pos=c.get("pos"), alpha=c.get("alpha"), beta=c.get("beta"), fix_probe=c.get("fix_probe"), pcorr=c.get("pcorr"), double=c.get("double"))
    elif first.get("k") == "positions":
        t.update(explicit=c.get("explicit"), rot=c.get("rot"), J=len(c.get("pin") or []))
    elif first.get("k") == "loop":
        t.update(J=c.get("J"), truth=c.get("truth"), raster=c.get("raster"), prepos=c.get("prepos"), preprobe=c.get("preprobe"))
    return t


def judge(ctx: Ctx, traces):
    res = ctx.validate("PtychoTrace", traces, "PtychoTrace.cfg")
    for tr, (ok, bad) in zip(traces, res):
        if ok:
            continue
        verdict, growth = set(), set()
        for _line, cl in bad:
            for x in cl:
                (growth if x.startswith("growth_") else verdict).add(x)
        if growth:
            ctx.drift.append({"clauses": sorted(growth), "case": tr[0].get("case"), "note": "behaviour outside the statement of C28 differs from the model"})
        if verdict:
            tg = tags_for(tr, verdict, tr[0])
            line = tr[bad[0][0] - 1] if bad[0][0] - 1 < len(tr) else {}
            ctx.report(tg, {"trace_kind": tr[0].get("k"), "case": tr[0].get("case")},
                       f"{tr[0].get('k')} {json.dumps(tr[0].get('case'))[:260]}: {','.join(tg['clauses'])} "
                       f"{ {k: v for k, v in line.items() if k.endswith('_ppb') or k in ('count', 'exc')} }")


def self_test(ctx: Ctx):
    q = lambda a, b=1: [a, b]
    proj = {"k": "proj", "raised": False, "double": True, "amp_ppb": 3, "phase_ppb": 10, "idem_ppb": 0, "sse_ppb": 0, "at_truth": True, "finite": True}
    upd = {"k": "update", "raised": False, "double": False, "obj_ppb": 400, "probe_ppb": 12, "sse_ppb": 0}
    pos = {"k": "positions", "raised": False, "explicit": True, "pin": [[q(0), q(0)], [q(1), q(2)], [q(3), q(1)]], "sampling": [q(1, 2), q(1, 2)],
           "rot": "none", "nx": 0, "ny": 0, "step": [q(1), q(1)], "count": 3, "pout_c": [[400, 400], [600, 800], [1000, 600]]}
    pos_swapped = dict(pos, pout_c=[[600, 800], [400, 400], [1000, 600]])
    pos_squared = dict(pos, count=9, pout_c=[[400, 400]] * 9)
    loop = [{"k": "loop", "e": "Begin", "J": 2, "iters": 1, "nonempty": [0, 1], "pre_pos": -1, "pre_probe": -1, "truth": True},
            {"k": "loop", "e": "Overlap", "j": 1}, {"k": "loop", "e": "Fourier", "j": 1},
            dict(upd, k="loop", e="Update", j=1, fix_probe=False, pc=False),
            {"k": "loop", "e": "Overlap", "j": 0}, {"k": "loop", "e": "Fourier", "j": 0},
            dict(upd, k="loop", e="Update", j=0, fix_probe=False, pc=False), {"k": "loop", "e": "End"}]
    loop_moved = json.loads(json.dumps(loop)); loop_moved[6]["probe_ppb"] = 900000
    loop_missing = loop[:4] + loop[7:]
    res = ctx.validate("PtychoTrace", [[proj], [dict(proj, amp_ppb=4000)], [dict(proj, sse_ppb=90000)], [upd], [dict(upd, obj_ppb=80000)], [pos],
                                       [pos_swapped], [pos_squared], loop, loop_moved, loop_missing], "PtychoTrace.cfg")
    want = [True, False, False, True, False, True, False, False, True, False, False]
    if [r[0] for r in res] != want:
        raise Machinery(f"PtychoTrace self-test failed: {[(r[0], r[1]) for r in res]}")
    ctx.notes["binding_selftest"] = {"good_accepted": True, "wrong_amplitude_rejected": res[1][1], "nonzero_error_rejected": res[2][1],
                                     "moved_object_rejected": res[4][1], "swapped_positions_rejected": res[6][1],
                                     "squared_count_rejected": res[7][1], "probe_changed_inside_run_rejected": res[9][1],
                                     "missing_pattern_reported_as_growth": res[10][1]}


def _cases(r):
    return [json.loads(tlc.tla_value_to_py(s)[1]) for s in r.printed("CASE")]


def cfg(mode, maxj=2, emit=True):
    return ("SPECIFICATION Spec\nCONSTANTS\n  Mode = \"%s\"\n  Emit = %s\n  MaxJ = %d\n  MeshgridExplicit = FALSE\n"
            "INVARIANT ImplPositionsSatisfyProperty\nINVARIANT ImplWindowSatisfiesProperty\nINVARIANT ImplQueueSchedule\n"
            "INVARIANT ImplLoopRefinesMachine\nINVARIANT EmitCase\nCHECK_DEADLOCK FALSE\n" % (mode, "TRUE" if emit else "FALSE", maxj))


def run(ctx: Ctx):
    quick = ctx.tier == "quick"
    ctx.rule = ("cases emitted by TLC from PtychoImpl.tla: position conversion = sequences of <= %d explicit positions from a 5-point rational "
                "lattice x 2 samplings x 4 rotations (none, 0, quarter turn, 3-4-5) x 2 paddings plus raster scans up to 3 x 3; window = centre "
                "(integer and half-integer) x window length x array length <= 6; projection = 6 operator variants x 4 shapes x 5 wave classes x "
                "4 amplitude classes x 2 precisions; update at the truth = shape x object size x position class (integer, wrapping, half, "
                "fractional) x alpha x beta x step x fix_probe x position correction x precision x probe kind; recorded reconstruct() runs = "
                "J x iterations x empty pattern x correction schedules x precision x raster/explicit x at the truth or not.  non-trivial = "
                "every case") % (2 if quick else 3)
    self_test(ctx)
    rng = random.Random(ctx.seed)
    rp = ctx.design_check("PtychoImpl", cfg_text=cfg("positions", 2 if quick else 3), label="positions: implementation => property", workers=1)
    rw = ctx.design_check("PtychoImpl", cfg_text=cfg("window"), label="window indices", workers=1)
    ctx.design_check("PtychoImpl", cfg_text=cfg("queue", emit=False), label="function queue schedule", workers=1)
    ctx.design_check("PtychoImpl", cfg_text=cfg("loop", emit=False), label="reconstruction loop refines the step machine", workers="auto",
                     coverage=not quick)
    rc = ctx.design_check("PtychoImpl", cfg_text=cfg("cases"), label="numeric scenario space", workers=1)
    traces = []
    drift_model = 0
    # positions: model prediction vs code (drift) and property verdict
    pcs = _cases(rp)
    pcs.sort(key=lambda x: json.dumps(x, sort_keys=True))
    for pc in pcs:
        ev = positions_event(pc["case"])
        traces.append([ev])
        ctx.case("pos:" + json.dumps(pc["case"], sort_keys=True))
        if not ev["raised"] and (ev["count"] != pc["model"]["count"] or any(abs(a - b) > 2 for x, y in zip(ev["pout_c"], pc["model"]["pout_c"]) for a, b in zip(x, y))):
            drift_model += 1
            if len(ctx.drift) < 10:
                ctx.drift.append({"what": "positions: code differs from PtychoImpl", "case": pc["case"], "code": ev["pout_c"][:6], "model": pc["model"]["pout_c"][:6]})
    ctx.sample(traces[0][0])
    # windows: pair the 1-D cases into 2-D calls
    wcs = _cases(rw)
    wcs.sort(key=lambda x: json.dumps(x, sort_keys=True))
    others = list(wcs)
    rng.shuffle(others)
    for a, b in zip(wcs, others):
        evs = window_events(a["case"], b["case"])
        traces.append(evs)
        ctx.case("win:" + json.dumps([a["case"], b["case"]], sort_keys=True))
        if evs[0]["idx"] != a["model"]["idx"] or evs[1]["idx"] != b["model"]["idx"]:
            drift_model += 1
            if len(ctx.drift) < 10:
                ctx.drift.append({"what": "window: code differs from PtychoImpl", "case": [a["case"], b["case"]], "code": [evs[0]["idx"], evs[1]["idx"]]})
    # numeric cases
    ncs = [x["case"] for x in _cases(rc)]
    ncs.sort(key=lambda x: json.dumps(x, sort_keys=True))
    rng.shuffle(ncs)
    proj = [x for x in ncs if x["k"] == "proj"]
    upd = [x for x in ncs if x["k"] == "update" and not (x["alpha"] == "zero" and x["probe"] == "built")]
    rec = [x for x in ncs if x["k"] == "recon"]
    ctx.assumptions.append("alpha = 0 is exercised only with probes without small-modulus pixels (the unregularised update divides by |P|^2)")
    if quick:
        # stratified: every position class x fix_probe x pcorr x precision at least once, every J x raster x truth x precision
        def strat(items, key, rest):
            seen, first, others_ = set(), [], []
            for x in items:
                kx = key(x)
                if kx in seen:
                    others_.append(x)
                else:
                    seen.add(kx)
                    first.append(x)
            return first + others_[:rest]
        upd = strat(upd, lambda x: (x["pos"], x["fix_probe"], x["pcorr"], x["double"], x["alpha"]), 250)
        rec = strat(rec, lambda x: (x["J"], x["raster"], x.get("stack4d"), x["truth"], x["double"], x["empty"]), 50)
    else:
        upd = upd[:4000]
        ctx.exhaustive = False
    for x in proj:
        traces.append([proj_event(x, ctx.seed)])
        ctx.case("proj:" + json.dumps(x, sort_keys=True))
    ctx.sample(traces[-1][0])
    for x in upd:
        traces.append([update_event(x, ctx.seed)])
        ctx.case("upd:" + json.dumps(x, sort_keys=True))
    ctx.sample(traces[-1][0])
    finals_off = 0
    for x in rec:
        tr, final = recon_trace(x, ctx.seed)
        traces.append(tr)
        ctx.case("rec:" + json.dumps(x, sort_keys=True))
        tol = 100 if x["double"] else 50000
        if x["truth"] and x["prepos"] < 0 and ("exc" in final or final["object_ppb"] > tol * 20 or final["probe_ppb"] > tol * 20):
            finals_off += 1
            if len(ctx.drift) < 10:
                ctx.drift.append({"what": "reconstruct() started at the truth does not end at the truth (diagnostic only)", "case": x, "final": final})
    ctx.sample(traces[-1][:4])
    ctx.notes["model_predictions_differing_from_code"] = drift_model
    ctx.notes["reconstruct_runs"] = len(rec)
    ctx.notes["reconstruct_runs_at_truth_not_ending_at_truth"] = finals_off
    ctx.notes["cases"] = {"positions": len(pcs), "windows": len(wcs), "projection": len(proj), "update": len(upd), "reconstruct": len(rec)}
    judge(ctx, traces)


def replay(ctx: Ctx, case):
    c = case["case"]
    kind = case.get("trace_kind")
    if kind == "proj":
        tr = [proj_event(c, ctx.seed)]
    elif kind == "update":
        tr = [update_event(c, ctx.seed)]
    elif kind == "positions":
        tr = [positions_event(c)]
    else:
        tr, _ = recon_trace(c, ctx.seed)
    ctx.case("replay")
    ctx.sample(tr[:3])
    judge(ctx, [tr])
