"""C26  Bloch-wave dynamical diffraction conserves intensity.

design  : Bloch.tla: the structure matrix A[i][j] = F(h_j - h_i) is Hermitian because F(-h) = conj F(h), so exp(i pi lambda z A) is
          unitary and the intensities sum to one; BlochImpl.tla (shared with C27) checks with TLC what the lookup needs: allowed
          reflections are closed under differences, differences stay inside a table reaching twice as far, the raveled key is injective
inputs  : scenarios enumerated by TLC: 10 crystals (cubic F / I / P, orthorhombic A / B / C centred, orthohexagonal hcp, two-element) x
          4 orientations x 2 energies x 2 sg_max x 2 g_max x both Bloch equations, thicknesses (0, 37, 120, 455.5)
verdict : BlochTrace: intensities sum to one at every thickness, zero thickness = direct beam, structure matrix Hermitian, lazy ==
          eager, matrix-exponential scattering matrix gives the eigendecomposition intensities
"""
from __future__ import annotations

import json
import random

from ..core import Ctx, Machinery
from .. import tlc
from .. import bloch


def tags_for(ev, clauses):
    c = ev["case"]
    worst = max(list(ev.get("sum_ppb", [])) + [ev.get("expm_ppb", 0), ev.get("zero_ppb", 0), ev.get("lazy_ppb", 0), ev.get("hermitian_ppb", 0)] + [0])
    return {"clauses": sorted(clauses), "k": ev["k"], "tilted": c["orientation"] != 1, "deviation": "below_1e-3" if worst < 10 ** 6 else "1e-3_or_more",
            "out_of_plane_beams": bool(ev.get("out_of_plane_beams", False)), "raised": bool(ev.get("raised"))}


def self_test(ctx: Ctx):
    g = {"k": "dyn", "raised": False, "sum_ppb": [0, 12, 400, 30], "zero_ppb": 0, "hermitian_ppb": 2, "lazy_ppb": 0, "expm_ppb": 9000}
    bads = [dict(g, sum_ppb=[0, 10 ** 6, 0, 0]), dict(g, zero_ppb=10 ** 6), dict(g, hermitian_ppb=10 ** 6), dict(g, lazy_ppb=10 ** 6), dict(g, expm_ppb=10 ** 7),
            dict(g, raised=True)]
    res = ctx.validate("BlochTrace", [[g]] + [[b] for b in bads], "BlochTrace.cfg")
    if not res[0][0] or any(x[0] for x in res[1:]):
        raise Machinery(f"BlochTrace (C26) self-test failed: {res}")
    ctx.notes["binding_selftest"] = {"good_accepted": True, "rejected": [x[1] for x in res[1:]]}


def run(ctx: Ctx):
    quick = ctx.tier == "quick"
    ctx.rule = ("scenarios = crystal (10) x orientation (zone axis, three small tilts / rotations) x energy (100, 200 keV) x sg_max x g_max "
                "x Bloch equation, enumerated by TLC; thickness lists over (0, 37, 120, 455.5 A) in ascending, descending, unsorted order and with a repeated entry; non-trivial = more than one beam")
    ctx.design_check("BlochImpl", cfg_text=bloch.IMPL_CFG.format(n=1 if quick else 2), label="BlochImpl: lookup preconditions", timeout=3000)
    r = ctx.design_check("Bloch", "Bloch.cfg", label="scenario space", workers=1)
    self_test(ctx)
    cases = [json.loads(tlc.tla_value_to_py(s)[1]) for s in r.printed("CASE")]
    cases = [c for c in cases if c["k"] == "dyn"]
    ctx.notes["cases_from_tlc"] = len(cases)
    rng = random.Random(ctx.seed)
    cases.sort(key=lambda c: json.dumps(c, sort_keys=True))
    rng.shuffle(cases)
    if quick:
        seen, pick = set(), []
        for c in cases:
            k1, k2, k3 = ("x", c["crystal"]), ("o", c["order"], c["use_wave_eq"]), ("p", c.get("source", c["prebuilt"]), c["use_wave_eq"], c["orientation"] == 1)
            if c["g_max"] == 1 and (k1 not in seen or k2 not in seen or k3 not in seen):
                seen.update([k1, k2, k3]); pick.append(c)
        cases = pick + [c for c in cases if c not in pick and c["g_max"] == 1][:4]
    else:
        ctx.exhaustive = True
    evs = []
    for c in cases:
        ev = bloch.dyn_event(c)
        evs.append(ev)
        ctx.case(json.dumps(c, sort_keys=True), nontrivial=ev["beams"] > 1)
    ctx.notes["beams"] = sorted({e["beams"] for e in evs})[:20]
    for e in evs[:1] + evs[-1:]:
        ctx.sample(e)
    bloch.judge(ctx, evs, tags_for)


def replay(ctx: Ctx, case):
    ev = bloch.dyn_event(case["event"]["case"])
    ctx.case("replay")
    ctx.sample(ev)
    bloch.judge(ctx, [ev], tags_for)
