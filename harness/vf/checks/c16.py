"""C16  Measurement resampling and source-size filtering conserve what they promise.

design  : Resample.tla: total intensity per interpolated diffraction pattern; Images.interpolate delivers a requested gpts, result on
          the image's own grid -> input unchanged, mean always preserved (the grid a requested sampling maps to is not judged: the
          repository's test suite pins the floating-point ceil); source-size filter then integration == integration then filter.
          ResampleModel.tla transcribes the axis bookkeeping of _gaussian_source_size and Images.gaussian_filter (which axis gets
          which sigma in pixels) and TLC checks both routes smooth the same physical axes equally for every layout of other
          ensemble axes around the two scan axes
inputs  : the scenario space enumerated by TLC from Resample.tla, each on real DiffractionPatterns / Images objects
verdict : ResampleTrace (Resample!Fails)
"""
from __future__ import annotations

import json
import random
import warnings
from fractions import Fraction

import numpy as np

from ..core import Ctx, Machinery
from ..rat import ppb
from .. import tlc
from ..ms import relerr

DP_GRIDS = {1: ((9, 8), (Fraction(1, 20), Fraction(1, 25))), 2: ((12, 12), (Fraction(3, 100), Fraction(3, 100))),
            3: ((7, 10), (Fraction(1, 50), Fraction(1, 20))), 4: ((16, 11), (Fraction(1, 40), Fraction(3, 100)))}
IM_GRIDS = {1: ((8, 8), (Fraction(1, 5), Fraction(1, 4))), 2: ((9, 7), (Fraction(1, 5), Fraction(1, 4))),
            3: ((6, 10), (Fraction(1, 5), Fraction(1, 4))), 4: ((12, 15), (Fraction(3, 10), Fraction(1, 10)))}


def q(fr):
    return [fr.numerator, fr.denominator]


def val(x, lazy):
    x = x.compute() if lazy and hasattr(x, "compute") else x
    return np.asarray(x.array)


def dp_event(c, seed):
    import abtem
    from abtem.core.axes import OrdinalAxis
    from abtem.measurements import DiffractionPatterns
    rng = np.random.default_rng(seed)
    n, d = DP_GRIDS[c["grid"]]
    lead = (3,)
    if c.get("stack") == "many_patterns":
        lead, n, d = (17, 19), (32, 32), (Fraction(1, 40), Fraction(1, 50))
    elif c.get("stack") == "large_patterns":
        lead, n, d = (5, 5), (128, 96), (Fraction(1, 100), Fraction(1, 80))
    a = rng.random(lead + n).astype(np.float32)
    if c["zero_member"]:
        a[1] = 0.0
    if c.get("negative_member"):
        a[2] = a[2] - 1.7 * rng.random(n).astype(np.float32)          # specimen minus reference: mixed signs, negative total
    if c.get("faint_member"):
        a[0] = a[0] * np.float32(1e-10)                                  # a pattern ten orders of magnitude weaker than its neighbours
    kw = {"uniform": dict(sampling="uniform"), "one_sampling": dict(sampling=float(max(d) * Fraction(5, 4))),
          "two_samplings": dict(sampling=(float(d[0] * 2), float(d[1] * Fraction(3, 2)))),
          "gpts_smaller": dict(gpts=(n[0] - 2, n[1] - 3)), "gpts_larger": dict(gpts=(n[0] + 5, n[1] + 2)), "gpts_same": dict(gpts=n)}[c["target"]]
    ev = {"k": "dp", "case": c, "raised": False, "finite": True, "total_ppb": [], "lazy_ppb": 0}
    with warnings.catch_warnings():
        warnings.simplefilter("ignore")
        dp = DiffractionPatterns(a, sampling=(float(d[0]), float(d[1])), fftshift=True,
                                 ensemble_axes_metadata=[OrdinalAxis(values=tuple(range(m))) for m in lead], metadata={"energy": 100e3})
        try:
            a_before = a.copy()
            out = val(dp.interpolate(**kw), False)
            again = val(dp.interpolate(**kw), False)
            if again.shape != out.shape or not np.array_equal(np.nan_to_num(again), np.nan_to_num(out)) or not np.array_equal(a, a_before):
                out = np.full_like(out, np.nan)          # a second call on the same object (or the object itself) changed: reported as non-finite
                ev["second_call_differs"] = True
            ev["finite"] = bool(np.isfinite(out).all())
            tot0 = a.sum((-2, -1))
            tot1 = np.nan_to_num(out, nan=0.0).sum((-2, -1))
            scale = float(np.abs(tot0).max())
            # every pattern against ITS OWN magnitude (the sum of its absolute values; the stack's largest total for an empty pattern)
            own = np.abs(a).sum((-2, -1)).astype(np.float64)
            own = np.where(own > 0, own, scale)
            worst = (np.abs(tot0.astype(np.float64) - tot1.astype(np.float64)) / own).reshape(-1)
            ev["total_ppb"] = [ppb(float(x)) for x in (worst if worst.size <= 6 else np.sort(worst)[-6:])]
            ev["gpts"] = list(out.shape[-2:])
            if c["lazy"]:
                lz = val(dp.ensure_lazy().interpolate(**kw), True)
                ev["lazy_ppb"] = ppb(relerr(np.nan_to_num(lz), np.nan_to_num(out))) if lz.shape == out.shape else 2 * 10 ** 9
        except Exception as ex:
            ev["raised"] = True
            ev["exc"] = f"{type(ex).__name__}: {ex}"[:300]
    return ev


def image_event(c, seed):
    import abtem
    from abtem.core.axes import OrdinalAxis
    rng = np.random.default_rng(seed)
    n, d = IM_GRIDS[c["grid"]]
    a = rng.random((2,) + n).astype(np.float32)
    if c["complex"]:
        a = (a + 1j * rng.random((2,) + n)).astype(np.complex64)
    t = c["target"]
    by, target, dnew = "gpts", list(n), [d[0], d[1]]
    if t == "same_gpts":
        kw = dict(gpts=n)
    elif t == "own_sampling":
        by, kw = "sampling", dict(sampling=(float(d[0]), float(d[1])))
    elif t == "gpts_smaller":
        target = [n[0] - 3, n[1] - 2]; kw = dict(gpts=tuple(target))
    elif t == "gpts_larger":
        target = [n[0] + 4, n[1] + 7]; kw = dict(gpts=tuple(target))
    elif t == "gpts_mixed":
        target = [n[0] - 2, n[1] + 6]; kw = dict(gpts=tuple(target))
    elif t == "finer_sampling":
        by, dnew = "sampling", [d[0] / 2, d[1] * Fraction(2, 3)]; kw = dict(sampling=(float(dnew[0]), float(dnew[1])))
    elif t == "coarser_sampling":
        by, dnew = "sampling", [d[0] * Fraction(3, 2), d[1] * Fraction(5, 4)]; kw = dict(sampling=(float(dnew[0]), float(dnew[1])))
    else:
        raise Machinery(t)
    ev = {"k": "image", "case": c, "raised": False, "by": by, "n": list(n), "d": [q(d[0]), q(d[1])], "dnew": [q(dnew[0]), q(dnew[1])], "target": target,
          "gpts": [0, 0], "unchanged_ppb": 0, "mean_ppb": [], "lazy_ppb": 0}
    with warnings.catch_warnings():
        warnings.simplefilter("ignore")
        im = abtem.Images(a, sampling=(float(d[0]), float(d[1])), ensemble_axes_metadata=[OrdinalAxis(values=(0, 1))])
        try:
            out = val(im.interpolate(method="fft", **kw), False)
            ev["gpts"] = [int(v) for v in out.shape[-2:]]
            if out.shape == a.shape:
                ev["unchanged_ppb"] = ppb(relerr(out, a))
            scale = float(np.abs(a).max())
            ev["mean_ppb"] = [ppb(abs(complex(x) - complex(y)) / scale) for x, y in zip(a.mean((-2, -1)), out.mean((-2, -1)))]
            if c["lazy"]:
                lz = val(im.ensure_lazy().interpolate(method="fft", **kw), True)
                ev["lazy_ppb"] = ppb(relerr(lz, out)) if lz.shape == out.shape else 2 * 10 ** 9
        except Exception as ex:
            ev["raised"] = True
            ev["exc"] = f"{type(ex).__name__}: {ex}"[:300]
    return ev


def source_event(c, seed):
    import abtem
    from abtem.core.axes import ScanAxis, OrdinalAxis
    from abtem.measurements import DiffractionPatterns
    rng = np.random.default_rng(seed)
    scan = [ScanAxis(label="x", sampling=0.3, units="Å"), ScanAxis(label="y", sampling=0.5, units="Å")]
    sizes = [6, 5]
    axes, shape, j = [], [], 0
    for kd in c["layout"]:
        if kd == "s":
            axes.append(scan[j]); shape.append(sizes[j]); j += 1
        else:
            axes.append(OrdinalAxis(values=(0, 1))); shape.append(2)
    a = rng.random(tuple(shape) + (8, 9)).astype(np.float32)
    sigma = {"small": 0.4, "anisotropic": (0.3, 0.7), "wider_than_the_scan": (2.0, 0.6)}[c["sigma"]]
    inner, outer = {1: (0.0, 30.0), 2: (8.0, 30.0), 3: (0.0, 12.0)}[c["limits"]]
    ev = {"k": "source", "case": c, "raised": False, "reference_raised": False, "shape_ok": True, "commute_ppb": 0, "lazy_ppb": 0}

    def mk(lazy):
        arr = a
        if lazy:
            import dask.array as da
            arr = da.from_array(a, chunks=tuple(max(1, s // 2) for s in shape) + (8, 9))
        return DiffractionPatterns(arr, sampling=0.5, fftshift=True, ensemble_axes_metadata=list(axes), metadata={"energy": 100e3})
    with warnings.catch_warnings():
        warnings.simplefilter("ignore")
        A = B = None
        try:
            A = val(mk(False).gaussian_source_size(sigma).integrate_radial(inner, outer), False)
        except Exception as ex:
            ev["raised"] = True
            ev["exc"] = f"{type(ex).__name__}: {ex}"[:300]
        try:
            B = val(mk(False).integrate_radial(inner, outer).gaussian_filter(sigma), False)
        except Exception as ex:
            ev["reference_raised"] = True
            ev["reference_exc"] = f"{type(ex).__name__}: {ex}"[:300]
        if A is None or B is None:
            return ev
        if A.shape != B.shape:
            ev["shape_ok"] = False
            return ev
        ev["commute_ppb"] = ppb(relerr(A, B))
        if c["lazy"]:
            try:
                L = val(mk(True).gaussian_source_size(sigma).integrate_radial(inner, outer), True)
                ev["lazy_ppb"] = ppb(relerr(L, A)) if L.shape == A.shape else 2 * 10 ** 9
            except Exception as ex:
                ev["raised"] = True
                ev["exc"] = f"lazy: {type(ex).__name__}: {ex}"[:300]
    return ev


def observe(c, seed):
    return {"dp": dp_event, "image": image_event, "source": source_event}[c["k"]](c, seed)


def tags_for(ev, clauses):
    c = ev["case"]
    tg = {"clauses": sorted(clauses), "k": c["k"]}
    if c["k"] == "dp":
        tg.update(target=c["target"], zero_member=c["zero_member"])
    elif c["k"] == "image":
        tg.update(target=c["target"])
    else:
        tg.update(layout=c["layout"], sigma=c["sigma"])
    return tg


def judge(ctx: Ctx, evs):
    res = ctx.validate("ResampleTrace", [[e] for e in evs], "ResampleTrace.cfg")
    for e, (ok, bad) in zip(evs, res):
        if not ok:
            tg = tags_for(e, bad[0][1])
            ctx.report(tg, {"event": e}, f"{json.dumps({k: v for k, v in e.items()})[:420]}")


def self_test(ctx: Ctx):
    dp = {"k": "dp", "raised": False, "finite": True, "total_ppb": [0, 120, 7], "lazy_ppb": 0}
    im = {"k": "image", "raised": False, "by": "sampling", "n": [6, 10], "d": [[1, 5], [1, 4]], "dnew": [[1, 5], [1, 4]], "target": [6, 10], "gpts": [6, 10],
          "unchanged_ppb": 200, "mean_ppb": [10, 3], "lazy_ppb": 0}
    im2 = dict(im, dnew=[[1, 10], [1, 6]], gpts=[12, 15], unchanged_ppb=0)
    so = {"k": "source", "raised": False, "reference_raised": False, "shape_ok": True, "commute_ppb": 90, "lazy_ppb": 0}
    bads = [dict(dp, finite=False), dict(dp, total_ppb=[0, 10 ** 9, 0]), dict(dp, raised=True), dict(im, by="gpts", gpts=[7, 10]), dict(im, unchanged_ppb=10 ** 7),
            dict(im2, by="gpts", target=[12, 15], gpts=[12, 16]), dict(im2, mean_ppb=[10 ** 6, 0]), dict(so, commute_ppb=10 ** 7), dict(so, raised=True), dict(so, lazy_ppb=10 ** 6)]
    im3 = dict(im, gpts=[7, 10], unchanged_ppb=0)      # own sampling, float ceil one point up: another grid, only the mean is promised
    res = ctx.validate("ResampleTrace", [[dp], [im], [im2], [im3], [so]] + [[b] for b in bads], "ResampleTrace.cfg")
    if not all(r[0] for r in res[:5]) or any(r[0] for r in res[5:]):
        raise Machinery(f"ResampleTrace self-test failed: {res}")
    ctx.notes["binding_selftest"] = {"good_accepted": 5, "rejected": [r[1] for r in res[5:]]}


def run(ctx: Ctx):
    quick = ctx.tier == "quick"
    ctx.rule = ("scenarios enumerated by TLC: DiffractionPatterns.interpolate (uniform / one / two samplings / gpts smaller, larger, same) "
                "x 4 grids x an all-zero member or not x lazy, plus large stacks (17 x 19 patterns of 32 x 32, 5 x 5 patterns of 128 x 96); Images.interpolate fft (same gpts, own sampling, gpts smaller / larger / "
                "mixed, finer / coarser sampling) x 4 grids x real / complex x lazy; gaussian_source_size vs gaussian_filter x ensemble "
                "layout (ss, oss, sos, sso) x sigma (small, anisotropic, wider than the scan) x 3 integration ranges x lazy; "
                "non-trivial = every scenario")
    ctx.design_check("MCResample", "MCResample.cfg", label="ResampleModel: same smoothing on both routes")
    r = ctx.design_check("Resample", "Resample.cfg", label="scenario space", workers=1)
    self_test(ctx)
    cases = [json.loads(tlc.tla_value_to_py(s)[1]) for s in r.printed("CASE")]
    ctx.notes["cases_from_tlc"] = len(cases)
    rng = random.Random(ctx.seed)
    cases.sort(key=lambda c: json.dumps(c, sort_keys=True))
    rng.shuffle(cases)
    if quick:
        # one case per stratum at every seed: dp (target, stack, lazy), image (target, complex, lazy), source (layout, sigma, lazy); then the seeded remainder
        def stratum(c):
            if c["k"] == "dp":
                return ("dp", c["target"], c.get("stack"), c["lazy"], c.get("negative_member"), c.get("faint_member"))
            if c["k"] == "image":
                return ("image", c["target"], c.get("complex"), c["lazy"])
            return ("source", c.get("layout"), c.get("sigma"), c["lazy"])
        seen, first, rest = set(), [], []
        for c in cases:
            k = stratum(c)
            (rest if k in seen else first).append(c)
            seen.add(k)
        cases = first + rest[:30]
        ctx.notes["strata"] = len(seen)
    else:
        ctx.exhaustive = True
    evs = []
    for j, c in enumerate(cases):
        evs.append(observe(c, ctx.seed * 1000 + j))
        evs[-1]["seed"] = ctx.seed * 1000 + j
        ctx.case(json.dumps(c, sort_keys=True))
    ctx.notes["events"] = {k: sum(1 for e in evs if e["k"] == k) for k in ("dp", "image", "source")}
    for e in evs[:1] + evs[-1:]:
        ctx.sample(e)
    judge(ctx, evs)


def replay(ctx: Ctx, case):
    e = case["event"]
    ev = observe(e["case"], e.get("seed", 0))
    ctx.case("replay")
    ctx.sample(ev)
    judge(ctx, [ev])
