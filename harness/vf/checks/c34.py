"""C34  Temporary configuration changes are always undone.

design  : TLC checks ConfigImpl (set.__init__/_assign/_record/__exit__, canonical_name folding, constructor rollback)
          against Config.tla: every Exit restores the configuration observed before the matching Enter
inputs  : nestings emitted by TLC from ConfigImpl (exhaustive small bound + -simulate deeper) replayed on the REAL global
          abtem.config (model keys are mapped to reserved key names), plus seeded random nestings over real abTEM keys,
          dict values, keyword (__) form and exceptions at every depth
verdict : ConfigTrace: after each Exit/ExitExc the flattened real configuration equals the one before the matching Enter
"""
from __future__ import annotations

import copy
import json
import random

from ..core import Ctx, Machinery
from .. import tlc

CFG = """SPECIFICATION Spec
CONSTANTS
  Depth = {depth}
  MaxSteps = {steps}
  MaxKV = {kv}
  Emit = {emit}
{props}
CHECK_DEADLOCK FALSE
"""
PROPS = "INVARIANT WellFormed\nPROPERTY Restored\nPROPERTY FailLeavesNoTrace\nVIEW DesignView\n"
KEYMAP = {"a": "vf-a", "b": "vf-b", "x_y": "vf-x_y", "x-y": "vf-x-y"}   # reserved names inside the real config


class Interner:
    def __init__(self):
        self.ids = {}

    def id(self, v):
        k = repr((type(v).__name__, v))
        if k not in self.ids:
            self.ids[k] = len(self.ids) + 1
        return self.ids[k]


def flatten(d, interner, prefix=()):
    out = []
    for k in sorted(d, key=str):
        v = d[k]
        p = prefix + (str(k),)
        if isinstance(v, dict):
            out.append([list(p), 0])          # 0 = "is a mapping" (distinguishes {} from absent)
            out.extend(flatten(v, interner, p))
        else:
            out.append([list(p), interner.id(v)])
    return out


class _Boom(Exception):
    pass


def run_nesting(events, init_extra=None, private=False):
    """events: list of ('enter', kwargs_or_mapping, use_kwargs) / ('exit', exc: bool).  Runs them on the real global
    config with properly nested `with` statements (recursion), records the configuration after every event.
    private: the contexts are created with config=<a dictionary of the caller's> (the rarely used keyword); the recorded configuration is
    then the pair (that dictionary, the global configuration) - leaving a context restores the first and never touches the second."""
    from abtem.core import config as C

    saved = copy.deepcopy(C.config)
    interner = Interner()
    trace = []
    priv = copy.deepcopy(init_extra) if (private and init_extra) else {}
    if private:
        real_flatten = flatten
        snap = lambda _cfg, it: real_flatten({"P": priv, "G": C.config}, it)
    else:
        snap = flatten
    try:
        for k in list(C.config):
            if str(k).startswith("vf"):
                del C.config[k]
        if init_extra:
            for k, v in init_extra.items():
                C.config[k] = copy.deepcopy(v)
        trace.append({"a": "Init", "cfg": snap(C.config, interner)})
        pos = 0

        def body():
            """consume events until the exit of the current context (or the end)"""
            nonlocal pos
            while pos < len(events):
                ev = events[pos]
                if ev[0] == "exit":
                    return ev[1]
                pos += 1
                mapping, use_kw = ev[1], ev[2]
                try:
                    if private:
                        ctxm = C.set(config=priv, **mapping) if use_kw else C.set(mapping, config=priv)
                    else:
                        ctxm = C.set(**mapping) if use_kw else C.set(mapping)
                except Exception:
                    trace.append({"a": "EnterFails", "cfg": snap(C.config, interner)})
                    continue
                exc = False
                try:
                    with ctxm:
                        trace.append({"a": "Enter", "cfg": snap(C.config, interner)})
                        exc = body()
                        pos += 1  # consume the exit event
                        if exc:
                            raise _Boom()
                except _Boom:
                    pass
                except Exception:
                    # __exit__ itself raised: the context was still left (through an exception)
                    exc = True
                    if pos < len(events) and events[pos][0] == "exit":
                        pos += 1
                trace.append({"a": "ExitExc" if exc else "Exit", "cfg": snap(C.config, interner)})
            return False

        body()
    finally:
        C.config.clear()
        C.config.update(saved)
    return trace


def events_from_tlc(hist):
    ev = []
    for h in hist:
        if h["a"] in ("Enter", "EnterFails"):
            mapping = {}
            for path, v in h["kvs"]:
                mapping[".".join(KEYMAP[path[0]] if i == 0 else path[i] for i in range(len(path)))] = v
            # a python dict cannot hold the same key twice: TLC's <<kv, kv'>> with equal paths collapses to the last
            ev.append(("enter", mapping, False))
        else:
            ev.append(("exit", h["a"] == "ExitExc"))
    # close contexts left open at the history bound
    depth = 0
    for e in ev:
        depth += 1 if e[0] == "enter" else -1
    return ev   # run_nesting closes open contexts itself (the with-statements unwind); see below


INIT_EXTRA = {"vf-a": {"b": 1}, "vf-x-y": 1, "vf-b": 2}


def close_all(events):
    """append normal exits for contexts still open (only counted for enters that will succeed is unknown statically, so
    the driver simply appends as many exits as enters; surplus exits are ignored by run_nesting's body())."""
    n = sum(1 for e in events if e[0] == "enter") - sum(1 for e in events if e[0] == "exit")
    return list(events) + [("exit", False)] * max(n, 0)


REAL_KEYS = ["precision", "fft", "device", "dask.lazy", "dask.chunk-size", "fftw.planning_effort", "fftw.threads",
             "antialias.cutoff", "warnings.overspecified-grid", "vf-new", "vf-new.sub", "vf-new.sub.leaf", "vf_new",
             "vf-a.b", "vf-a.c", "vf-a", "device.z", "precision.q.r", "dask", "fftw"]
REAL_VALS = [1, 2, "float64", "numpy", None, True, 0.5, {"b": 1}, {"sub": {"leaf": 3}}, [1, 2], (1, 2)]


def fuzz_events(rng: random.Random):
    ev = []
    depth = 0
    for _ in range(rng.randint(2, 9)):
        if depth > 0 and rng.random() < 0.4:
            ev.append(("exit", rng.random() < 0.35))
            depth -= 1
        else:
            n = rng.choice([1, 1, 2, 3])
            mapping = {}
            for _ in range(n):
                mapping[rng.choice(REAL_KEYS)] = copy.deepcopy(rng.choice(REAL_VALS))
            use_kw = rng.random() < 0.25 and all("-" not in k for k in mapping)
            if use_kw:
                mapping = {k.replace(".", "__"): v for k, v in mapping.items()}
            ev.append(("enter", mapping, use_kw))
            depth += 1
    return ev


def tags_for(trace, bad, events):
    line, clauses = bad[0]
    fails_before = any(t["a"] == "EnterFails" for t in trace[:line])
    return {"clauses": sorted(clauses), "event": trace[line - 1]["a"], "after_failed_constructor": fails_before}


def judge(ctx: Ctx, items):
    traces = [t for _, t in items]
    res = ctx.validate("ConfigTrace", traces, "ConfigTrace.cfg")
    for (ev, t), (ok, bad) in zip(items, res):
        if not ok:
            tg = tags_for(t, bad, ev)
            ctx.report(tg, {"events": ev, "bad": bad, "trace_events": [x["a"] for x in t]},
                       f"{tg['event']} at line {bad[0][0]}: {','.join(tg['clauses'])}; events={json.dumps(ev, default=str)[:300]}")


def self_test(ctx: Ctx):
    # synthetic trace (independent of the real code): two nested contexts entered and left
    c0 = [[["p"], 1], [["vf-a"], 0], [["vf-a", "b"], 2]]
    c1_ = [[["p"], 1], [["vf-a"], 0], [["vf-a", "b"], 3], [["vf-new"], 2]]
    c2_ = [[["p"], 4], [["vf-a"], 0], [["vf-a", "b"], 3], [["vf-new"], 2]]
    t = [{"a": "Init", "cfg": c0}, {"a": "Enter", "cfg": c1_}, {"a": "Enter", "cfg": c2_}, {"a": "Exit", "cfg": c1_},
         {"a": "ExitExc", "cfg": c0}]
    c1 = json.loads(json.dumps(t))
    c1[-1]["cfg"] = c1[-1]["cfg"][:-1]                    # corrupted: one key missing after the last Exit
    c2 = [x for i, x in enumerate(json.loads(json.dumps(t))) if i != 3]   # removed event: one Exit not observed
    res = ctx.validate("ConfigTrace", [t, c1, c2], "ConfigTrace.cfg")
    if not res[0][0] or res[1][0] or res[2][0]:
        raise Machinery(f"ConfigTrace self-test failed: {res}")
    ctx.notes["binding_selftest"] = {"good_accepted": True, "corrupt_field_rejected": res[1][1],
                                    "removed_event_rejected": res[2][1]}


THREADS_CFG = """SPECIFICATION Spec
CONSTANTS
  Threads = {{1, 2}}
  Keys = {{"a", "b"}}
  Vals = {{1, 2}}
  MaxDepth = 2
  MaxLen = {n}
  Emit = {emit}
  DisjointKeys = {disjoint}
INVARIANT {inv}
CHECK_DEADLOCK FALSE
"""
REAL_KEY = {"a": "dask.chunk-size", "b": "fftw.threads"}
REAL_VAL = {"a": {0: None, 1: "1 MB", 2: "2 MB"}, "b": {0: None, 1: 5, 2: 7}}


def threads_growth(ctx: Ctx, quick: bool):
    """Growth beyond C34: contexts of two threads interleaving on the one global configuration (ConfigThreads.tla).  TLC decides
    which guarantees survive; the emitted interleavings are replayed on the real abtem.config.set with two real threads driven
    step by step, and the configuration after each history is compared with the model's.  Drift only, never a violation."""
    import queue
    import threading
    import abtem
    ok1 = ctx.design_check("ConfigThreads", cfg_text=THREADS_CFG.format(n=6, emit="FALSE", disjoint="FALSE", inv="RestoredWhenGloballyNested"),
                           label="threads: restored when the interleaving is globally nested")
    r2 = ctx.design_check("ConfigThreads", cfg_text=THREADS_CFG.format(n=4, emit="FALSE", disjoint="FALSE", inv="RestoredAfterAll"),
                          label="threads: restored after any interleaving (expected counterexample)", expect_ok=False)
    ctx.design_check("ConfigThreads", cfg_text=THREADS_CFG.format(n=6, emit="FALSE", disjoint="TRUE", inv="DisjointKeysRestored"),
                     label="threads: disjoint keys restored")
    r = ctx.design_check("ConfigThreads", cfg_text=THREADS_CFG.format(n=4 if quick else 6, emit="TRUE", disjoint="FALSE", inv="EmitHistory"),
                         label="threads: interleavings emitted", workers=1)
    hists = [json.loads(tlc.tla_value_to_py(s)[1]) for s in r.printed("HIST")]
    base = {k: abtem.config.get(REAL_KEY[k]) for k in REAL_KEY}
    val = lambda k, v: base[k] if v == 0 else REAL_VAL[k][v]
    differ = 0
    for h in hists[: (150 if quick else 3000)]:
        qs = {t: queue.Queue() for t in (1, 2)}
        done = queue.Queue()

        def worker(t):
            stack = []
            while True:
                cmd = qs[t].get()
                if cmd is None:
                    return
                if cmd[0] == "Enter":
                    c = abtem.config.set({REAL_KEY[cmd[1]]: val(cmd[1], cmd[2])})
                    c.__enter__()
                    stack.append(c)
                else:
                    stack.pop().__exit__(None, None, None)
                done.put(t)
        ths = [threading.Thread(target=worker, args=(t,), daemon=True) for t in (1, 2)]
        for th in ths:
            th.start()
        try:
            for st in h["hist"]:
                qs[st["t"]].put((st["a"], st["k"], st["v"]))
                done.get(timeout=30)
            got = {k: abtem.config.get(REAL_KEY[k]) for k in REAL_KEY}
            want = {k: val(k, h["final"][k]) for k in REAL_KEY}
            if got != want:
                differ += 1
                if len(ctx.drift) < 10:
                    ctx.drift.append({"what": "growth (threads): configuration after an interleaving differs from ConfigThreads", "history": h["hist"], "got": got, "model": want})
        finally:
            for t in (1, 2):
                qs[t].put(None)
            for th in ths:
                th.join(timeout=10)
            for k in REAL_KEY:                      # whatever the interleaving left behind: put the process back
                abtem.config.config  # noqa: B018
            import dask.config as dc
            dc.set({"dummy": None}, config=abtem.config.config) if False else None
            _restore(base)
    ctx.notes["growth_threads"] = {"interleavings_replayed": min(len(hists), 150 if quick else 3000), "differing_from_model": differ,
                                   "globally_nested_restores": bool(ok1.ok), "any_interleaving_restores": bool(r2.ok),
                                   "tlc_counterexample_for_non_lifo_interleaving": bool(r2.invariant_violated)}


def _restore(base):
    import abtem
    for k, v in base.items():
        parts = REAL_KEY[k].split(".")
        d = abtem.config.config
        for p in parts[:-1]:
            d = d[p]
        d[parts[-1]] = v


def run(ctx: Ctx):
    quick = ctx.tier == "quick"
    ctx.rule = ("nestings of config.set contexts (1-2 keys per set over flat, nested, new, hyphen/underscore-aliased and "
                "nest-under-scalar keys; exits normal or by exception): all histories of the bounded ConfigImpl model "
                "emitted by TLC + simulated deeper ones + seeded random nestings over real abTEM keys; distinct = distinct "
                "event list; non-trivial = at least one context entered and left")
    ctx.assumptions += ["LIFO nestings only (threads interleaving set contexts are outside the stated quantifier)",
                        "values are compared by (type name, repr) interning"]
    ctx.design_check("ConfigImpl", cfg_text=CFG.format(depth=2, steps=4 if quick else 5, kv=2, emit="FALSE", props=PROPS),
                     label="ConfigImpl=>Config", coverage=False, timeout=3000)
    self_test(ctx)
    beh = {}
    r = tlc.run_tlc("ConfigImpl", cfg_text=CFG.format(depth=2, steps=2 if quick else 3, kv=1, emit="TRUE", props="CONSTRAINT AtBound\n"),
                    workers=1, timeout=1500)
    if r.error:
        raise Machinery("behaviour emission failed: " + r.error)
    for s in r.printed("BEH"):
        beh[tlc.tla_value_to_py(s)[1]] = None
    n_ex = len(beh)
    r = tlc.run_tlc("ConfigImpl", cfg_text=CFG.format(depth=3, steps=6, kv=2, emit="TRUE", props="CONSTRAINT AtBound\n"),
                    workers=1, timeout=1500,
                    extra=["-simulate", f"num={25 if quick else 1500}", "-depth", "8", "-seed", str(ctx.seed + 1)])
    if r.error:
        raise Machinery("behaviour simulation failed: " + r.error)
    sim = [tlc.tla_value_to_py(s)[1] for s in r.printed("BEH")]
    rng = random.Random(ctx.seed)
    rng.shuffle(sim)
    for s in sim[: (1200 if quick else 60000)]:
        beh[s] = None
    ctx.notes["behaviours_exhaustive"] = n_ex
    ctx.notes["behaviours_simulated"] = len(beh) - n_ex
    items = []
    for js in beh:
        ev = close_all(events_from_tlc(json.loads(js)))
        t = run_nesting(ev, INIT_EXTRA)
        ctx.case(js, nontrivial=any(x["a"] in ("Exit", "ExitExc") for x in t))
        items.append((ev, t))
    for _ in range(1000 if quick else 40000):
        ev = close_all(fuzz_events(rng))
        private = rng.random() < 0.25
        t = run_nesting(ev, INIT_EXTRA if rng.random() < 0.5 else None, private=private)
        ctx.case(json.dumps([ev, private], default=str), nontrivial=any(x["a"] in ("Exit", "ExitExc") for x in t))
        items.append((ev, t))
    for ev, t in items[:1] + items[-2:]:
        ctx.sample({"events": ev, "observed": [x["a"] for x in t]})
    judge(ctx, items)
    threads_growth(ctx, quick)


def replay(ctx: Ctx, case):
    ev = [tuple(e) for e in case["events"]]
    t = run_nesting(ev, INIT_EXTRA)
    t2 = run_nesting(ev, None)
    t3 = run_nesting(ev, INIT_EXTRA, private=True)
    t4 = run_nesting(ev, None, private=True)
    ctx.case("replay")
    ctx.sample({"events": ev, "observed": [x["a"] for x in t]})
    judge(ctx, [(ev, t), (ev, t2), (ev, t3), (ev, t4)])
