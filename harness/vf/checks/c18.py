"""C18  Chunk computations partition arrays exactly.

design  : TLC explores ChunksImpl (validate_chunks / _auto_chunks growth loop / equal_sized_chunks transcribed) for every
          shape, dimension specification and limit within bounds and checks the Chunks.tla predicates
inputs  : every call TLC enumerated (with the model's predicted result, for drift) + seeded random larger calls
verdict : ChunksTrace (property-level predicates) on the values returned by the real functions
"""
from __future__ import annotations

import json

import numpy as np
import random

from ..core import Ctx, Machinery
from .. import tlc

CFG = """SPECIFICATION Spec
CONSTANTS
  MaxDim = {maxdim}
  Ranks = {ranks}
  Limits = {limits}
  MaxItems = {items}
  Emit = {emit}
INVARIANT ValidateOK
INVARIANT EqualOK
INVARIANT EqualSizeOK
{extra}
CHECK_DEADLOCK FALSE
"""


def spec_to_py(spec):
    out = []
    for c in spec:
        if c == [0]:
            out.append("auto")
        elif len(c) == 1:
            out.append(c[0])
        else:
            out.append(tuple(c))
    return tuple(out)


def call_validate(shape, spec, limit, int_form=False, limit_form="int"):
    """limit_form: the same element limit as an int, as a byte string for the dtype ("64 B" for 8 complex64 elements), or as "auto"
    under the configuration dask.chunk-size = that many bytes (set AFTER import, inside a context: the limit in force at call time)"""
    from abtem.core import chunks as C
    import abtem
    rec = {"f": "validate", "shape": list(shape), "spec": [list(c) for c in spec], "limit": limit,
           "raised": False, "res": [], "ranges": [], "iter": True, "int_form": int_form, "limit_form": limit_form}
    # a byte budget need not be a multiple of the item size: 8 * limit + r bytes (r < 8) still hold exactly `limit` complex64 elements
    nbytes = 8 * int(limit) + (int(limit) + 3 * sum(int(x) for x in shape)) % 8
    rec["bytes"] = nbytes
    try:
        if int_form:
            res = C.validate_chunks(tuple(shape), int(limit))
        elif limit_form == "bytes":
            res = C.validate_chunks(tuple(shape), spec_to_py(spec), max_elements=f"{nbytes} B", dtype=np.complex64)
        elif limit_form == "auto_config":
            with abtem.config.set({"dask.chunk-size": f"{nbytes} B"}):
                res = C.validate_chunks(tuple(shape), spec_to_py(spec), max_elements="auto", dtype=np.complex64)
        else:
            res = C.validate_chunks(tuple(shape), spec_to_py(spec), max_elements=int(limit))
        rec["res"] = [[int(x) for x in c] for c in res]
        rec["ranges"] = [[[int(a), int(b)] for a, b in r] for r in C.chunk_ranges(res)]
        # iterate_chunk_ranges must visit the cartesian product of the ranges, in order, as slices
        exp = []
        import itertools
        for idx in itertools.product(*[range(len(c)) for c in res]):
            exp.append((idx, tuple(slice(*rec["ranges"][d][i]) for d, i in enumerate(idx))))
        got = [(tuple(i), tuple(s)) for i, s in C.iterate_chunk_ranges(res)]
        rec["iter"] = got == exp
    except Exception as ex:
        rec["raised"] = True
        rec["exc"] = type(ex).__name__
    return rec


def call_equal(n, m, by_size=False):
    from abtem.core import chunks as C
    rec = {"f": "equal_size" if by_size else "equal", "n": n, "m": m, "raised": False, "res": [], "ranges": []}
    try:
        from ..forms import reform
        # the same numbers as NumPy integer scalars (what arithmetic on shapes produces); 0-d arrays are not integers and are not offered
        nn, mm = reform(n, (n + m) % 2), reform(m, (n + 2 * m + 1) % 2)
        res = C.equal_sized_chunks(nn, chunk_size=mm) if by_size else C.equal_sized_chunks(nn, num_chunks=mm)
        rec["res"] = [int(x) for x in res]
        if not by_size:
            rec["ranges"] = [[int(a), int(b)] for a, b in C.generate_chunks(n, num_chunks=m)]
    except Exception as ex:
        rec["raised"] = True
        rec["exc"] = type(ex).__name__
    return rec


def tags_for(ev, clauses):
    return {"clauses": sorted(clauses), "f": ev["f"], "rank": len(ev.get("shape", [])),
            "has_auto": any(c == [0] for c in ev.get("spec", [])), "int_form": ev.get("int_form", False)}


def judge(ctx: Ctx, calls, group=1):
    traces = [calls[i:i + group] for i in range(0, len(calls), group)]
    res = ctx.validate("ChunksTrace", traces, "ChunksTrace.cfg")
    for t, (ok, bad) in zip(traces, res):
        for line, clauses in bad:
            ev = t[line - 1]
            ctx.report(tags_for(ev, clauses), {"call": ev}, f"{ev['f']} breaks {','.join(sorted(clauses))}: {json.dumps(ev)[:200]}")


def self_test(ctx: Ctx):
    # synthetic records (independent of the real code)
    good = {"f": "validate", "shape": [5, 4], "spec": [[0], [-1]], "limit": 8, "raised": False, "res": [[2, 2, 1], [4]],
            "ranges": [[[0, 2], [2, 4], [4, 5]], [[0, 4]]], "iter": True, "int_form": False}
    c1 = json.loads(json.dumps(good)); c1["res"][0][0] += 1          # corrupted result: no longer sums to shape
    c2 = json.loads(json.dumps(good)); c2["ranges"][0][0][1] += 1    # corrupted range
    c3 = {"f": "equal", "n": 7, "m": 3, "raised": False, "res": [5, 1, 1], "ranges": [[0, 5], [5, 6], [6, 7]]}
    res = ctx.validate("ChunksTrace", [[good], [c1], [c2], [c3]], "ChunksTrace.cfg")
    if not res[0][0] or res[1][0] or res[2][0] or res[3][0]:
        raise Machinery(f"ChunksTrace self-test failed: {res}")
    ctx.notes["binding_selftest"] = {"good_accepted": True, "corrupt_sum_rejected": res[1][1],
                                    "corrupt_range_rejected": res[2][1], "unequal_chunks_rejected": res[3][1]}


def run(ctx: Ctx):
    quick = ctx.tier == "quick"
    ctx.rule = ("calls = (shape, per-dimension spec in {auto,-1,int,explicit tuple}, element limit) and equal_sized_chunks"
                "(n, m | chunk_size); all calls within the TLC bounds are enumerated by TLC from ChunksImpl and executed on "
                "the real functions, plus seeded random larger calls; distinct = distinct argument tuple; non-trivial = the "
                "call returns (does not raise)")
    ctx.assumptions += ["zero-length dimensions and non-positive integer chunk sizes other than -1 are outside the enumerated inputs"]
    params = dict(maxdim=4 if quick else 5, ranks="{1, 2}" if quick else "{1, 2, 3}",
                  limits="{1, 2, 3, 5, 8, 12, 40}" if quick else "{1, 2, 3, 4, 5, 7, 8, 12, 27, 40, 130}",
                  items=12 if quick else 24)
    if not quick:
        params["maxdim"] = 4
    r = ctx.design_check("MCChunks", cfg_text=CFG.format(emit="TRUE", extra="INVARIANT EmitCalls", **params),
                         label="ChunksImpl=>Chunks", workers=1, timeout=3000)
    self_test(ctx)
    calls, drift = [], 0
    for s in r.printed("CALL"):
        m = json.loads(tlc.tla_value_to_py(s)[1])
        c = m["call"]
        if c["f"] == "validate":
            ev = call_validate(c["shape"], c["spec"], c["limit"])
            calls.append(ev)
            ctx.case(("v", json.dumps(c)), nontrivial=not ev["raised"])
            if ev["raised"] != m["raised"] or (not ev["raised"] and ev["res"] != m["res"]):
                drift += 1
                if len(ctx.drift) < 10:
                    ctx.drift.append({"call": c, "model": [m["raised"], m["res"]], "code": [ev["raised"], ev["res"]]})
            if all(x == [0] for x in c["spec"]):
                ev2 = call_validate(c["shape"], c["spec"], c["limit"], int_form=True)
                calls.append(ev2)
                ctx.case(("vi", json.dumps(c)), nontrivial=not ev2["raised"])
        else:
            ev = call_equal(c["shape"][0], c["limit"], by_size=c["f"] == "equal_size")
            calls.append(ev)
            ctx.case((c["f"], c["shape"][0], c["limit"]), nontrivial=not ev["raised"])
            if ev["raised"] != m["raised"] or (not ev["raised"] and ev["res"] != m["res"]):
                drift += 1
                if len(ctx.drift) < 10:
                    ctx.drift.append({"call": c, "model": [m["raised"], m["res"]], "code": [ev["raised"], ev["res"]]})
    ctx.notes["calls_from_tlc"] = len(calls)
    ctx.notes["model_drift_count"] = drift
    ctx.exhaustive = True
    # seeded random larger calls
    rng = random.Random(ctx.seed)
    for _ in range(3000 if quick else 60000):
        d = rng.choice([1, 2, 3, 4])
        shape = [rng.randint(1, 14) for _ in range(d)]
        spec = []
        for n in shape:
            k = rng.random()
            if k < 0.45:
                spec.append([0])
            elif k < 0.6:
                spec.append([-1])
            elif k < 0.85:
                spec.append([rng.randint(1, n + 2)])
            else:
                cuts = sorted(rng.sample(range(1, n), min(n - 1, rng.randint(1, 3)))) if n > 1 else []
                parts = [b - a for a, b in zip([0] + cuts, cuts + [n])]
                spec.append(parts if len(parts) > 1 else [-1])
        lim = rng.choice([1, 2, 3, 5, 8, 16, 30, 64, 200, 1000])
        form = rng.choice(["int", "int", "int", "bytes", "auto_config"])
        ev = call_validate(shape, spec, lim, limit_form=form)
        calls.append(ev)
        ctx.case(("r", json.dumps([shape, spec, lim, form])), nontrivial=not ev["raised"])
        n, m = rng.randint(0, 300), rng.randint(1, 40)
        ev = call_equal(n, m, by_size=rng.random() < 0.4)
        calls.append(ev)
        ctx.case(("re", n, m, ev["f"]), nontrivial=not ev["raised"])
    for ev in calls[:2] + calls[-2:]:
        ctx.sample(ev)
    judge(ctx, calls)


def replay(ctx: Ctx, case):
    ev = case["call"]
    if ev["f"] == "validate":
        new = call_validate(ev["shape"], ev["spec"], ev["limit"], ev.get("int_form", False), ev.get("limit_form", "int"))
    else:
        new = call_equal(ev["n"], ev["m"], by_size=ev["f"] == "equal_size")
    ctx.case("replay")
    ctx.sample(new)
    judge(ctx, [new])
