"""C30  Saved results load back unchanged.

design  : TLC enumerates StoreModel: every metadata value tree up to the depth bound is pushed through the transcription of
          encode_types -> JSON -> decode_types and must come back with the same value (Store!SameValue); the trees are emitted
inputs  : the emitted trees as metadata of real array objects of every type x ensemble-axis kind x dtype x {directory, zip}
          x {lazy, eager}, written with to_zarr and read back with from_zarr in a scratch directory
verdict : StoreTrace: same type, dtype, shape/array values, axes metadata trees and metadata tree (by value)
"""
from __future__ import annotations

import dataclasses
import json
import os
import random
import shutil
import tempfile

import numpy as np

from ..core import Ctx, Machinery
from .. import tlc

CFG = """SPECIFICATION Spec
CONSTANTS
  Depth = {d}
  MaxWidth = {w}
  Emit = {emit}
INVARIANT CodecOK
{extra}
CHECK_DEADLOCK FALSE
"""


class Intern:
    def __init__(self):
        self.d = {}

    def __call__(self, k):
        if k not in self.d:
            self.d[k] = len(self.d) + 1
        return self.d[k]


def to_tree(v, it):
    if isinstance(v, (bool, np.bool_)):
        return ["bool", bool(v)]
    if isinstance(v, (np.integer, np.floating)):
        return ["npnum", it(("n", repr(float(v))))]
    if isinstance(v, (int, float)):
        return ["num", it(("n", repr(float(v))))]
    if isinstance(v, str):
        return ["str", it(("s", v))]
    if v is None:
        return ["none"]
    if isinstance(v, tuple):
        return ["tuple", [to_tree(x, it) for x in v]]
    if isinstance(v, list):
        return ["list", [to_tree(x, it) for x in v]]
    if isinstance(v, np.ndarray):
        return ["ndarray", [to_tree(x, it) for x in v.tolist()]] if v.ndim else ["npnum", it(("n", repr(float(v))))]
    if isinstance(v, dict):
        return ["dict", [[str(k), to_tree(v[k], it)] for k in sorted(v, key=str)]]
    return ["str", it(("repr", repr(v)))]


PY_LEAF = {("num", 1): 1, ("num", 2): 2.5, ("npnum", 3): np.float32(21.4), ("npnum", 1): np.int64(1), ("npnum", 2): np.float64(2.5),
           ("str", 1): "abc"}


def from_model(t):
    tag = t[0]
    if tag in ("num", "npnum", "str"):
        return PY_LEAF[(tag, t[1])]
    if tag == "bool":
        return bool(t[1])
    if tag == "none":
        return None
    if tag == "tuple":
        return tuple(from_model(x) for x in t[1])
    if tag == "list":
        return [from_model(x) for x in t[1]]
    if tag == "ndarray":
        return np.array([float(from_model(x)) for x in t[1]])
    if tag == "dict":
        return {k: from_model(x) for k, x in t[1]}
    raise Machinery("bad tree")


def axis_tree(ax, it):
    d = {f.name: getattr(ax, f.name) for f in dataclasses.fields(ax)}
    d["cls"] = type(ax).__name__
    return to_tree(d, it)


def project(obj, it):
    md = dict(obj.metadata)
    return {"type": type(obj).__name__, "dtype": str(np.dtype(obj.array.dtype)), "shape": [int(s) for s in obj.shape],
            "axes": [axis_tree(a, it) for a in obj.axes_metadata], "metadata": to_tree(md, it)}


AXIS_KINDS = ["thickness_f32", "parameter_units_none", "scan_units_none", "scan", "tilt", "positions", "frozen_phonons_mean",
              "axis_aligned_tilt", "ordinal_int_values"]


def make_axis(kind, n):
    from abtem.core import axes as A
    if kind == "thickness_f32":
        return A.ThicknessAxis(values=tuple(np.linspace(0.1, 2.3, n, dtype=np.float32)))
    if kind == "parameter_units_none":
        return A.ParameterAxis(label="C10", values=tuple(-1.5 * i for i in range(n)), units=None, _ensemble_mean=True)
    if kind == "scan_units_none":
        return A.ScanAxis(label="x", sampling=0.25, offset=1.0, units=None)
    if kind == "scan":
        return A.ScanAxis(label="y", sampling=0.3, offset=0.0, units="Å", endpoint=False)
    if kind == "tilt":
        return A.TiltAxis(label="tilt", values=tuple((1.0 * i, -2.0 * i) for i in range(n)))
    if kind == "positions":
        return A.PositionsAxis(values=tuple((0.5 * i, 0.25 * i) for i in range(n)))
    if kind == "frozen_phonons_mean":
        return A.FrozenPhononsAxis(_ensemble_mean=True)
    if kind == "axis_aligned_tilt":
        return A.AxisAlignedTiltAxis(label="tilt_y", values=tuple(0.5 * i for i in range(n)), direction="y", tex_label="$t_y$")
    if kind == "ordinal_int_values":
        return A.OrdinalAxis(label="k", values=tuple(range(n)), units=None)
    raise Machinery(kind)


OBJ_TYPES = ["Waves", "Images", "DiffractionPatterns", "PolarMeasurements", "RealSpaceLineProfiles", "PotentialArray"]


def make_object(typ, axis_kinds, dtype, lazy, metadata, rng):
    import abtem
    ens_shape = tuple(rng.choice([1, 2, 3]) for _ in axis_kinds)
    axes = [make_axis(k, n) for k, n in zip(axis_kinds, ens_shape)]
    base = {"Waves": (4, 5), "Images": (4, 5), "DiffractionPatterns": (5, 4), "PolarMeasurements": (3, 4),
            "RealSpaceLineProfiles": (6,), "PotentialArray": (3, 4, 5)}[typ]
    shape = ens_shape + base
    a = rng_array(shape, dtype, rng)
    if lazy:
        import dask.array as da
        a = da.from_array(a, chunks=tuple(1 for _ in ens_shape) + base)
    md = dict(metadata)
    if typ == "Waves":
        return abtem.Waves(a, energy=80e3, sampling=(0.1, 0.2), ensemble_axes_metadata=axes, metadata=md)
    if typ == "Images":
        return abtem.Images(a, sampling=(0.1, 0.2), ensemble_axes_metadata=axes, metadata=md)
    if typ == "DiffractionPatterns":
        return abtem.measurements.DiffractionPatterns(a, sampling=(0.05, 0.04), fftshift=True, ensemble_axes_metadata=axes, metadata=md)
    if typ == "PolarMeasurements":
        return abtem.measurements.PolarMeasurements(a, radial_sampling=1.5, azimuthal_sampling=np.pi / 2, radial_offset=2.0,
                                                    azimuthal_offset=0.1, ensemble_axes_metadata=axes, metadata=md)
    if typ == "RealSpaceLineProfiles":
        return abtem.measurements.RealSpaceLineProfiles(a, sampling=0.2, ensemble_axes_metadata=axes, metadata=md)
    if typ == "PotentialArray":
        return abtem.PotentialArray(a, slice_thickness=[0.5, 0.5, 1.0], sampling=(0.1, 0.1), ensemble_axes_metadata=axes, metadata=md)
    raise Machinery(typ)


def rng_array(shape, dtype, rng):
    n = int(np.prod(shape))
    base = np.arange(n, dtype=np.float64).reshape(shape) * 0.37 - 1.0
    if np.dtype(dtype).kind == "c":
        return (base + 1j * (base[::-1] if base.ndim == 1 else base * 0.5)).astype(dtype)
    return base.astype(dtype)


def nest(t, inner, k):
    """a value tree of depth 2: the k-th child of the container tree t replaced by the container tree inner"""
    if t[0] not in ("tuple", "list", "dict") or not t[1]:
        return t
    i = k % len(t[1])
    kids = list(t[1])
    kids[i] = [kids[i][0], inner] if t[0] == "dict" else inner
    return [t[0], kids]


def round_trip(typ, axis_kinds, dtype, lazy, zipped, metadata, rng, scratch, resave=False):
    import abtem
    it = Intern()
    ev = {"typ": typ, "axis_kinds": list(axis_kinds), "dtype_in": str(np.dtype(dtype)), "lazy": lazy, "zip": zipped, "raised": False,
          "array_equal": False, "resaved_equal": True, "before": {"type": "", "dtype": "", "shape": [], "axes": [], "metadata": ["none"]},
          "after": {"type": "", "dtype": "", "shape": [], "axes": [], "metadata": ["none"]}}
    path = os.path.join(scratch, f"o{rng.randrange(10**9)}" + (".zip" if zipped else ".zarr"))
    try:
        obj = make_object(typ, axis_kinds, dtype, lazy, metadata, rng)
        ev["before"] = project(obj, it)
        obj.to_zarr(path, overwrite=True)
        back = abtem.from_zarr(path)
        ev["after"] = project(back, it)
        if project(obj, it) != ev["before"]:
            ev["after"] = dict(ev["after"], type=ev["after"]["type"] + " (the saved object itself was changed by saving)")
        a0 = np.asarray(obj.compute().array) if lazy else np.asarray(obj.array)
        a1 = np.asarray(back.compute().array)
        ev["array_equal"] = bool(a0.shape == a1.shape and np.array_equal(a0, a1))
        # stores have histories: what was loaded (lazily - it still reads from the store) is written back to the SAME place with
        # overwrite=True and loaded again: same object, same values
        if resave:
            loaded = abtem.from_zarr(path)          # not computed: its graph reads from the store it is about to replace
            loaded.to_zarr(path, overwrite=True)
            again = abtem.from_zarr(path)
            a2 = np.asarray(again.compute().array)
            ev["resaved_equal"] = bool(project(again, it) == ev["after"] and a2.shape == a0.shape and np.array_equal(a0, a2))
    except Exception as ex:
        ev["raised"] = True
        ev["exc"] = f"{type(ex).__name__}: {ex}"[:300]
    finally:
        if os.path.isdir(path):
            shutil.rmtree(path, ignore_errors=True)
        elif os.path.exists(path):
            os.remove(path)
    return ev


def list_round_trip(typs, axis_kinds, dtype, lazy, zipped, metadata, rng, scratch, after_longer=False):
    """Several results written together (ComputableList.to_zarr, what a multi-detector simulation saves) and read back: every item
    must come back as itself.  One event per item."""
    import abtem
    from abtem.array import ComputableList
    it = Intern()
    path = os.path.join(scratch, f"l{rng.randrange(10**9)}" + (".zip" if zipped else ".zarr"))
    evs = [{"typ": t, "axis_kinds": list(axis_kinds), "dtype_in": str(np.dtype(dtype)), "lazy": lazy, "zip": zipped, "raised": False, "array_equal": False, "resaved_equal": True,
            "list_index": i, "before": {"type": "", "dtype": "", "shape": [], "axes": [], "metadata": ["none"]},
            "after": {"type": "", "dtype": "", "shape": [], "axes": [], "metadata": ["none"]}} for i, t in enumerate(typs)]
    try:
        objs = [make_object(t, axis_kinds, dtype, lazy, dict(metadata, item=i), rng) for i, t in enumerate(typs)]
        for ev, o in zip(evs, objs):
            ev["before"] = project(o, it)
        if after_longer:
            # the store has a history: a LONGER list was saved to the same place before, and this one is saved with the default flags
            ComputableList([make_object(typs[0], (), np.float32, False, {"item": 100 + j}, rng) for j in range(len(typs) + 2)]).to_zarr(path, overwrite=True)
            ComputableList(objs).to_zarr(path)
        else:
            ComputableList(objs).to_zarr(path, overwrite=True)
        back = abtem.from_zarr(path)
        back = back if isinstance(back, list) else [back]
        if len(back) != len(objs):
            raise RuntimeError(f"{len(back)} items came back for {len(objs)} saved")
        for i, ev in enumerate(evs):
            if i >= len(back):
                ev["raised"] = True
                ev["exc"] = f"{len(back)} of {len(objs)} items came back"
                continue
            ev["after"] = project(back[i], it)
            a0 = np.asarray(objs[i].compute().array) if lazy else np.asarray(objs[i].array)
            a1 = np.asarray(back[i].compute().array)
            ev["array_equal"] = bool(a0.shape == a1.shape and np.array_equal(a0, a1))
    except Exception as ex:
        for ev in evs:
            ev["raised"] = True
            ev["exc"] = f"{type(ex).__name__}: {ex}"[:300]
    finally:
        if os.path.isdir(path):
            shutil.rmtree(path, ignore_errors=True)
        elif os.path.exists(path):
            os.remove(path)
    return evs


def tags_for(ev, clauses):
    return {"clauses": sorted(clauses), "typ": ev["typ"], "zip": ev["zip"], "lazy": ev["lazy"], "dtype": ev["dtype_in"]}


def judge(ctx: Ctx, evs):
    res = ctx.validate("StoreTrace", [[e] for e in evs], "StoreTrace.cfg")
    for e, (ok, bad) in zip(evs, res):
        if not ok:
            tg = tags_for(e, bad[0][1])
            ctx.report(tg, {"event": {k: e[k] for k in ("typ", "axis_kinds", "dtype_in", "lazy", "zip", "exc") if k in e},
                            "metadata_in": e.get("metadata_repr"), "before": e["before"], "after": e["after"]},
                       f"{e['typ']} axes={e['axis_kinds']} dtype={e['dtype_in']} zip={e['zip']} lazy={e['lazy']}: "
                       f"{','.join(tg['clauses'])} {e.get('exc', '')} md={e.get('metadata_repr', '')[:120]}")


def self_test(ctx: Ctx):
    tree = ["dict", [["a", ["tuple", [["num", 1], ["npnum", 2]]]], ["b", ["list", [["str", 1]]]]]]
    tree2 = ["dict", [["a", ["tuple", [["npnum", 1], ["num", 2]]]], ["b", ["list", [["str", 1]]]]]]
    tree3 = ["dict", [["a", ["list", [["num", 1], ["num", 2]]]], ["b", ["list", [["str", 1]]]]]]
    side = {"type": "Images", "dtype": "float32", "shape": [2, 3], "axes": [["dict", [["label", ["str", 1]]]]], "metadata": tree}
    good = {"raised": False, "array_equal": True, "resaved_equal": True, "before": side, "after": dict(side, metadata=tree2)}
    c1 = dict(good, after=dict(side, metadata=tree3))          # tuple came back as list
    c2 = dict(good, after=dict(side, dtype="float64"))
    c3 = dict(good, array_equal=False)
    res = ctx.validate("StoreTrace", [[good], [c1], [c2], [c3]], "StoreTrace.cfg")
    if not res[0][0] or res[1][0] or res[2][0] or res[3][0]:
        raise Machinery(f"StoreTrace self-test failed: {res}")
    ctx.notes["binding_selftest"] = {"good_accepted": True, "tuple_to_list_rejected": res[1][1], "dtype_change_rejected": res[2][1],
                                    "array_change_rejected": res[3][1]}


def run(ctx: Ctx):
    quick = ctx.tier == "quick"
    ctx.rule = ("round trips of (object type x 0-2 ensemble axes from 9 axis kinds x dtype x lazy/eager x directory/zip x "
                "metadata tree), single objects and lists of 2-3 measurements saved together; metadata trees are all value trees of depth <= 1 (TLC, exhaustive) plus depth-2 trees; "
                "distinct = distinct configuration; non-trivial = metadata tree with a container or >= 1 ensemble axis")
    ctx.design_check("StoreModel", cfg_text=CFG.format(d=2, w=1 if quick else 2, emit="FALSE", extra=""), label="codec depth 2",
                     timeout=3000)
    r = ctx.design_check("StoreModel", cfg_text=CFG.format(d=1, w=2, emit="TRUE", extra="INVARIANT EmitTree"), label="codec depth 1 + emit",
                         workers=1, timeout=3000)
    self_test(ctx)
    trees = [json.loads(tlc.tla_value_to_py(s)[1]) for s in r.printed("TREE")]
    ctx.notes["trees_from_tlc"] = len(trees)
    rng = random.Random(ctx.seed)
    rng.shuffle(trees)
    scratch = tempfile.mkdtemp(prefix="vf.c30.")
    evs = []
    try:
        n = 160 if quick else 3000
        for j in range(n):
            t = trees[j % len(trees)]
            if j % 3 == 1:
                # depth 2 (the codec is checked by TLC to depth 2): a container inside a container, after leading scalars too
                t = nest(t, trees[(7 * j + 3) % len(trees)], j // 3)
            typ = OBJ_TYPES[j % len(OBJ_TYPES)]
            naxes = rng.choice([0, 1, 1, 2])
            kinds = tuple(rng.choice(AXIS_KINDS) for _ in range(naxes))
            if typ == "Waves":
                dtype = rng.choice([np.complex64, np.complex128])
            elif typ == "PotentialArray":
                dtype = rng.choice([np.float32, np.float64])
            else:
                dtype = rng.choice([np.float32, np.float64, np.float32, np.int32 if typ == "Images" else np.float64])
            md = {"vf": from_model(t), "label": "intensity", "units": "arb. unit", "f32": np.float32(0.1), "n": 3}
            ev = round_trip(typ, kinds, dtype, lazy=(j % 2 == 0), zipped=(j % 3 == 0), metadata=md, rng=rng, scratch=scratch, resave=(j % 4 == 0))
            ev["metadata_repr"] = repr(md["vf"])[:300]
            evs.append(ev)
            ctx.case((typ, kinds, str(np.dtype(dtype)), j % 2, j % 3 == 0, json.dumps(t)), nontrivial=naxes > 0 or t[0] in ("tuple", "list", "dict"))
            if j % 8 == 1:
                # the same configuration as a list of two or three measurements saved together
                ms = [x for x in OBJ_TYPES if x not in ("Waves", "PotentialArray")]
                typs = [ms[(j + i) % len(ms)] for i in range(2 + (j // 8) % 2)]
                for e2 in list_round_trip(typs, kinds, np.float32, lazy=(j % 16 == 1), zipped=(j % 3 == 0), metadata=md, rng=rng, scratch=scratch):
                    e2["metadata_repr"] = repr(md["vf"])[:300]
                    evs.append(e2)
                ctx.case(("list", tuple(typs), kinds, j % 16 == 1, j % 3 == 0))
            if j % 40 == 9:
                # a long list (more than ten items: the store's item keys do not sort like numbers) and a list saved over a longer one
                ms = [x for x in OBJ_TYPES if x not in ("Waves", "PotentialArray")]
                for typs, kw in (([ms[(j + i) % len(ms)] for i in range(12)], {}), ([ms[(j + i) % len(ms)] for i in range(2)], {"after_longer": True})):
                    for e2 in list_round_trip(typs, (), np.float32, lazy=False, zipped=bool(kw) and (j % 80 == 9), metadata=md, rng=rng, scratch=scratch, **kw):
                        e2["metadata_repr"] = repr(md["vf"])[:300]
                        evs.append(e2)
                    ctx.case(("long list" if not kw else "list over a longer one", tuple(typs), j))
    finally:
        shutil.rmtree(scratch, ignore_errors=True)
    for e in evs[:2]:
        ctx.sample({k: e[k] for k in ("typ", "axis_kinds", "dtype_in", "lazy", "zip", "metadata_repr", "raised", "array_equal")})
    judge(ctx, evs)


def replay(ctx: Ctx, case):
    raise Machinery("C30 replays are re-run by the full check (objects are rebuilt from seeds): run bin/check C30")
