"""C15  Fourier interpolation and shifting obey their algebra.

design  : TLC enumerates FourierImpl (the 1-D interpolation masks and the k-th-to-k-th copy of fft_crop transcribed) for every
          (n1, n2) <= MaxN and checks the crop map is the frequency-preserving map on the common band, DC kept,
          Down(Up) = identity, and the roll algebra
inputs  : every enumerated shape pair (combined into 2-D shapes, with and without batch dimensions) and shift case on the
          real fft_crop / fft_interpolate / fft_shift / Waves.downsample
verdict : FourierTrace: exact decoded index maps of fft_crop; logged deviations for round trip, mean, intensity, roll,
          composition of shifts and band-limited content, bounded per precision
"""
from __future__ import annotations

import json
import random

import numpy as np

from ..core import Ctx, Machinery
from ..rat import ppb
from .. import tlc

CFG = """SPECIFICATION Spec
CONSTANTS
  MaxN = {n}
  Emit = TRUE
INVARIANT MasksSameSize
INVARIANT CropOK
INVARIANT UpDownIdentity
INVARIANT RollAdditive
INVARIANT RollPeriodic
INVARIANT EmitCase
CHECK_DEADLOCK FALSE
"""


def relmax(a, b):
    d = float(np.abs(np.asarray(a) - np.asarray(b)).max()) if np.size(a) else 0.0
    return d / max(float(np.abs(b).max()) if np.size(b) else 1.0, 1e-30)


def crop_event(n1, n2, batch):
    from abtem.core.fft import fft_crop
    ev = {"k": "crop", "n1": list(n1), "n2": list(n2), "batch": batch, "raised": False, "maps": [[], []], "product_ok": True}
    try:
        arr = (np.arange(1, n1[0] + 1)[:, None] * 100 + np.arange(1, n1[1] + 1)[None, :]).astype(np.complex64)
        if batch:
            arr = np.stack([arr, arr])
        out = np.asarray(fft_crop(arr, tuple(n2)))
        if batch:
            ev["product_ok"] = bool(np.array_equal(out[0], out[1]))
            out = out[0]
        v = np.rint(out.real).astype(int)
        I, J = v // 100, v % 100
        mx = [int(I[a].max()) for a in range(n2[0])]
        my = [int(J[:, b].max()) for b in range(n2[1])]
        exp = np.array(mx)[:, None] * 100 + np.array(my)[None, :]
        exp[(np.array(mx)[:, None] == 0) | (np.array(my)[None, :] == 0)] = 0
        ev["product_ok"] = ev["product_ok"] and bool(np.array_equal(exp, v)) and out.shape == tuple(n2)
        ev["maps"] = [mx, my]
    except Exception as ex:
        ev["raised"] = True
        ev["exc"] = f"{type(ex).__name__}: {ex}"[:200]
    return ev


def interp_event(n1, n2, kind, double, rng, data_double=None):
    """n2 >= n1 per axis: x -> up (n2) -> down (n1).  double: the configured precision; data_double: the precision of the array handed
    in (by default the configured one); the result is held to the lower of the two"""
    import abtem
    from abtem.core.fft import fft_interpolate
    cfg_double = double
    data_double = cfg_double if data_double is None else data_double
    double = cfg_double and data_double
    ev = {"k": "interp", "n1": list(n1), "n2": list(n2), "dtype": kind, "double": double, "raised": False, "roundtrip_ppb": 0,
          "mean_ppb": 0, "intensity_ppb": 0, "config_double": cfg_double, "data_double": data_double}
    try:
        with abtem.config.set({"precision": "float64" if cfg_double else "float32"}):
            g = np.random.default_rng(rng.randrange(1 << 30))
            shape = ((2,) if kind.endswith("batch") else ()) + tuple(n1)
            x = g.normal(size=shape)
            if kind.startswith("complex"):
                x = x + 1j * g.normal(size=shape)
            if kind.startswith("real_bandlimited"):
                X = np.fft.fft2(x)
                for ax, n in zip((-2, -1), n1):
                    if n % 2 == 0:
                        idx = [slice(None)] * X.ndim
                        idx[ax] = n // 2
                        X[tuple(idx)] = 0
                x = np.fft.ifft2(X).real
            x = x.astype((np.complex128 if data_double else np.complex64) if kind.startswith("complex") else (np.float64 if data_double else np.float32))
            x0 = x.copy()
            up = fft_interpolate(x, tuple(n2), normalization="values")
            up0 = up.copy()
            back = fft_interpolate(up, tuple(n1), normalization="values")
            ev["roundtrip_ppb"] = ppb(relmax(back, x0))
            if not (np.array_equal(x, x0) and np.array_equal(up, up0)):
                ev["roundtrip_ppb"] = 2_000_000_000          # the caller's array was modified by the interpolation
                ev["input_modified"] = True
            x = x0
            # the non-default flag: the caller allows its array to be overwritten - the RESULT is the same (the very first transform
            # of a shape in a process included: a backend that plans on the caller's data would return garbage exactly once)
            up_ow = fft_interpolate(x0.copy(), tuple(n2), normalization="values", overwrite_x=True)
            back_ow = fft_interpolate(up_ow.copy(), tuple(n1), normalization="values", overwrite_x=True)
            ev["roundtrip_ppb"] = max(ev["roundtrip_ppb"], ppb(relmax(up_ow, up0)), ppb(relmax(back_ow, x0)))
            # the mean is preserved to the precision of the data: deviation relative to the magnitude of the values
            ev["mean_ppb"] = ppb(abs(np.mean(up) - np.mean(x)) / float(np.abs(x).max()))
            upi = fft_interpolate(x, tuple(n2), normalization="intensity")
            i0 = float((np.abs(np.fft.fft2(x)) ** 2).sum())
            i1 = float((np.abs(np.fft.fft2(upi)) ** 2).sum())
            if kind.startswith("complex") or kind.startswith("real_bandlimited"):
                ev["intensity_ppb"] = ppb(abs(i1 - i0) / i0)
    except Exception as ex:
        ev["raised"] = True
        ev["exc"] = f"{type(ex).__name__}: {ex}"[:200]
    return ev


def shift_event(n, m, p, q, double, rng):
    import abtem
    from abtem.core.fft import fft_shift
    ev = {"k": "shift", "n": [n, m], "p": p, "q": q, "double": double, "raised": False, "roll_ppb": 0, "compose_ppb": 0}
    try:
        with abtem.config.set({"precision": "float64" if double else "float32"}):
            g = np.random.default_rng(rng.randrange(1 << 30))
            x = (g.normal(size=(n, m)) + 1j * g.normal(size=(n, m))).astype(np.complex128 if double else np.complex64)
            s = fft_shift(x.copy(), np.array([float(p), float(q)]))
            ev["roll_ppb"] = ppb(relmax(s, np.roll(x, (p, q), axis=(0, 1))))
            a, b = np.array([0.37 * p + 0.25, -0.5 * q + 0.125]), np.array([0.63 * p - 1.25, 1.5 * q + 0.375])
            two = fft_shift(fft_shift(x.copy(), a), b)
            one = fft_shift(x.copy(), a + b)
            ev["compose_ppb"] = ppb(relmax(two, one))
    except Exception as ex:
        ev["raised"] = True
        ev["exc"] = f"{type(ex).__name__}: {ex}"[:200]
    return ev


def downsample_event(n1, n2, lazy, rng):
    import abtem
    ev = {"k": "downsample", "n1": list(n1), "n2": list(n2), "lazy": lazy, "double": False, "raised": False, "content_ppb": 0, "shape_ok": True}
    try:
        g = np.random.default_rng(rng.randrange(1 << 30))
        # band-limited content: strictly inside the band of the smaller grid (no Nyquist terms)
        X = np.zeros(n1, dtype=np.complex128)
        for i in range(n1[0]):
            for j in range(n1[1]):
                fi = i if i < (n1[0] + 1) // 2 else i - n1[0]
                fj = j if j < (n1[1] + 1) // 2 else j - n1[1]
                if abs(fi) <= (n2[0] - 1) // 2 and abs(fj) <= (n2[1] - 1) // 2:
                    X[i, j] = g.normal() + 1j * g.normal()
        x = np.fft.ifft2(X).astype(np.complex64)
        from abtem.core.axes import OrdinalAxis
        w = abtem.Waves(np.stack([x, 2 * x]), energy=100e3, extent=(float(n1[0]), float(n1[1])),
                        ensemble_axes_metadata=[OrdinalAxis(label="member", values=(1, 2))])
        if lazy:
            w = w.ensure_lazy()
        d = w.downsample(gpts=tuple(n2), normalization="values")
        if lazy:
            d = d.compute()
        out = np.asarray(d.array)
        # same function on the same piece of space: the extent is kept and the sampling is extent / gpts on EACH axis
        geometry = all(abs(float(e) - float(n)) < 1e-5 * n for e, n in zip(d.extent, n1)) and \
            all(abs(float(s) - n / m) < 1e-5 * n / m for s, n, m in zip(d.sampling, n1, n2))
        ev["shape_ok"] = out.shape == (2,) + tuple(n2) and tuple(d.gpts) == tuple(n2) and bool(geometry)
        # independent reference: pixel values of the band-limited function on the coarser grid
        ref = np.zeros(n2, dtype=np.complex128)
        for a in range(n2[0]):
            for b in range(n2[1]):
                ph = 0
                # evaluate sum_k X_k exp(2 pi i (k_x a / n2x + k_y b / n2y)) / (n1x n1y)
                ref[a, b] = 0
        kx = np.array([i if i < (n1[0] + 1) // 2 else i - n1[0] for i in range(n1[0])])
        ky = np.array([j if j < (n1[1] + 1) // 2 else j - n1[1] for j in range(n1[1])])
        ea = np.exp(2j * np.pi * np.outer(np.arange(n2[0]) / n2[0], kx))
        eb = np.exp(2j * np.pi * np.outer(ky, np.arange(n2[1]) / n2[1]))
        ref = ea @ X @ eb / (n1[0] * n1[1])
        ev["content_ppb"] = max(ppb(relmax(out[0], ref)), ppb(relmax(out[1], 2 * ref)))
    except Exception as ex:
        ev["raised"] = True
        ev["exc"] = f"{type(ex).__name__}: {ex}"[:200]
    return ev


def tags_for(ev, clauses):
    t = {"clauses": sorted(clauses), "k": ev["k"]}
    if ev["k"] == "interp":
        t["dtype"] = ev["dtype"]
        t["even_source_axis"] = any(n % 2 == 0 for n in ev["n1"])
    if ev["k"] == "shift":
        t["even_axis"] = any(n % 2 == 0 for n in ev["n"])
    return t


def judge(ctx: Ctx, evs):
    res = ctx.validate("FourierTrace", [[e] for e in evs], "FourierTrace.cfg")
    for e, (ok, bad) in zip(evs, res):
        if not ok:
            tg = tags_for(e, bad[0][1])
            ctx.report(tg, {"event": e}, f"{e['k']}: {','.join(tg['clauses'])}: "
                       f"{json.dumps({k: v for k, v in e.items() if k not in ('maps',)})[:300]}")


def self_test(ctx: Ctx):
    good = {"k": "crop", "raised": False, "n1": [4, 3], "n2": [6, 2], "maps": [[1, 2, 0, 0, 3, 4], [1, 3]], "product_ok": True}
    c1 = dict(good, maps=[[1, 2, 0, 3, 0, 4], [1, 3]])
    g2 = {"k": "shift", "raised": False, "double": False, "roll_ppb": 300, "compose_ppb": 500}
    c2 = dict(g2, compose_ppb=9000000)
    res = ctx.validate("FourierTrace", [[good], [c1], [g2], [c2]], "FourierTrace.cfg")
    if not (res[0][0] and res[2][0]) or res[1][0] or res[3][0]:
        raise Machinery(f"FourierTrace self-test failed: {res}")
    ctx.notes["binding_selftest"] = {"good_accepted": True, "misplaced_frequency_rejected": res[1][1], "non_additive_shift_rejected": res[3][1]}


def run(ctx: Ctx):
    quick = ctx.tier == "quick"
    ctx.rule = ("1-D shape pairs (n1, n2) and shift cases (n, p, q) enumerated by TLC; combined into 2-D crops (with/without a batch "
                "dimension), up/down round trips (complex, complex batch, real band-limited, real with Nyquist content; single and "
                "double precision), whole-pixel and fractional shift compositions, Waves.downsample eager/lazy; non-trivial = n1 != n2 "
                "or non-zero shift")
    r = ctx.design_check("FourierImpl", cfg_text=CFG.format(n=8 if quick else 12), label="FourierImpl=>Fourier", workers=1, timeout=3000)
    self_test(ctx)
    cases = [json.loads(tlc.tla_value_to_py(s)[1]) for s in r.printed("CASE")]
    crops = [(c["n1"], c["n2"]) for c in cases if c["k"] == "crop"]
    shifts = [(c["n"], c["p"], c["q"]) for c in cases if c["k"] == "shift"]
    rng = random.Random(ctx.seed)
    evs = []
    pairs = [(a, b) for a in crops for b in crops]
    rng.shuffle(pairs)
    for j, (a, b) in enumerate(pairs[: (900 if quick else 20000)]):
        evs.append(crop_event((a[0], b[0]), (a[1], b[1]), batch=(j % 3 == 0)))
        ctx.case(("crop", a, b, j % 3 == 0), nontrivial=a[0] != a[1] or b[0] != b[1])
    ups = [(a, b) for a, b in pairs if a[1] >= a[0] and b[1] >= b[0] and a[0] >= 2 and b[0] >= 2]
    kinds = ["complex", "complex_batch", "real_bandlimited", "real_nyquist"]
    for j, (a, b) in enumerate(ups[: (240 if quick else 6000)]):
        # the data's precision need not be the configured one (every 7th case: double data under float32, single data under float64)
        dd = None if j % 7 else (j % 5 != 0)
        evs.append(interp_event((a[0], b[0]), (a[1], b[1]), kinds[j % 4], double=(j % 5 == 0), rng=rng, data_double=dd))
        ctx.case(("interp", a, b, kinds[j % 4], j % 5 == 0, dd), nontrivial=a[0] != a[1] or b[0] != b[1])
    rng.shuffle(shifts)
    for j, (n, p, q) in enumerate(shifts[: (300 if quick else 5000)]):
        m = [3, 4, 5, 6, 8][j % 5]
        if n < 2:
            continue
        evs.append(shift_event(n, m, p, q, double=(j % 4 == 0), rng=rng))
        ctx.case(("shift", n, m, p, q), nontrivial=p != 0 or q != 0)
    downs = [(a, b) for a, b in pairs if a[1] < a[0] and b[1] < b[0] and a[1] >= 3 and b[1] >= 3]
    for j, (a, b) in enumerate(downs[: (80 if quick else 2000)]):
        evs.append(downsample_event((a[0], b[0]), (a[1], b[1]), lazy=(j % 2 == 0), rng=rng))
        ctx.case(("downsample", a, b, j % 2), nontrivial=True)
    ctx.notes["cases_from_tlc"] = len(cases)
    for e in evs[:1] + [x for x in evs if x["k"] == "interp"][:1] + [x for x in evs if x["k"] == "shift"][:1] + evs[-1:]:
        ctx.sample(e)
    judge(ctx, evs)


def replay(ctx: Ctx, case):
    e = case["event"]
    rng = random.Random(0)
    if e["k"] == "crop":
        ev = crop_event(e["n1"], e["n2"], e["batch"])
    elif e["k"] == "interp":
        ev = interp_event(e["n1"], e["n2"], e["dtype"], e.get("config_double", e["double"]), rng, data_double=e.get("data_double"))
    elif e["k"] == "shift":
        ev = shift_event(e["n"][0], e["n"][1], e["p"], e["q"], e["double"], rng)
    else:
        ev = downsample_event(e["n1"], e["n2"], e["lazy"], rng)
    ctx.case("replay")
    ctx.sample(ev)
    judge(ctx, [ev])
