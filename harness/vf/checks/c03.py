"""C03  Parameter ensembles decompose into individual simulations.

design  : TLC enumerates Decomp.tla: object (Probe, PlaneWave, CTF, Aperture, TemporalEnvelope, SpatialEnvelope) x every subset of
          size 1-2 of its distribution-capable parameters x lengths x soft/hard x ensemble_mean x lazy/eager
inputs  : every enumerated case (thorough) / a seeded sample (quick): the ensemble run and the scalar run for every member
verdict : DecompTrace: ensemble shape, axis metadata values = the distribution values in order, member (i1, i2) = scalar run at
          (v1[i1], v2[i2]) (logged deviation), averaged axis = mean of the members; both raise or neither
"""
from __future__ import annotations

import itertools
import json
import random
import warnings

import numpy as np

from ..core import Ctx, Machinery
from ..rat import ppb
from .. import tlc
from ..ms import relerr

VALUES = {"defocus": [-50.0, 20.0, 80.0, 140.0, -110.0], "C30": [0.0, 1.0e5, -2.0e5, 3.0e5, -0.5e5], "C12": [10.0, 30.0, 50.0, 70.0, 20.0],
          "phi12": [0.0, 0.5, 1.0, 1.5, -0.7], "semiangle_cutoff": [15.0, 20.0, 25.0, 12.0, 28.0], "tilt_x": [0.0, 3.0, -4.0, 6.0, 1.5],
          "tilt_y": [2.0, -1.0, 5.0, -3.5, 0.5], "focal_spread": [5.0, 20.0, 40.0, 60.0, 10.0], "angular_spread": [0.3, 1.0, 2.0, 0.6, 1.5]}
POSITIONS = np.array([[0.0, 0.0], [1.3, 0.7], [2.9, 3.1], [0.4, 2.2], [3.3, 1.1]])
WEIGHTS = [0.5, 2.0, 1.5, 0.25, 1.25]
COMPANION = {"zero": {"tilt": (0.0, 0.0), "ab": {}}, "nonzero": {"tilt": (2.5, -1.5), "ab": {"C30": 4.0e4, "defocus": 15.0}}}


def small_potential():
    import abtem
    from ase import Atoms
    atoms = Atoms(["Si", "C"], positions=[(1.0, 1.2, 1.0), (2.5, 2.8, 3.0)], cell=(4.0, 4.0, 4.0), pbc=True)
    return abtem.Potential(atoms, gpts=16, slice_thickness=2.0, projection="infinite")


def run_object(obj, kw, soft, lazy, detect, positions=None, propagate=False, max_batch="auto", companion="zero"):
    """kw: parameter -> scalar or distribution.  Returns the result object."""
    import abtem
    comp = COMPANION[companion]
    tilt = (kw.pop("tilt_x", comp["tilt"][0]), kw.pop("tilt_y", comp["tilt"][1]))
    if obj in ("probe", "ctf", "spatial"):
        for k, v in comp["ab"].items():
            kw.setdefault(k, v)
    use_tilt = propagate
    if obj == "probe":
        cutoff = kw.pop("semiangle_cutoff", 20.0)
        scan = abtem.CustomScan(POSITIONS if positions is None else positions)
        p = abtem.Probe(energy=100e3, semiangle_cutoff=cutoff, soft=soft, extent=4.0, gpts=16, tilt=tilt, **kw)
        if use_tilt or detect:
            return p.multislice(small_potential(), scan=scan, detectors=abtem.PixelatedDetector(max_angle=None) if detect else None, lazy=lazy,
                                max_batch=max_batch)
        return p.build(scan=scan, lazy=lazy, max_batch=max_batch)
    if obj == "plane_wave":
        w = abtem.PlaneWave(energy=100e3, tilt=tilt)
        return w.multislice(small_potential(), detectors=abtem.PixelatedDetector(max_angle=None) if detect else None, lazy=lazy, max_batch=max_batch)
    base = abtem.Probe(energy=100e3, semiangle_cutoff=30.0, extent=4.0, gpts=16, defocus=10.0).build(scan=abtem.CustomScan(POSITIONS[:2]), lazy=lazy)
    if obj == "ctf":
        t = abtem.CTF(energy=100e3, soft=soft, **kw)
    elif obj == "aperture":
        t = abtem.Aperture(energy=100e3, soft=soft, **kw)
    elif obj == "temporal":
        t = abtem.transfer.TemporalEnvelope(energy=100e3, **kw)
    elif obj == "spatial":
        t = abtem.transfer.SpatialEnvelope(energy=100e3, **kw)
    else:
        raise Machinery(obj)
    return t.apply(base, max_batch=max_batch)


def observe(c):
    import abtem
    params = sorted(c["params"])
    lens = {p: (c["n1"] if i == 0 else c["n2"]) for i, p in enumerate(params)}
    mean = bool(c["mean"]) and c["obj"] in ("probe", "plane_wave") and len(params) == 1 and params[0] != "positions"
    ev = {"case": c, "raised": False, "scalar_raised": False, "shape_ok": True, "axes_ok": True, "members_ppb": [], "mean_ppb": 0, "mean_checked": mean}
    vals = {p: (VALUES[p][: lens[p]] if p != "positions" else list(range(lens[p]))) for p in params}
    pos = POSITIONS[: lens["positions"]] if "positions" in params else None
    dist_params = [p for p in params if p != "positions"]
    prop = any(p.startswith("tilt") for p in params) or (c.get("companion") == "nonzero" and c["obj"] in ("probe", "plane_wave"))   # a tilt only acts through propagation
    res = None
    try:
        with warnings.catch_warnings():
            warnings.simplefilter("ignore")
            wts = {p: (np.array(WEIGHTS[: lens[p]]) * (1.0 + 0.5 * k) if c.get("weighted") else None) for k, p in enumerate(dist_params)}
            kw = {p: abtem.distributions.from_values(np.array(vals[p]), weights=wts[p], ensemble_mean=mean) for p in dist_params}
            res = run_object(c["obj"], kw, c["soft"], c["lazy"], detect=mean, positions=pos, propagate=prop,
                             max_batch=2 if c.get("batch") == "two" else "auto", companion=c.get("companion", "zero"))
            if hasattr(res, "compute") and c["lazy"]:
                res = res.compute()
            full = np.asarray(res.array)
    except Exception as ex:
        ev["raised"] = True
        ev["exc"] = f"{type(ex).__name__}: {ex}"[:300]
    # scalar runs
    scal = {}
    try:
        with warnings.catch_warnings():
            warnings.simplefilter("ignore")
            for combo in itertools.product(*[range(lens[p]) for p in dist_params]):
                kw = {p: vals[p][i] for p, i in zip(dist_params, combo)}
                r = run_object(c["obj"], kw, c["soft"], False, detect=mean, positions=pos, propagate=prop, companion=c.get("companion", "zero"))
                wprod = float(np.prod([wts[p][i] for p, i in zip(dist_params, combo)])) if c.get("weighted") else 1.0
                scal[combo] = np.asarray(r.array) * wprod
    except Exception as ex:
        ev["scalar_raised"] = True
        ev["scalar_exc"] = f"{type(ex).__name__}: {ex}"[:300]
    if ev["raised"] or ev["scalar_raised"]:
        return ev
    try:
        # locate the ensemble axis of every distribution parameter by its listed values
        axes = list(res.ensemble_axes_metadata)
        where = {}
        for p in dist_params:
            want = [float(v) for v in vals[p]]
            hit = None
            for d, a in enumerate(axes):
                av = getattr(a, "values", None)
                if av is None or d in where.values():
                    continue
                av = [float(x[0] if isinstance(x, (tuple, list, np.ndarray)) and p == "tilt_x" else (x[1] if isinstance(x, (tuple, list, np.ndarray)) else x)) for x in av] \
                    if p in ("tilt_x", "tilt_y") else [float(x) if not isinstance(x, (tuple, list, np.ndarray)) else float("nan") for x in av]
                if len(av) == len(want) and (np.allclose(av, want, rtol=1e-6, atol=1e-9) or (p == "defocus" and np.allclose(av, [-w for w in want], rtol=1e-6, atol=1e-9))):
                    hit = d
                    break
            if hit is None and not mean:
                ev["axes_ok"] = False
            where[p] = hit
        if mean:
            ref = np.mean(np.stack([scal[k] for k in sorted(scal)]), axis=0)
            ev["shape_ok"] = np.squeeze(full).shape == np.squeeze(ref).shape
            ev["mean_ppb"] = ppb(relerr(np.squeeze(full), np.squeeze(ref)))
        elif ev["axes_ok"]:
            for combo, ref in scal.items():
                idx = [slice(None)] * full.ndim
                for p, i in zip(dist_params, combo):
                    idx[where[p]] = i
                got = full[tuple(idx)]
                if np.squeeze(got).shape != np.squeeze(ref).shape:
                    ev["shape_ok"] = False
                    break
                ev["members_ppb"].append(ppb(relerr(np.squeeze(got), np.squeeze(ref))))
    except Exception as ex:
        raise Machinery(f"harness failed to decompose {c}: {type(ex).__name__}: {ex}")
    return ev


def tags_for(ev, clauses):
    c = ev["case"]
    return {"clauses": sorted(clauses), "obj": c["obj"], "params": sorted(c["params"]), "soft": c["soft"], "lazy": c["lazy"], "mean": ev["mean_checked"]}


def judge(ctx: Ctx, evs):
    res = ctx.validate("DecompTrace", [[e] for e in evs], "DecompTrace.cfg")
    for e, (ok, bad) in zip(evs, res):
        if not ok:
            tg = tags_for(e, bad[0][1])
            ctx.report(tg, {"event": e}, f"{json.dumps(e['case'])}: {','.join(tg['clauses'])} members={e['members_ppb'][:6]} mean={e['mean_ppb']} "
                       f"{e.get('exc', '')} {e.get('scalar_exc', '')}")


def self_test(ctx: Ctx):
    g = {"raised": False, "scalar_raised": False, "shape_ok": True, "axes_ok": True, "members_ppb": [0, 12, 300], "mean_ppb": 0}
    res = ctx.validate("DecompTrace", [[g], [dict(g, members_ppb=[0, 10 ** 8, 0])], [dict(g, axes_ok=False)], [dict(g, raised=True)], [dict(g, mean_ppb=10 ** 7)]],
                       "DecompTrace.cfg")
    if not res[0][0] or any(r[0] for r in res[1:]):
        raise Machinery(f"DecompTrace self-test failed: {res}")
    ctx.notes["binding_selftest"] = {"good_accepted": True, "member_mismatch_rejected": res[1][1], "axis_values_rejected": res[2][1],
                                    "fail_apart_rejected": res[3][1], "mean_mismatch_rejected": res[4][1]}


def run(ctx: Ctx):
    quick = ctx.tier == "quick"
    ctx.rule = ("cases = object x subset (size 1-2) of its distribution-capable parameters (defocus, C30, C12, phi12, semiangle_cutoff, "
                "tilt components, focal/angular spread, probe positions) x lengths 1-3 and 5 (the latter lazily with max_batch 2: uneven blocks) x unit / non-unit weights (transfer functions applied to waves: member = weight x scalar run) x zero / non-zero scalar companions (tilt, Cs, defocus) x soft/hard x ensemble_mean x lazy/eager, "
                "enumerated by TLC; the ensemble run is compared member by member with scalar runs; non-trivial = a distribution of "
                "length >= 2")
    r = ctx.design_check("Decomp", "Decomp.cfg", label="case space", workers=1)
    self_test(ctx)
    cases = [json.loads(tlc.tla_value_to_py(s)[1]) for s in r.printed("CASE")]
    ctx.notes["cases_from_tlc"] = len(cases)
    rng = random.Random(ctx.seed)
    cases.sort(key=lambda c: json.dumps(c, sort_keys=True))
    rng.shuffle(cases)
    if quick:
        # every (object, parameter set) once, every (object, uneven batching) and (object, non-zero companions) once, then the seeded remainder
        seen, first, rest = set(), [], []
        for c in cases:
            ks = [("p", c["obj"], tuple(sorted(c["params"]))), ("c", c["obj"], c["companion"], c["lazy"]),
                  ("w", c["obj"], c.get("weighted"), c["batch"], c["lazy"])]
            # every parameter under every batching, lazily too, with ITS OWN series length (first parameter n1, second n2)
            ks += [("b", c["obj"], c["batch"], p, c["lazy"], min(c["n1"] if i == 0 else c["n2"], 4)) for i, p in enumerate(sorted(c["params"]))]
            new = [k for k in ks if k not in seen]
            (first if new else rest).append(c)
            seen.update(ks)
        cases = first + rest[:20]
        ctx.notes["strata"] = len(seen)
    else:
        ctx.exhaustive = True
    evs = []
    for c in cases:
        evs.append(observe(c))
        ctx.case(json.dumps(c, sort_keys=True), nontrivial=c["n1"] >= 2 or len(c["params"]) == 2)
    for e in evs[:1] + evs[-1:]:
        ctx.sample(e)
    judge(ctx, evs)


def replay(ctx: Ctx, case):
    ev = observe(case["event"]["case"])
    ctx.case("replay")
    ctx.sample(ev)
    judge(ctx, [ev])
