"""C37  Real-space multislice is a faithful discretization.

design  : Fd.tla defines the centred stencils by their exact rational coefficients (TLC checks the table against the moment
          conditions) and the periodic discrete Laplacian by its weights c_k / dx^2, c_k / dy^2; FdImpl.tla transcribes
          _laplace_operator_stencil (rolled coefficient array with negative indices, periodic padding by n+1, interior loop, slicing)
          and LaplaceOperator's prefactors, and TLC checks weight by weight that it is that Laplacian for all grids up to 4 x 4,
          accuracies 2 and 4 and spacings {1, 1/2, 2/3} (with the pre-fix prefactor 1/(dx dy): counterexample n = (2, 1), d = (1/2, 1))
inputs  : TLC-enumerated scenarios: (1) the real stencil applied to every one-hot array -> the operator's weights in fixed point;
          (2) plane waves of all tabulated accuracies 2..18 on square and rectangular samplings; (3) probes through vacuum with
          RealSpaceMultislice of several orders / scopes / accuracies, lazily and eagerly
verdict : FdTrace (Fd!Fails): weights = coefficient / spacing^2 (exact to 2e-4), no periodic neighbour missing; plane wave =
          eigenvector with the analytic eigenvalue; intensity preserved through vacuum; lazy == eager
"""
from __future__ import annotations

import json
import random
import warnings
from fractions import Fraction

import numpy as np

from ..core import Ctx, Machinery
from ..rat import ppb
from .. import tlc
from ..ms import relerr

ENERGY = 100e3
ST_GRIDS = {1: (5, 4), 2: (7, 7), 3: (3, 6), 4: (6, 9)}
ST_SPACINGS = {1: (Fraction(1), Fraction(1)), 2: (Fraction(1, 2), Fraction(1)), 3: (Fraction(2, 3), Fraction(1, 2))}
EI_GRIDS = {1: (16, 16), 2: (16, 12), 3: (9, 20)}
EI_SPACINGS = {1: (0.2, 0.2), 2: (0.2, 0.25), 3: (0.1, 0.3)}
VA_GRIDS = {1: (16, 16), 2: (20, 12)}
VA_SPACINGS = {1: (0.2, 0.2), 2: (0.2, 0.25)}
_stencils = {}


def stencil(acc, n, d):
    """the real Laplace stencil for a grid / spacing, through LaplaceOperator (cached: each one is numba-compiled)"""
    import abtem
    from abtem.finite_difference import LaplaceOperator
    key = (acc, tuple(float(x) for x in d))
    if key not in _stencils:
        w = abtem.Waves(np.zeros(n, dtype=np.complex64), energy=ENERGY, sampling=(float(d[0]), float(d[1])))
        _stencils[key] = LaplaceOperator(acc).get_stencil(w)
    return _stencils[key]


def stencil_event(c):
    n, d = ST_GRIDS[c["grid"]], ST_SPACINGS[c["spacing"]]
    ev = {"k": "stencil", "case": c, "raised": False, "acc": c["acc"], "n": list(n), "d": [[d[0].numerator, d[0].denominator], [d[1].numerator, d[1].denominator]], "op": []}
    try:
        st = stencil(c["acc"], n, d)
        basis = np.zeros((n[0] * n[1],) + n, dtype=np.complex64)
        for p in range(n[0] * n[1]):
            basis[p, p // n[1], p % n[1]] = 1.0
        out = np.asarray(st(basis))
        ev["imag_zero"] = bool(np.abs(out.imag).max() < 1e-6)
        re = out.real.astype(float)
        for p in range(n[0] * n[1]):
            x, y = p // n[1], p % n[1]
            for i, j in zip(*np.nonzero(np.abs(re[p]) > 1e-5)):
                ev["op"].append([int(i), int(j), x, y, int(round(re[p, i, j] * 10000))])
    except Exception as ex:
        ev["raised"] = True
        ev["exc"] = f"{type(ex).__name__}: {ex}"[:300]
    return ev


def eigen_event(c):
    from abtem.finite_difference import finite_difference_coefficients
    n, d = EI_GRIDS[c["grid"]], EI_SPACINGS[c["spacing"]]
    ev = {"k": "eigen", "case": c, "raised": False, "err_ppb": 0}
    try:
        st = stencil(c["acc"], n, d)
        p, qq = c["p"], c["q"]
        i, j = np.meshgrid(np.arange(n[0]), np.arange(n[1]), indexing="ij")
        pw = np.exp(2j * np.pi * (p * i / n[0] + qq * j / n[1])).astype(np.complex64)
        out = np.asarray(st(pw[None]))[0]
        co = finite_difference_coefficients(2, c["acc"])
        k = np.arange(-(len(co) // 2), len(co) // 2 + 1)
        lam = (co * np.exp(2j * np.pi * k * p / n[0])).sum() / d[0] ** 2 + (co * np.exp(2j * np.pi * k * qq / n[1])).sum() / d[1] ** 2
        scale = max(abs(lam), (abs(co).sum()) * (1 / d[0] ** 2 + 1 / d[1] ** 2) * 1e-3)
        ev["err_ppb"] = ppb(float(np.abs(out - lam * pw).max()) / scale)
    except Exception as ex:
        ev["raised"] = True
        ev["exc"] = f"{type(ex).__name__}: {ex}"[:300]
    return ev


def vacuum_event(c):
    import abtem
    from abtem.multislice import RealSpaceMultislice
    n, d = VA_GRIDS[c["grid"]], VA_SPACINGS[c["spacing"]]
    ext = (n[0] * d[0], n[1] * d[1])
    ev = {"k": "vacuum", "case": c, "raised": False, "intensity_ppb": 0, "lazy_ppb": 0, "repeat_ppb": 0}
    with warnings.catch_warnings():
        warnings.simplefilter("ignore")
        try:
            parr = np.zeros((3,) + n, dtype=np.float32)
            if c.get("pot") == "array":
                parr = (25.0 * np.random.default_rng(3).random((3,) + n)).astype(np.float32)         # a prebuilt, non-zero potential
            vac = abtem.PotentialArray(parr, slice_thickness=[1.0, 2.0, 1.5], sampling=d)
            alg = RealSpaceMultislice(order=c["order"], expansion_scope=c["scope"], derivative_accuracy=c["acc"])
            probe = abtem.Probe(energy=ENERGY, semiangle_cutoff=20, extent=ext, gpts=n, defocus=20.0)     # band-limited well inside the grid
            scan = abtem.CustomScan(np.array([[ext[0] * 0.4, ext[1] * 0.55], [ext[0] * 0.1, ext[1] * 0.8]]))
            before = np.asarray(probe.build(scan=scan, lazy=False).array)
            import abtem.core.config as _cfg
            with abtem.config.set({"diagnostics.task_progress": False}):
                after = np.asarray(probe.multislice(vac, scan=scan, lazy=False, algorithm=alg).array)
                i0 = (np.abs(before) ** 2).sum((-2, -1))
                i1 = (np.abs(after) ** 2).sum((-2, -1))
                ev["intensity_ppb"] = ppb(float(np.abs(i1 / i0 - 1.0).max())) if c.get("pot", "vacuum") == "vacuum" else 0
                again = np.asarray(probe.multislice(vac, scan=scan, lazy=False, algorithm=alg).array)
                ev["repeat_ppb"] = ppb(relerr(again, after))
                if c["lazy"]:
                    lz = np.asarray(probe.multislice(vac, scan=scan, lazy=True, algorithm=alg).compute().array)
                    ev["lazy_ppb"] = ppb(relerr(lz, after)) if lz.shape == after.shape else 2 * 10 ** 9
        except Exception as ex:
            ev["raised"] = True
            ev["exc"] = f"{type(ex).__name__}: {ex}"[:300]
    return ev


HISTORY_PROBE = r"""
import sys, json, warnings
import numpy as np
warnings.simplefilter("ignore")
sys.path.insert(0, sys.argv[1])
import abtem
from abtem.multislice import RealSpaceMultislice
abtem.config.set({"diagnostics.task_progress": False, "diagnostics.progress_bar": False})
n, d = (24, 20), (0.2, 0.25)
def run():
    vac = abtem.PotentialArray(np.zeros((2,) + n, np.float32), slice_thickness=[1.0, 2.0], sampling=d)
    g = np.random.default_rng(1)
    X = np.fft.fft2(g.normal(size=n) + 1j * g.normal(size=n))
    kx, ky = np.fft.fftfreq(n[0], d[0]), np.fft.fftfreq(n[1], d[1])
    k = np.sqrt(kx[:, None] ** 2 + ky[None] ** 2)
    X[k > 0.8 * min(np.abs(kx).max(), np.abs(ky).max())] = 0          # between the shipped (2/3) and the wide (0.9) aperture
    w = abtem.Waves(np.fft.ifft2(X).astype(np.complex64), energy=100e3, sampling=d)
    return np.asarray(w.multislice(vac, algorithm=RealSpaceMultislice(order=1, derivative_accuracy=6)).array)
if sys.argv[2] == "after_default":
    run()                                   # the same grid and energy under the shipped configuration first
with abtem.config.set({"antialias.cutoff": 0.9, "antialias.taper": 0.02}):
    out = run()
print(json.dumps([out.real.tolist(), out.imag.tolist()]))
"""


def history_event():
    """process histories: a real-space run under a configured (wider) antialias aperture gives the same waves whether or not a run on
    the same grid and energy under the shipped configuration happened earlier in the process (two fresh interpreter processes)"""
    import os, subprocess, sys
    ev = {"k": "vacuum", "case": {"k": "vacuum", "history": "antialias_configuration_changed_between_runs"}, "raised": False, "intensity_ppb": 0,
          "lazy_ppb": 0, "repeat_ppb": 0}
    try:
        outs = {}
        for mode in ("fresh", "after_default"):
            p = subprocess.run([sys.executable, "-c", HISTORY_PROBE, os.environ.get("ABTEM_REPO", "/repo"), mode], capture_output=True, text=True, timeout=900)
            if p.returncode != 0:
                raise RuntimeError(p.stderr[-300:])
            re_, im_ = json.loads(p.stdout.strip().splitlines()[-1])
            outs[mode] = np.array(re_) + 1j * np.array(im_)
        ev["repeat_ppb"] = ppb(relerr(outs["after_default"], outs["fresh"]))
    except Exception as ex:
        ev["raised"] = True
        ev["exc"] = f"{type(ex).__name__}: {ex}"[:300]
    return ev


def observe(c):
    if c.get("history"):
        return history_event()
    return {"stencil": stencil_event, "eigen": eigen_event, "vacuum": vacuum_event}[c["k"]](c)


def tags_for(ev, clauses):
    c = ev["case"]
    sp = {"stencil": ST_SPACINGS, "eigen": EI_SPACINGS, "vacuum": VA_SPACINGS}[c["k"]][c["spacing"]] if "spacing" in c else (1, 1)
    return {"clauses": sorted(clauses), "k": c["k"], "square_sampling": sp[0] == sp[1]}


def judge(ctx: Ctx, evs):
    res = ctx.validate("FdTrace", [[e] for e in evs], "FdTrace.cfg", timeout=3000)
    for e, (ok, bad) in zip(evs, res):
        if not ok:
            tg = tags_for(e, bad[0][1])
            ctx.report(tg, {"event": {k: v for k, v in e.items() if k != "op"}}, f"{json.dumps({k: v for k, v in e.items() if k != 'op'})[:400]} op[:3]={e.get('op', [])[:3]}")


def self_test(ctx: Ctx):
    # 2 x 1 grid, accuracy 2, d = (1/2, 1): x-neighbours wrap (both k = -1 and k = 1 reach the other pixel), y-neighbours are the pixel itself
    # weight((i,0) <- (i,0)) = -2*4 + (1 - 2 + 1)*1 = -8 ; weight((i,0) <- (1-i,0)) = 2*4 = 8
    g = {"k": "stencil", "raised": False, "acc": 2, "n": [2, 1], "d": [[1, 2], [1, 1]],
         "op": [[0, 0, 0, 0, -80000], [1, 0, 1, 0, -80000], [0, 0, 1, 0, 80000], [1, 0, 0, 0, 80000]]}
    b1 = dict(g, op=[[0, 0, 0, 0, -40000], [1, 0, 1, 0, -40000], [0, 0, 1, 0, 40000], [1, 0, 0, 0, 40000]])      # prefactor 1/(dx dy) = 2 on both axes
    b2 = dict(g, op=g["op"][:3])                                                                              # a neighbour missing
    e = {"k": "eigen", "raised": False, "err_ppb": 900}
    v = {"k": "vacuum", "raised": False, "intensity_ppb": 600, "lazy_ppb": 0, "repeat_ppb": 0}
    res = ctx.validate("FdTrace", [[g], [e], [v], [b1], [b2], [dict(e, err_ppb=10 ** 8)], [dict(v, intensity_ppb=10 ** 6)], [dict(v, lazy_ppb=10 ** 6)],
                                   [dict(v, raised=True)]], "FdTrace.cfg")
    if not all(r[0] for r in res[:3]) or any(r[0] for r in res[3:]):
        raise Machinery(f"FdTrace self-test failed: {res}")
    ctx.notes["binding_selftest"] = {"good_accepted": 3, "rejected": [r[1] for r in res[3:]]}


IMPL_CFG = """SPECIFICATION Spec
CONSTANTS
  MaxN = {n}
  Spacings <- MC_Spacings
  PerAxis = TRUE
INVARIANT StencilIsThePeriodicLaplacian
CHECK_DEADLOCK FALSE
"""


def run(ctx: Ctx):
    quick = ctx.tier == "quick"
    ctx.rule = ("stencil weights: accuracy {2, 4, 6} x grids (5x4, 7x7, 3x6 - narrower than the stencil -, 6x9) x spacings ((1,1), (1/2,1), "
                "(2/3,1/2)) on every one-hot array; eigenvalues: accuracy 2..18 x 3 grids x 3 samplings (square and rectangular) x "
                "frequencies p in 0..3, q in {0, 2, 5}; vacuum: accuracy {2, 6, 8} x order 1..3 x scope x 2 grids x 2 samplings x lazy; "
                "all enumerated by TLC; non-trivial = rectangular sampling or a non-zero frequency")
    ctx.design_check("MCFd", cfg_text=IMPL_CFG.format(n=3 if quick else 4), label="FdImpl=>Fd!Weight", timeout=3000)
    r = ctx.design_check("Fd", "Fd.cfg", label="scenario space + coefficient table satisfies the moment conditions", workers=1)
    self_test(ctx)
    cases = [json.loads(tlc.tla_value_to_py(s)[1]) for s in r.printed("CASE")]
    ctx.notes["cases_from_tlc"] = len(cases)
    rng = random.Random(ctx.seed)
    cases.sort(key=lambda c: json.dumps(c, sort_keys=True))
    rng.shuffle(cases)
    if quick:
        by = {"stencil": [], "eigen": [], "vacuum": []}
        for c in cases:
            by[c["k"]].append(c)
        # keep the number of distinct (accuracy, spacing) stencils small: each is a numba compilation
        k3 = ctx.seed % 3
        st = [c for c in by["stencil"] if (c["acc"], c["spacing"]) in ((2, 2), (4, 3), (6, 2))][:8]
        accs = [(2, 8, 14), (4, 10, 16), (6, 12, 18)][k3]
        ei = [c for c in by["eigen"] if c["acc"] in accs and c["spacing"] == 2 + (c["acc"] // 2) % 2][:45]
        va = [c for c in by["vacuum"] if c["acc"] == 6 and c["spacing"] == 2][:2] + [c for c in by["vacuum"] if c["acc"] == 6 and c["spacing"] == 1][:1]
        cases = st + ei + va
    else:
        ctx.exhaustive = True
    evs = []
    for c in cases:
        evs.append(observe(c))
        ctx.case(json.dumps(c, sort_keys=True))
    evs.append(history_event())
    ctx.case("process history: antialias configuration changed between two real-space runs on one grid")
    ctx.notes["events"] = {k: sum(1 for e in evs if e["k"] == k) for k in ("stencil", "eigen", "vacuum")}
    for e in evs[:1] + evs[-1:]:
        ctx.sample({k: (v if k != "op" else v[:6]) for k, v in e.items()})
    judge(ctx, evs)


def replay(ctx: Ctx, case):
    ev = observe(case["event"]["case"])
    ctx.case("replay")
    ctx.sample({k: (v if k != "op" else v[:6]) for k, v in ev.items()})
    judge(ctx, [ev])
