"""C38  Results do not depend on the FFT backend or precision setting.

design  : TLC explores BackendImpl.tla (in-place FFTW dispatch with the defensive copy, planning on a dummy vs wisdom, the
          process-global wisdom surviving configuration contexts, LIFO configuration contexts) and checks in every reachable
          state of every session that each run returns the pure transform of its input and leaves caller-owned arrays alone;
          it emits the sessions (one per distinct abstract state).
inputs  : (a) every full configuration x every concrete pipeline from a fresh planner, (b) TLC's sessions replayed in this
          process with the real abtem.config.set contexts (planner wisdom reset at session start, kept inside the session).
verdict : BackendTrace: every run of every session agrees with the pipeline's reference (numpy, float64, fresh planner) to
          5e-5 under float32 and 1e-9 under float64, does not raise, and leaves the caller's arrays unmodified.
"""
from __future__ import annotations

import itertools
import json
import random
import warnings

import numpy as np

from ..core import Ctx, Machinery
from ..rat import ppb
from .. import tlc
from ..backend_pipes import PIPES

BASE = {"fft": "fftw", "effort": "FFTW_MEASURE", "threads": 1, "precision": "float32"}
KEYMAP = {"fft": "fft", "effort": "fftw.planning_effort", "threads": "fftw.threads", "precision": "precision"}
CLASS = {
    "transform": ["interpolate_images", "diffraction_interpolate", "apply_ctf_image", "potential_infinite", "fft_helpers", "waves_transforms_then_reuse",
                  "images_transforms_then_reuse"],
    "roundtrip_in_place": ["fft2_roundtrip_and_convolve", "gaussian_filter_images", "probe_scan_annular", "potential_finite"],
    "two_shapes": ["planewave_diffraction", "prism_scan", "interpolate_images", "diffraction_interpolate"],
    "propagate": ["propagate_vacuum", "exit_waves_frozen_phonons", "probe_scan_flexible_lazy", "center_of_mass"],
    "no_fft": ["realspace_multislice", "diffraction_integrate_radial"],
}
PRISM_PIPES = {"prism_scan"}


def to_abtem(kv):
    return {KEYMAP[k]: v for k, v in kv.items()}


def observed_cfg():
    import abtem
    return {k: abtem.config.get(KEYMAP[k]) for k in KEYMAP}


class Refs:
    def __init__(self):
        self.ref = {}
        self.meta = {}

    def get(self, name):
        if name not in self.ref:
            import abtem
            import pyfftw
            pyfftw.forget_wisdom()
            with warnings.catch_warnings():
                warnings.simplefilter("ignore")
                with abtem.config.set({"fft": "numpy", "precision": "float64"}):
                    r = PIPES[name]()
            a = np.asarray(r["array"])
            self.ref[name] = a.astype(np.complex128 if np.iscomplexobj(a) else np.float64)
            self.meta[name] = {"dtype64": str(a.dtype)}
        return self.ref[name]


def s_matrix_dtype_under_float64():
    """Observed fact the PRISM finding is keyed on: the dtype of a built S-matrix when precision = float64."""
    import abtem
    with warnings.catch_warnings():
        warnings.simplefilter("ignore")
        with abtem.config.set({"precision": "float64", "fft": "numpy"}):
            s = abtem.SMatrix(energy=100e3, semiangle_cutoff=15.0, extent=(5.0, 5.0), gpts=(16, 16)).build(lazy=False)
    return str(np.asarray(s.array).dtype)


def run_event(name, refs: Refs):
    ref = refs.get(name)
    cfg = observed_cfg()
    ev = {"e": "Run", "pipe": name, "cfg": cfg, "raised": False, "input_changed": False, "dev_ppb": 0, "dev_ppt": 0,
          "dtype_follows_precision": True, "dtype": ""}
    try:
        with warnings.catch_warnings():
            warnings.simplefilter("ignore")
            r = PIPES[name]()
        a = np.asarray(r["array"])
        ev["dtype"] = str(a.dtype)
        ev["input_changed"] = bool(r["input_changed"])
        if a.shape != ref.shape:
            ev["dev_ppb"], ev["dev_ppt"] = 2_000_000_000, 2_000_000_000
            ev["shape"] = [list(a.shape), list(ref.shape)]
        else:
            scale = max(float(np.abs(ref).max()), 1e-300)
            d = np.abs(a.astype(ref.dtype) - ref)
            dev = float(np.nanmax(d)) / scale if np.isfinite(d).all() else float("nan")
            ev["dev_ppb"] = ppb(dev)
            ev["dev_ppt"] = 2_000_000_000 if dev != dev else int(min(dev * 1e12, 2_000_000_000))
        want = {"float32": ("float32", "complex64"), "float64": ("float64", "complex128")}[cfg["precision"]]
        ev["dtype_follows_precision"] = ev["dtype"] in want
    except Exception as ex:
        ev["raised"] = True
        ev["exc"] = f"{type(ex).__name__}: {ex}"[:240]
    return ev


def run_session(abstract, pick, refs: Refs, timelimit):
    """Replay one TLC session on the real library; returns the recorded trace."""
    import abtem
    import pyfftw
    pyfftw.forget_wisdom()
    trace = []
    stack = []
    outer = abtem.config.set(dict(to_abtem(BASE), **{"fftw.planning_timelimit": timelimit, "diagnostics.progress_bar": False}))
    outer.__enter__()
    try:
        for ev in abstract:
            if ev["e"] == "Begin":
                trace.append({"e": "Begin", "base": observed_cfg()})
            elif ev["e"] == "Enter":
                c = abtem.config.set(to_abtem(ev["kv"]))
                c.__enter__()
                stack.append(c)
                trace.append({"e": "Enter", "kv": ev["kv"]})
            elif ev["e"] == "Exit":
                stack.pop().__exit__(None, None, None)
                trace.append({"e": "Exit"})
            elif ev["e"] == "Run":
                for name in pick(ev["pipe"]):
                    trace.append(run_event(name, refs))
        while stack:
            stack.pop().__exit__(None, None, None)
            trace.append({"e": "Exit"})
        trace.append({"e": "End"})
    finally:
        while stack:
            stack.pop().__exit__(None, None, None)
        outer.__exit__(None, None, None)
    return trace


def tags_for(tr, line, clauses, facts):
    ev = tr[line - 1] if 0 < line <= len(tr) else {}
    cfg = ev.get("cfg") or {}
    t = {"clauses": sorted(clauses), "pipe": ev.get("pipe"), "fft": cfg.get("fft"), "precision": cfg.get("precision")}
    if ev.get("pipe") in PRISM_PIPES:
        t["prism"] = True
        t["s_matrix_dtype_under_float64"] = facts["s_matrix_dtype_under_float64"]
    return t


def judge(ctx: Ctx, traces, facts):
    res = ctx.validate("BackendTrace", traces, "BackendTrace.cfg")
    for tr, (ok, bad) in zip(traces, res):
        if ok:
            continue
        for line, cl in bad:
            verdict = {x for x in cl if not x.startswith("growth_")}
            growth = {x for x in cl if x.startswith("growth_")}
            if growth and len(ctx.drift) < 10:
                ev = tr[line - 1] if line <= len(tr) else {}
                ctx.drift.append({"clauses": sorted(growth), "pipe": ev.get("pipe"), "cfg": ev.get("cfg"), "dtype": ev.get("dtype")})
            ctx.notes["growth_clause_hits"] = ctx.notes.get("growth_clause_hits", 0) + (1 if growth else 0)
            if verdict:
                ev = tr[line - 1]
                tg = tags_for(tr, line, verdict, facts)
                ctx.report(tg, {"session": [{k: v for k, v in e.items() if k in ("e", "kv", "pipe", "base")} for e in tr], "line": line},
                           f"session line {line}: pipe={ev.get('pipe')} cfg={json.dumps(ev.get('cfg'))} {','.join(tg['clauses'])} "
                           f"dev_ppb={ev.get('dev_ppb')} dev_ppt={ev.get('dev_ppt')} {ev.get('exc', '')}")


def self_test(ctx: Ctx):
    b = {"e": "Begin", "base": BASE}
    cfg64 = dict(BASE, fft="numpy", precision="float64")
    run = {"e": "Run", "pipe": "p", "cfg": cfg64, "raised": False, "input_changed": False, "dev_ppb": 0, "dev_ppt": 3, "dtype_follows_precision": True}
    good = [b, {"e": "Enter", "kv": {"fft": "numpy", "precision": "float64"}}, run, {"e": "Exit"}, dict(run, cfg=BASE, dev_ppb=900, dev_ppt=900000), {"e": "End"}]
    t1 = json.loads(json.dumps(good)); t1[2]["dev_ppt"] = 400000            # float64 run only single-precision accurate
    t2 = json.loads(json.dumps(good)); t2[4]["dev_ppb"] = 90000             # float32 run off by 9e-5
    t3 = json.loads(json.dumps(good)); t3[4]["input_changed"] = True
    t4 = json.loads(json.dumps(good)); t4[4]["cfg"] = cfg64                  # context not restored (growth)
    t5 = json.loads(json.dumps(good)); t5[2]["raised"] = True
    res = ctx.validate("BackendTrace", [good, t1, t2, t3, t4, t5], "BackendTrace.cfg")
    if [r[0] for r in res] != [True, False, False, False, False, False]:
        raise Machinery(f"BackendTrace self-test failed: {res}")
    ctx.notes["binding_selftest"] = {"good_accepted": True, "float64_run_at_single_accuracy_rejected": res[1][1], "float32_deviation_rejected": res[2][1],
                                     "modified_input_rejected": res[3][1], "unrestored_context_reported_as_growth": res[4][1], "raise_rejected": res[5][1]}


def impl_cfg(maxlen, efforts, threads, emit, maxdepth=2):
    es = ", ".join('"%s"' % e for e in efforts)
    ts = ", ".join(str(t) for t in threads)
    return ("SPECIFICATION Spec\nCONSTANTS\n  MaxLen = %d\n  MaxDepth = %d\n  CfgEfforts = {%s}\n  CfgThreads = {%s}\n  Emit = %s\n"
            "  PlanOnData = FALSE\n  NoCopy = FALSE\n  RememberShape = FALSE\nINVARIANT ResultIndependentOfHistory\nINVARIANT EmitSession\n"
            "VIEW View\nCHECK_DEADLOCK FALSE\n" % (maxlen, maxdepth, es, ts, "TRUE" if emit else "FALSE"))


def run(ctx: Ctx):
    quick = ctx.tier == "quick"
    efforts = ["FFTW_ESTIMATE", "FFTW_MEASURE", "FFTW_PATIENT"] + ([] if quick else ["FFTW_EXHAUSTIVE"])
    threads = [1, 2]
    ctx.rule = ("(a) every full configuration fft {numpy, fftw} x planning effort {%s} x threads {1, 2} x precision {float32, float64} x each of "
                "the %d concrete pipelines (probe scans eager/lazy, plane-wave diffraction, frozen phonons with tilt, PRISM, CTF image, image "
                "interpolation / Gaussian filter, diffraction-pattern integration / interpolation, infinite and finite potentials, FFT helpers, "
                "in-place round trips, vacuum propagation, real-space multislice, centre of mass), planner wisdom forgotten before each; (b) "
                "sessions emitted by TLC from BackendImpl (nested configuration contexts changing 1, 2 or all keys, runs in between, length %d, "
                "one per distinct abstract state), a seeded stratified sample replayed with the planner's wisdom kept inside the session.  "
                "non-trivial = every run") % (", ".join(efforts), len(PIPES), 6 if quick else 7)
    self_test(ctx)
    ctx.design_check("BackendImpl", cfg_text=impl_cfg(6, ["FFTW_ESTIMATE", "FFTW_MEASURE"], [1], False, maxdepth=3),
                     label="result independent of history (2 efforts, depth 3, length 6)", coverage=not quick)
    r = ctx.design_check("BackendImpl", cfg_text=impl_cfg(6 if quick else 7, efforts[:3], threads, True), label="session emission", workers=1,
                         timeout=1500)
    sessions = [json.loads(tlc.tla_value_to_py(s)[1]) for s in r.printed("SESSION")]
    ctx.notes["sessions_from_tlc"] = len(sessions)
    rng = random.Random(ctx.seed)
    refs = Refs()
    facts = {"s_matrix_dtype_under_float64": s_matrix_dtype_under_float64()}
    ctx.notes["observed_facts"] = facts
    timelimit = 0.1 if quick else 0.3
    traces = []
    # (a) every configuration x pipeline from a fresh planner
    names = sorted(PIPES)
    for fft, eff, th, prec in itertools.product(["numpy", "fftw"], efforts, threads, ["float32", "float64"]):
        if fft == "numpy" and (eff != "FFTW_MEASURE" or th != 1):
            continue          # effort and threads are not read by the numpy backend: one representative
        kv = {"fft": fft, "effort": eff, "threads": th, "precision": prec}
        for name in names:
            tr = run_session([{"e": "Begin"}, {"e": "Enter", "kv": kv}, {"e": "Run", "pipe": name}, {"e": "Exit"}], lambda n: [n], refs, timelimit)
            traces.append(tr)
            ctx.case(f"single:{json.dumps(kv, sort_keys=True)}:{name}")
    ctx.sample(traces[0])
    # (b) TLC sessions
    sessions.sort(key=lambda s: json.dumps(s, sort_keys=True))
    multi = [s for s in sessions if sum(1 for e in s if e["e"] == "Run") >= 2]
    rng.shuffle(multi)

    def stratum(s):
        # the ordered list of (fft, precision) in effect at each run + whether any effort measures
        st, cur, out = [dict(BASE)], dict(BASE), []
        for e in s:
            if e["e"] == "Enter":
                cur = dict(st[-1], **e["kv"]); st.append(cur)
            elif e["e"] == "Exit":
                st.pop(); cur = st[-1]
            elif e["e"] == "Run":
                out.append((st[-1]["fft"], st[-1]["precision"], st[-1]["effort"] != "FFTW_ESTIMATE", e["pipe"]))
        return tuple(out)
    seen, chosen, rest = set(), [], []
    for s in multi:
        k = stratum(s)
        (rest if k in seen else chosen).append(s)
        seen.add(k)
    budget = 140 if quick else 1500
    chosen = (chosen + rest)[:budget] if len(chosen) < budget else chosen[:budget]
    ctx.notes["session_strata"] = len(seen)
    counter = itertools.count(ctx.seed)

    def pick(cls):
        i = next(counter)
        opts = CLASS[cls]
        return [opts[i % len(opts)]]
    for s in chosen:
        tr = run_session(s, pick, refs, timelimit)
        traces.append(tr)
        ctx.case("session:" + json.dumps(s, sort_keys=True))
    ctx.sample(traces[-1])
    ctx.notes["sessions_replayed"] = len(chosen)
    ctx.notes["runs"] = sum(1 for t in traces for e in t if e["e"] == "Run")
    ctx.assumptions.append("fftw.planning_timelimit is set to %.1f s for the replay (the default 60 s only bounds planning time); 'mkl' is not installed and not explored" % timelimit)
    ctx.assumptions.append("oracle is metamorphic: every configuration is compared with the same code under numpy/float64; a change that alters all configurations alike is invisible here (C01-C07 cover values)")
    judge(ctx, traces, facts)


def replay(ctx: Ctx, case):
    refs = Refs()
    facts = {"s_matrix_dtype_under_float64": s_matrix_dtype_under_float64()}
    abstract = []
    for e in case["session"]:
        if e["e"] == "Run":
            abstract.append({"e": "Run", "pipe": e["pipe"]})
        elif e["e"] != "End":
            abstract.append(e)
    # drop the trailing Exits the recorder appended: run_session closes open contexts itself
    depth, keep = 0, []
    for e in abstract:
        if e["e"] == "Enter":
            depth += 1
        if e["e"] == "Exit":
            if depth == 0:
                continue
            depth -= 1
        keep.append(e)
    tr = run_session(keep, lambda n: [n], refs, 0.3)
    ctx.case("replay")
    ctx.sample(tr)
    judge(ctx, [tr], facts)
