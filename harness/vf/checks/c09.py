"""C09  The independent-atom potential is additive and slicing conserves it.

design  : TLC enumerates SlicingImpl (cumulative-thickness bin edges nudged down, digitize) for every cell height, every slicing
          (all compositions) and every atom height on the quarter lattice: each atom in exactly one slice, boundary atoms in the
          upper slice, thicknesses sum to the height
inputs  : every enumerated slicing on real potentials with one atom per lattice height (length units 1.0, 0.5 and the non-dyadic
          0.3 / 0.1 to exercise cumulative-sum drift); additivity over splits of the atom set; re-slicing under infinite projection
verdict : SlicingTrace: observed slice of every atom = SliceOf (integer arithmetic); union = sum; projection independent of slicing
"""
from __future__ import annotations

import json
import random

import numpy as np

from ..core import Ctx, Machinery
from ..rat import ppb
from .. import tlc
from ..ms import relerr

CFG = """SPECIFICATION Spec
CONSTANTS
  MaxH = {h}
  Emit = TRUE
INVARIANT ExactlyOneSlice
INVARIANT BoundaryGoesUp
INVARIANT SumsToHeight
INVARIANT EmitCase
CHECK_DEADLOCK FALSE
"""
LATERAL = 6.0


def assign_event(c, unit, accumulate):
    """one atom per quarter-lattice height; unit = length of 4 quarter units"""
    import abtem
    from ase import Atoms
    q = unit / 4.0
    heights = list(range(c["height"]))
    th_units = [t for t in c["th"]]
    if accumulate:            # thicknesses and heights built by repeated addition (drift) rather than multiplication
        th = [float(np.sum([q] * t)) for t in th_units]
        zs = [float(np.sum([q] * z)) if z else 0.0 for z in heights]
    else:
        th = [t * q for t in th_units]
        zs = [z * q for z in heights]
    ev = {"k": "assign", "case": c, "unit": str(unit), "accumulate": accumulate, "raised": False, "th": th_units, "height": c["height"],
          "z": heights, "found": [[] for _ in heights], "reported_ok": True, "near_z": [], "near_found": []}
    try:
        xs = [0.2 + 0.9 * (i % 6) for i in range(len(zs))]
        ys = [0.3 + 0.8 * (i // 6) for i in range(len(zs))]
        # atoms a hair below every slice boundary and the top face, one given as z = -eps (wraps to the top), two beside lateral faces
        H = float(np.sum(th))
        eps = 1e-9
        edges, acc = [], 0
        for t in th_units:
            acc += t
            edges.append(acc)
        near = [(0.25 + 0.7 * (j % 8), 4.1 + 0.6 * (j // 8), float(np.sum(th[: j + 1])) - eps, e) for j, e in enumerate(edges)]
        near.append((5.3, 5.3, -eps, edges[-1]))
        near.append((LATERAL - eps, 3.3, float(np.sum(th[:1])) - eps, edges[0]))
        near.append((2.9, LATERAL - eps, H - eps, edges[-1]))
        ev["near_z"] = [int(e) for *_xyz, e in near]
        ev["near_found"] = [[] for _ in near]
        atoms = Atoms("C" * (len(zs) + len(near)), positions=list(zip(xs, ys, zs)) + [(x, y, z) for x, y, z, _e in near],
                      cell=(LATERAL, LATERAL, H), pbc=True)
        pot = abtem.Potential(atoms, gpts=8, slice_thickness=tuple(th), projection="infinite")
        ev["reported_ok"] = bool(len(pot.slice_thickness) == len(th) and abs(sum(pot.slice_thickness) - atoms.cell[2, 2]) < 1e-9)
        sl = pot.get_sliced_atoms()
        for k in range(len(th)):
            a = sl.get_atoms_in_slices(k)
            for p in a.positions:
                hit = [j for j, (x, y, _z, _e) in enumerate(near)
                       if min(abs(p[0] - x), LATERAL - abs(p[0] - x)) < 1e-6 and min(abs(p[1] - y), LATERAL - abs(p[1] - y)) < 1e-6]
                if hit:
                    ev["near_found"][hit[0]].append(k + 1)
                    continue
                i = int(round((p[0] - 0.2) / 0.9)) + 6 * int(round((p[1] - 0.3) / 0.8))
                if 0 <= i < len(zs):
                    ev["found"][i].append(k + 1)
    except Exception as ex:
        ev["raised"] = True
        ev["exc"] = f"{type(ex).__name__}: {ex}"[:300]
    return ev


def additive_event(rng, projection):
    import abtem
    from ase import Atoms
    n = rng.randint(2, 6)
    syms = [rng.choice(["Si", "C", "O", "Au"]) for _ in range(n)]
    pos = [(rng.uniform(0, 5), rng.uniform(0, 5), rng.uniform(0.1, 5.9)) for _ in range(n)]
    ev = {"k": "additive", "n": n, "syms": syms, "projection": projection, "raised": False, "err_ppb": 0}
    try:
        cell = (5.0, 5.0, 6.0)
        mk = lambda idx: abtem.Potential(Atoms([syms[i] for i in idx], positions=[pos[i] for i in idx], cell=cell, pbc=True), gpts=20,
                                         slice_thickness=1.5, projection=projection).build(lazy=False).array
        cut = rng.randint(1, n - 1)
        idx = list(range(n))
        rng.shuffle(idx)
        whole = np.asarray(mk(list(range(n))))
        parts = np.asarray(mk(sorted(idx[:cut]))) + np.asarray(mk(sorted(idx[cut:])))
        ev["err_ppb"] = ppb(relerr(parts, whole))
    except Exception as ex:
        ev["raised"] = True
        ev["exc"] = f"{type(ex).__name__}: {ex}"[:300]
    return ev


def column_event(rng, split):
    """atomic columns: several atoms of one element above each other (same or adjacent pixel), so that thick slices hold more than
    one of them; split=True checks additivity over a split of the column, split=False independence of the slicing"""
    import abtem
    from ase import Atoms
    ev = {"k": "additive" if split else "reslice", "column": True, "raised": False, "err_ppb": 0, "projection": "infinite"}
    try:
        H = 6.0
        x, y = rng.uniform(1, 4), rng.uniform(1, 4)
        zs = [0.4, 1.1, 2.3, 2.9, 4.2, 5.5]
        pos = [(x + 0.01 * i, y - 0.02 * i, z) for i, z in enumerate(zs)] + [(x + 2.0, y, 1.0), (x + 2.0, y, 1.2)]
        syms = ["Si"] * len(zs) + ["C", "C"]
        cell = (6.0, 6.0, H)
        if split:
            mk = lambda idx: np.asarray(abtem.Potential(Atoms([syms[i] for i in idx], positions=[pos[i] for i in idx], cell=cell, pbc=True), gpts=24,
                                                        slice_thickness=3.0, projection="infinite").build(lazy=False).array)
            idx = list(range(len(pos)))
            a, b = idx[0::2], idx[1::2]
            ev["err_ppb"] = ppb(relerr(mk(a) + mk(b), mk(idx)))
        else:
            atoms = Atoms(syms, positions=pos, cell=cell, pbc=True)
            pr = lambda th: np.asarray(abtem.Potential(atoms, gpts=24, slice_thickness=th, projection="infinite").project().array)
            ev["err_ppb"] = ppb(max(relerr(pr(6.0), pr(0.5)), relerr(pr((2.0, 4.0)), pr(0.5))))
    except Exception as ex:
        ev["raised"] = True
        ev["exc"] = f"{type(ex).__name__}: {ex}"[:300]
    return ev


def reslice_event(c1, c2, rng):
    """same atoms, two slicings of the same height: projected potential must agree (infinite projection)"""
    import abtem
    from ase import Atoms
    ev = {"k": "reslice", "th1": c1["th"], "th2": c2["th"], "raised": False, "err_ppb": 0}
    try:
        H = c1["height"] * 0.25
        n = 5
        pos = [(rng.uniform(0, 5), rng.uniform(0, 5), rng.uniform(0.0, H - 1e-3)) for _ in range(n)]
        pos[0] = (1.0, 1.0, c1["th"][0] * 0.25 if len(c1["th"]) > 1 else 0.0)     # one atom exactly on a boundary of the first slicing
        atoms = Atoms("SiCOSiC", positions=pos, cell=(5.0, 5.0, H), pbc=True)
        pr = lambda th: np.asarray(abtem.Potential(atoms, gpts=20, slice_thickness=tuple(t * 0.25 for t in th), projection="infinite").project().array)
        ev["err_ppb"] = ppb(relerr(pr(c2["th"]), pr(c1["th"])))
    except Exception as ex:
        ev["raised"] = True
        ev["exc"] = f"{type(ex).__name__}: {ex}"[:300]
    return ev


def history_events(h, rng):
    """One TLC history of inspections replayed on ONE Potential object; every Build / Project in it is compared with a fresh
    potential and with the sum of the per-element potentials (additivity)."""
    import abtem
    from ase import Atoms
    cell = (4.0, 5.0, 4.5)
    th = (1.0, 2.0, 1.5)
    pos = [(0.5, 0.5, 0.0), (1.0, 3.0, 0.4), (2.0, 1.0, 1.0), (3.0, 4.0, 2.2), (1.5, 2.5, 3.0), (2.5, 0.5, 3.2), (3.5, 3.5, 4.0), (0.7, 4.1, 2.9)]
    syms = ["Si", "C", "C", "Si", "Si", "C", "C", "Si"]
    atoms = Atoms(syms, positions=pos, cell=cell, pbc=True)
    Z = {"A": 14, "B": 6}
    mk = lambda a: abtem.Potential(a, gpts=(16, 20), slice_thickness=th, projection="infinite")
    out = []
    try:
        fresh_build = np.asarray(mk(atoms).build(lazy=False).array, dtype=np.float64)
        parts_build = sum(np.asarray(mk(atoms[atoms.numbers == z]).build(lazy=False).array, dtype=np.float64) for z in Z.values())
        fresh_proj = np.asarray(mk(atoms).project().array, dtype=np.float64)
        pot = mk(atoms)
        sliced = pot.get_sliced_atoms()
        for i, st in enumerate(h):
            a = st["a"]
            last = None if st["last"] < 0 else st["last"]
            if a == "QueryAll":
                sliced.get_atoms_in_slices(st["first"], last)
            elif a == "QueryElement":
                sliced.get_atoms_in_slices(st["first"], last, atomic_number=Z[st["element"]])
            elif a == "GenerateWindow":
                list(pot.generate_slices(st["first"], st["last"]))
            elif a == "Build":
                got = np.asarray(pot.build(lazy=False).array, dtype=np.float64)
                err = max(relerr(got, fresh_build), relerr(got, parts_build)) if got.shape == fresh_build.shape else 2.0
                out.append({"k": "additive", "history": [s["a"] + ":" + str(s["element"]) for s in h[: i + 1]], "raised": False, "err_ppb": ppb(err), "projection": "infinite"})
            elif a == "Project":
                got = np.asarray(pot.project().array, dtype=np.float64)
                err = relerr(got, fresh_proj) if got.shape == fresh_proj.shape else 2.0
                out.append({"k": "reslice", "history": [s["a"] + ":" + str(s["element"]) for s in h[: i + 1]], "raised": False, "err_ppb": ppb(err), "projection": "infinite"})
    except Exception as ex:
        out.append({"k": "additive", "history": [s["a"] for s in h], "raised": True, "exc": f"{type(ex).__name__}: {ex}"[:300], "err_ppb": 0})
    return out


def tags_for(ev, clauses):
    return {"clauses": sorted(clauses), "k": ev["k"], "unit": ev.get("unit"), "accumulate": ev.get("accumulate"), "projection": ev.get("projection"), "after_history": "history" in ev}


def judge(ctx: Ctx, evs):
    res = ctx.validate("SlicingTrace", [[e] for e in evs], "SlicingTrace.cfg")
    for e, (ok, bad) in zip(evs, res):
        if not ok:
            tg = tags_for(e, bad[0][1])
            ctx.report(tg, {"event": e}, f"{e['k']}: {','.join(tg['clauses'])}: {json.dumps({k: v for k, v in e.items() if k not in ('case',)}, default=str)[:300]}")


def self_test(ctx: Ctx):
    good = {"k": "assign", "raised": False, "th": [2, 4], "height": 6, "z": [0, 1, 2, 3, 4, 5], "found": [[1], [1], [2], [2], [2], [2]], "reported_ok": True, "near_z": [2, 6, 6], "near_found": [[1], [2], [2]]}
    b1 = dict(good, found=[[1], [1], [1], [2], [2], [2]])            # boundary atom in the lower slice
    b2 = dict(good, found=[[1], [1], [2], [2], [2], []])             # an atom lost
    b3 = dict(good, found=[[1], [1], [1, 2], [2], [2], [2]])         # an atom twice
    a = {"k": "additive", "raised": False, "err_ppb": 10 ** 7}
    res = ctx.validate("SlicingTrace", [[good], [b1], [b2], [b3], [a]], "SlicingTrace.cfg")
    if not res[0][0] or any(r[0] for r in res[1:]):
        raise Machinery(f"SlicingTrace self-test failed: {res}")
    ctx.notes["binding_selftest"] = {"good_accepted": True, "boundary_atom_lower_rejected": res[1][1], "lost_atom_rejected": res[2][1],
                                    "duplicated_atom_rejected": res[3][1], "non_additive_rejected": res[4][1]}


def run(ctx: Ctx):
    quick = ctx.tier == "quick"
    ctx.rule = ("slicings = all compositions of the cell height (half-unit thicknesses) for heights <= H, enumerated by TLC; one atom "
                "at every quarter-lattice height (boundaries, just above, just below in lattice terms), for length units 1.0, 0.5, 0.3 "
                "and 0.1, thicknesses/heights formed by multiplication and by repeated addition, plus long uniform slicings (20-40 slices of "
                "0.1 / 0.3 / 0.9); additivity over random splits and over splits of an atomic column (several atoms per slice and pixel) "
                "(infinite and finite projection); re-slicing pairs; histories of inspections (slice-window queries for all / one element, projection, window generation) on one Potential object followed by a build, enumerated by TLC from SlicingHist.tla; non-trivial = more than one slice")
    r = ctx.design_check("SlicingImpl", cfg_text=CFG.format(h=4 if quick else 6), label="SlicingImpl=>Slicing", workers=1, timeout=3000)
    self_test(ctx)
    cases = [json.loads(tlc.tla_value_to_py(s)[1]) for s in r.printed("CASE")]
    ctx.notes["slicings_from_tlc"] = len(cases)
    rng = random.Random(ctx.seed)
    evs = []
    for c in cases:
        for unit in (1.0, 0.5, 0.3, 0.1):
            for acc in (False, True):
                evs.append(assign_event(c, unit, acc))
                ctx.case(("assign", json.dumps(c), unit, acc), nontrivial=len(c["th"]) > 1)
    # long uniform slicings (not from the bounded enumeration): cumulative-sum drift needs many slices of a non-dyadic thickness
    for th in ([1] * 40, [2] * 20, [1, 3] * 10):
        for unit in (0.4, 1.2, 3.6):
            for acc in (False, True):
                c = {"height": 40, "th": th}
                evs.append(assign_event(c, unit, acc))
                ctx.case(("assign-long", json.dumps(c), unit, acc))
    for j in range(10 if quick else 200):
        evs.append(additive_event(rng, "infinite" if j % 3 else "finite"))
        ctx.case(("additive", j))
    for j in range(3 if quick else 30):
        evs.append(column_event(rng, True))
        evs.append(column_event(rng, False))
        ctx.case(("column", j))
    by_h = {}
    for c in cases:
        by_h.setdefault(c["height"], []).append(c)
    for h, lst in by_h.items():
        for j in range(min(len(lst) - 1, 6 if quick else 40)):
            evs.append(reslice_event(lst[j], lst[-1 - j], rng))
            ctx.case(("reslice", h, j))
    # histories of inspections on one Potential object, then build / project
    hcfg = ("SPECIFICATION Spec\nCONSTANTS\n  MaxLen = %d\n  Emit = TRUE\n  CacheIgnoresElement = FALSE\nINVARIANT BuildContainsEveryAtom\n"
            "INVARIANT EmitHistory\nCHECK_DEADLOCK FALSE\n" % (3 if quick else 4))
    rh = ctx.design_check("SlicingHist", cfg_text=hcfg, label="histories: the build does not depend on earlier inspections", workers=1)
    hists = [json.loads(tlc.tla_value_to_py(s)[1]) for s in rh.printed("HIST")]
    hists.sort(key=lambda h: json.dumps(h, sort_keys=True))
    rng.shuffle(hists)
    if quick:
        seen, first, rest = set(), [], []
        for h in hists:
            k = tuple(st["a"] for st in h)
            (rest if k in seen else first).append(h)
            seen.add(k)
        hists = first + rest[:40]
    nh = 0
    for h in hists:
        hev = history_events(h, rng)
        evs.extend(hev)
        nh += 1
        ctx.case(("history", json.dumps(h, sort_keys=True)))
    ctx.notes["histories"] = nh
    ctx.exhaustive = True
    for e in evs[:1] + evs[-1:]:
        ctx.sample(e)
    judge(ctx, evs)


def replay(ctx: Ctx, case):
    e = case["event"]
    if e["k"] != "assign":
        raise Machinery("numeric C09 replays are re-run by the full check")
    ev = assign_event(e["case"], float(e["unit"]), e["accumulate"])
    ctx.case("replay")
    ctx.sample(ev)
    judge(ctx, [ev])
