"""C22  Cartesian and polar aberration conversions describe the same aberration.

design  : TLC enumerates ConversionsImpl (sign / arctan2 branch structure of polar2cartesian and cartesian2polar, angles as
          integers in units of pi/288) for every supported coefficient, magnitude in {-2..2} and angle on the pi/24 lattice
          and checks the round trip stays in the class (C, phi) ~ (-C, phi + pi/m)
inputs  : every enumerated case on the real functions (single coefficient + isotropic terms) and seeded joint cases with all
          12 coefficients set
verdict : ConversionsTrace: decoded (C', phi') in the same class (integer arithmetic), isotropic terms unchanged, chi equal
          on a 7x16 grid (deviation logged)
"""
from __future__ import annotations

import json
import math
import random

import numpy as np

from ..core import Ctx, Machinery
from ..rat import ppb
from .. import tlc

CFG = """SPECIFICATION Spec
CONSTANTS
  Mags <- MC_Mags
  Emit = TRUE
INVARIANT ExactDivision
INVARIANT ClassPreserved
INVARIANT EmitCase
CHECK_DEADLOCK FALSE
"""
UNIT = math.pi / 288
ORDER_N = {"C12": 1, "C21": 2, "C23": 2, "C32": 3, "C34": 3}
ORDER_M = {"C12": 2, "C21": 1, "C23": 3, "C32": 2, "C34": 4}
ANGLE = {"C12": "phi12", "C21": "phi21", "C23": "phi23", "C32": "phi32", "C34": "phi34"}
SCALE = {1: 40.0, 2: 2.0e3, 3: 9.0e4}


def chi(polar, A, P):
    out = np.zeros_like(A)
    out = out + polar.get("C10", 0.0) * A ** 2 / 2 + polar.get("C30", 0.0) * A ** 4 / 4
    for s in ORDER_N:
        n, m = ORDER_N[s], ORDER_M[s]
        out = out + polar.get(s, 0.0) * A ** (n + 1) / (n + 1) * np.cos(m * (P - polar.get(ANGLE[s], 0.0)))
    return out


def convert_event(assign, iso, form="scalar"):
    """assign: {sym: (C id, phi units)}; iso: (C10 id, C30 id)
    form: "scalar" (Python floats), "numpy" (NumPy scalars) or "series" (every coefficient a length-2 array: the case next to a second
    set of values; the conversions act element by element, member 0 is judged by the trace, member 1 through chi)"""
    from abtem.transfer import polar2cartesian, cartesian2polar
    polar = {"C10": iso[0] * 10.0, "C30": iso[1] * 1.0e4}
    for s, (c, p) in assign.items():
        polar[s] = c * SCALE[ORDER_N[s]]
        polar[ANGLE[s]] = p * UNIT
    ev = {"assign": {s: list(v) for s, v in assign.items()}, "iso": list(iso), "form": form, "raised": False, "terms": [], "iso_ok": True, "chi_ppb": 0}
    try:
        if form == "series":
            other = {k: (v * 1.5 + (2.0 * UNIT if k.startswith("phi") else 0.0)) for k, v in polar.items()}
            both = cartesian2polar(polar2cartesian({k: np.array([polar[k], other[k]]) for k in polar}))
            member = lambda i: {k: float(np.broadcast_to(np.asarray(v, dtype=float), (2,))[i]) for k, v in both.items()}
            back = member(0)
        else:
            src = {k: (np.float64(v) if form == "numpy" else v) for k, v in polar.items()}
            back = cartesian2polar(polar2cartesian(src))
        back = {k: float(v) for k, v in back.items()}
        for s, (c, p) in assign.items():
            c2 = back[s] / SCALE[ORDER_N[s]]
            p2 = back[ANGLE[s]] / UNIT
            dec = abs(c2 - round(c2)) < 1e-9 and abs(p2 - round(p2)) < 1e-6
            ev["terms"].append({"sym": s, "C": int(c), "phi": int(p), "C2": int(round(c2)), "phi2": int(round(p2)), "decodable": bool(dec)})
        ev["iso_ok"] = back["C10"] == polar["C10"] and back["C30"] == polar["C30"]
        a = np.linspace(0.0, 0.03, 7)
        ph = np.linspace(-np.pi, np.pi, 16, endpoint=False)
        A, P = np.meshgrid(a, ph, indexing="ij")
        x0, x1 = chi(polar, A, P), chi(back, A, P)
        ev["chi_ppb"] = ppb(float(np.abs(x1 - x0).max()) / max(float(np.abs(x0).max()), 1e-30))
        if form == "series":
            y0, y1 = chi(other, A, P), chi(member(1), A, P)
            ev["chi_ppb"] = max(ev["chi_ppb"], ppb(float(np.abs(y1 - y0).max()) / max(float(np.abs(y0).max()), 1e-30)))
    except Exception as ex:
        ev["raised"] = True
        ev["exc"] = f"{type(ex).__name__}: {ex}"[:200]
    return ev


def tags_for(ev, clauses):
    return {"clauses": sorted(clauses), "syms": sorted(ev["assign"]), "negative_magnitude": any(v[0] < 0 for v in ev["assign"].values())}


def judge(ctx: Ctx, evs):
    res = ctx.validate("ConversionsTrace", [[e] for e in evs], "ConversionsTrace.cfg")
    for e, (ok, bad) in zip(evs, res):
        if not ok:
            tg = tags_for(e, bad[0][1])
            ctx.report(tg, {"event": e}, f"{tg['syms']}: {','.join(tg['clauses'])}: {json.dumps(e['terms'])[:240]} chi_ppb={e['chi_ppb']} {e.get('exc', '')}")


def self_test(ctx: Ctx):
    good = {"raised": False, "iso_ok": True, "chi_ppb": 3, "terms": [{"sym": "C12", "C": 1, "phi": 24, "C2": -1, "phi2": -120, "decodable": True}]}
    b1 = {"raised": False, "iso_ok": True, "chi_ppb": 3, "terms": [{"sym": "C12", "C": 1, "phi": 24, "C2": -1, "phi2": 24, "decodable": True}]}
    b2 = dict(good, chi_ppb=10 ** 7)
    res = ctx.validate("ConversionsTrace", [[good], [b1], [b2]], "ConversionsTrace.cfg")
    if not res[0][0] or res[1][0] or res[2][0]:
        raise Machinery(f"ConversionsTrace self-test failed: {res}")
    ctx.notes["binding_selftest"] = {"good_accepted": True, "wrong_class_rejected": res[1][1], "chi_mismatch_rejected": res[2][1]}


def run(ctx: Ctx):
    quick = ctx.tier == "quick"
    ctx.rule = ("(coefficient pair, signed magnitude, angle on the pi/24 lattice over [-pi, pi]) for C12/phi12, C21/phi21, C23/phi23, "
                "C32/phi32, C34/phi34, all enumerated by TLC (1225 cases, with C10 and C30 set alongside), plus seeded joint cases "
                "with all pairs set; non-trivial = non-zero magnitude")
    r = ctx.design_check("MCConversions", cfg_text=CFG, label="ConversionsImpl=>Conversions", workers=1)
    self_test(ctx)
    cases = [json.loads(tlc.tla_value_to_py(s)[1]) for s in r.printed("CASE")]
    evs, drift = [], 0
    for j, m in enumerate(cases):
        c = m["c"]
        ev = convert_event({c["sym"]: (c["C"], c["phi"])}, iso=((j % 3) - 1, (j % 2)), form=("scalar", "scalar", "numpy", "series")[j % 4])
        evs.append(ev)
        ctx.case(json.dumps(c), nontrivial=c["C"] != 0)
        if not ev["raised"] and c["C"] != 0:
            t = ev["terms"][0]
            if [t["C2"], t["phi2"]] != m["back"]:
                drift += 1
                if len(ctx.drift) < 10:
                    ctx.drift.append({"case": c, "model": m["back"], "code": [t["C2"], t["phi2"]]})
    ctx.exhaustive = True
    ctx.notes["model_drift_count"] = drift
    rng = random.Random(ctx.seed)
    for _ in range(400 if quick else 100000):
        assign = {s: (rng.choice([-2, -1, 1, 2, 0]), 12 * rng.randint(-24, 24)) for s in ORDER_N}
        evs.append(convert_event(assign, iso=(rng.choice([-1, 0, 2]), rng.choice([0, 1])), form=rng.choice(["scalar", "numpy", "series"])))
        ctx.case(("joint", json.dumps(assign)))
    for e in evs[:2] + evs[-1:]:
        ctx.sample(e)
    judge(ctx, evs)


def replay(ctx: Ctx, case):
    e = case["event"]
    ev = convert_event({s: tuple(v) for s, v in e["assign"].items()}, tuple(e["iso"]), e.get("form", "scalar"))
    ctx.case("replay")
    ctx.sample(ev)
    judge(ctx, [ev])
