"""C05  Built probes and plane waves are normalized.

design  : TLC enumerates the build space of Norm.tla (grid parity/aspect x aperture cutoff class x soft/hard x aberration set x tilt x
          position class x lazy/eager; plane waves with and without normalisation)
inputs  : every enumerated build (thorough) / a seeded sample (quick) on the real Probe / PlaneWave builders
verdict : NormTrace: sum |FFT psi|^2 (computed by numpy from the built array) = 1 for every probe in the ensemble and every
          normalised plane wave; unit modulus at every pixel for un-normalised plane waves
"""
from __future__ import annotations

import json
import random
import warnings

import numpy as np

from ..core import Ctx, Machinery
from ..rat import fixed
from .. import tlc

AB = {"none": {}, "defocus": {"defocus": 120.0}, "C30": {"C30": 2e6}, "C12": {"C12": 80.0, "phi12": 0.6}, "C21": {"C21": 2500.0, "phi21": -0.9},
      "C23": {"C23": 1800.0, "phi23": 0.3}, "C32": {"C32": 6e4, "phi32": 1.1}, "C34": {"C34": 9e4, "phi34": -0.4}, "C45": {"C45": 3e6, "phi45": 0.2},
      "C56": {"C56": 1.2e8, "phi56": 0.5}, "cs_defocus": {"Cs": -1.5e6, "defocus": -300.0}, "astig_coma": {"astigmatism": 60.0, "coma": 1500.0, "coma_angle": 2.0}}


from ..routes import reroute


def _route_index(c):
    import zlib
    return zlib.crc32(json.dumps(c, sort_keys=True, default=str).encode())


def observe(c):
    import abtem
    gpts = tuple(c["gpts"])
    extent = (8.0, 8.0 * gpts[1] / gpts[0]) if gpts[0] != gpts[1] else (8.0, 8.0)
    ev = {"kind": c["kind"], "case": c, "raised": False, "intensity_fp": [], "modulus_min_fp": 0, "modulus_max_fp": 0}
    try:
        with warnings.catch_warnings():
            warnings.simplefilter("ignore")
            tilt = {"none": (0.0, 0.0), "tilted": (5.0, 3.0),
                    "tilt_distribution": (abtem.distributions.uniform(-5.0, 5.0, 3), 2.0),
                    "tilt_pairs": np.array([[3.0, 0.0], [0.0, -4.0], [2.0, 2.0], [-1.0, 5.0]])}[c["tilt"]]
            ab = dict(AB.get(c["ab"], {}))
            if c["ab"] == "defocus_gaussian":
                ab = {"defocus": abtem.distributions.gaussian(center=50.0, standard_deviation=30.0, num_samples=5, sampling_limit=2.0)}
            elif c["ab"] == "cs_series":
                ab = {"Cs": abtem.distributions.uniform(-1e6, 1e6, 3), "defocus": 40.0}
            if c["kind"] == "probe":
                from abtem.core.energy import energy2wavelength
                lam = energy2wavelength(100e3)
                nyq = min(gpts[0] / extent[0], gpts[1] / extent[1]) / 2 * lam * 1e3
                cutoff = {"small": 0.12 * nyq, "mid": 0.35 * nyq, "near_antialias": 0.63 * nyq, "beyond_antialias": 0.8 * nyq}[c["cutoff"]]
                probe = abtem.Probe(energy=100e3, semiangle_cutoff=cutoff, soft=c["soft"], extent=extent, gpts=gpts, tilt=tilt, **ab)
                probe, ev["route"] = reroute(probe, _route_index(c))          # the builder reaches build() through a copy / deepcopy / pickle
                sx, sy = extent[0] / gpts[0], extent[1] / gpts[1]
                scan = {"origin": abtem.CustomScan(np.array([[0.0, 0.0]])), "off_grid": abtem.CustomScan(np.array([[2.37 * sx, 5.61 * sy]])),
                        "several": abtem.CustomScan(np.array([[0.0, 0.0], [1.5 * sx, 0.0], [3.3, 4.4]])),
                        "outside_cell": abtem.CustomScan(np.array([[-1.3, extent[1] + 0.7], [2 * extent[0], -3.0]])),
                        "grid_scan": abtem.GridScan(start=(0, 0), end=(2.0, 1.5), gpts=(2, 3))}[c["pos"]]
                w = probe.build(scan=scan, lazy=c["lazy"])
                builder = probe
            else:
                builder = abtem.PlaneWave(energy=100e3, extent=extent, gpts=gpts, tilt=tilt, normalize=(c["kind"] == "plane_normalized"))
                builder, ev["route"] = reroute(builder, _route_index(c))
                w = builder.build(lazy=c["lazy"])
            for ed in c.get("edits", []):
                # the same builder object, edited after it has been built once
                if c["lazy"]:
                    w.compute()
                try:
                    _apply_edit(builder, ed, extent, gpts)
                except AttributeError as ex:          # the attribute cannot be edited in this version of the API: nothing to judge
                    ev["skipped"] = f"edit {ed}: {ex}"[:120]
                    return ev
                w = builder.build(scan=scan, lazy=c["lazy"]) if c["kind"] == "probe" else builder.build(lazy=c["lazy"])
            if c["lazy"]:
                w = w.compute()
            a = np.asarray(w.array).astype(np.complex128)
            a = a.reshape((-1,) + a.shape[-2:])
            ev["intensity_fp"] = [fixed(float((np.abs(np.fft.fft2(x)) ** 2).sum())) for x in a]
            ev["modulus_min_fp"], ev["modulus_max_fp"] = fixed(float(np.abs(a).min())), fixed(float(np.abs(a).max()))
    except Exception as ex:
        ev["raised"] = True
        ev["exc"] = f"{type(ex).__name__}: {ex}"[:300]
    return ev


def _apply_edit(builder, ed, extent, gpts):
    if ed == "energy":
        builder.energy = 200e3 if builder.energy != 200e3 else 60e3
    elif ed == "extent":
        builder.extent = (extent[0] * 1.5, extent[1] * 1.25)
    elif ed == "gpts":
        builder.gpts = (gpts[0] + 5, gpts[1] + 2)
    elif ed == "sampling":
        builder.sampling = (0.31, 0.27)
    elif ed == "cutoff":
        builder.aperture.semiangle_cutoff = float(builder.aperture.semiangle_cutoff) * 0.6
    elif ed == "defocus":
        builder.aberrations.defocus = -80.0
    elif ed == "Cs":
        builder.aberrations.Cs = 3e5
    elif ed == "tilt":
        builder.tilt = (-2.0, 4.5)


def tags_for(ev, clauses):
    c = ev["case"]
    return {"clauses": sorted(clauses), "kind": c["kind"], "cutoff": c["cutoff"], "soft": c["soft"], "ab": c["ab"], "tilt": c["tilt"], "pos": c["pos"],
            "edits": list(c.get("edits", []))}


def judge(ctx: Ctx, evs):
    res = ctx.validate("NormTrace", [[e] for e in evs], "NormTrace.cfg")
    for e, (ok, bad) in zip(evs, res):
        if not ok:
            tg = tags_for(e, bad[0][1])
            ctx.report(tg, {"event": e}, f"{json.dumps(e['case'])}: {','.join(tg['clauses'])} intensity={e['intensity_fp'][:4]} modulus=[{e['modulus_min_fp']},{e['modulus_max_fp']}] {e.get('exc', '')}")


def self_test(ctx: Ctx):
    g = {"kind": "probe", "raised": False, "intensity_fp": [1000003, 999998], "modulus_min_fp": 0, "modulus_max_fp": 0}
    res = ctx.validate("NormTrace", [[g], [dict(g, intensity_fp=[1000003, 1020000])], [{"kind": "plane_raw", "raised": False, "intensity_fp": [5], "modulus_min_fp": 990000,
                                                                                          "modulus_max_fp": 1000000}]], "NormTrace.cfg")
    if not res[0][0] or res[1][0] or res[2][0]:
        raise Machinery(f"NormTrace self-test failed: {res}")
    ctx.notes["binding_selftest"] = {"good_accepted": True, "unnormalised_member_rejected": res[1][1], "non_unit_modulus_rejected": res[2][1]}


def run(ctx: Ctx):
    quick = ctx.tier == "quick"
    ctx.rule = ("builds = grid (even/odd square, two rectangular) x cutoff class (small .. beyond the antialias aperture) x soft/hard x "
                "aberration set (14: none, 9 single symbols with angles, 2 combinations, a Gaussian defocus distribution, a Cs series) x tilt "
                "(none, scalar, one distribution + scalar, array of pairs) x position class (origin, off-grid, several, "
                "outside the cell, grid scan) x lazy/eager, plus plane waves (normalised / raw x tilt x grid x lazy/eager), enumerated by "
                "TLC; plus histories: one builder object built, edited through its attributes (energy, extent, gpts, sampling, cutoff, defocus, "
                "Cs, tilt; one or two edits) and built again; every member of every built ensemble is measured; non-trivial = every build")
    r = ctx.design_check("Norm", "Norm.cfg", label="build space", workers=1)
    self_test(ctx)
    cases = [json.loads(tlc.tla_value_to_py(s)[1]) for s in r.printed("CASE")]
    ctx.notes["builds_from_tlc"] = len(cases)
    rng = random.Random(ctx.seed)
    cases.sort(key=lambda c: json.dumps(c, sort_keys=True))
    rng.shuffle(cases)
    hists = [c for c in cases if "edits" in c]
    cases = [c for c in cases if "edits" not in c]
    planes = [c for c in cases if c["kind"] != "probe"] + (hists[:90] if quick else hists)
    probes = [c for c in cases if c["kind"] == "probe"]
    if quick:
        probes = probes[:400]
    else:
        ctx.exhaustive = True
    evs = []
    for c in planes + probes:
        e = observe(c)
        if e.get("skipped"):
            ctx.notes["edits_not_offered_by_the_api"] = ctx.notes.get("edits_not_offered_by_the_api", 0) + 1
            continue
        evs.append(e)
        ctx.case(json.dumps(c, sort_keys=True))
    for e in evs[:1] + evs[-1:]:
        ctx.sample(e)
    judge(ctx, evs)


def replay(ctx: Ctx, case):
    ev = observe(case["event"]["case"])
    ctx.case("replay")
    ctx.sample(ev)
    judge(ctx, [ev])
