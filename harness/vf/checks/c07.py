"""C07  Thickness series are consistent with truncated simulations.

design  : TLC explores MultisliceImpl (configuration loop, entrance-plane detection, slice loop, detection after listed
          slices, _validate_exit_planes) for every slice count <= N and every exit_planes argument (None, each int, every
          increasing tuple ending at the last slice) and checks that each recorded measurement is the wave through exactly
          the slices up to its plane
inputs  : every enumerated (slices, exit_planes) on real potentials (equal and unequal slice thicknesses), PlaneWave and
          Probe, Waves / pixelated detection, eager with hooks and lazy
verdict : MultisliceTrace: the hook events form a run of the Multislice machine (detections exactly after the listed
          slices, cumulative depth); each plane equals an independent run through the truncated potential; the thickness
          axis lists cumulative thicknesses
"""
from __future__ import annotations

import json
import random

import numpy as np

from ..core import Ctx, Machinery
from ..rat import fixed, ppb
from .. import tlc
from ..ms import Sink, relerr, arr, small_atoms

CFG = """SPECIFICATION Spec
CONSTANTS
  MaxSlices = {n}
  MaxCfgs = {k}
  Emit = TRUE
  ResetPerConfig = TRUE
  ShortcutAnyPlane = FALSE
INVARIANT PlanesWellFormed
INVARIANT RecordsCorrect
INVARIANT Complete
INVARIANT EmitCase
CHECK_DEADLOCK FALSE
"""


def exit_planes_arg(spec):
    if spec[0] == "none":
        return None
    if spec[0] == "int":
        return int(spec[1])
    return tuple(int(x) for x in spec[1])


def thicknesses(n, unequal):
    if not unequal:
        return [2.0] * n
    pat = [1.0, 2.0, 1.5, 2.5, 0.5, 3.0]
    th = [pat[i % len(pat)] for i in range(n)]
    if n >= 3 and n % 2 == 1:
        th[-1] = th[0]               # unequal slices whose first and last thickness agree (a "looks uniform" shortcut must not fire)
    return th


def run_case(c, builder, detector, unequal, lazy_too=True, crystal=False, ncfg=1):
    import abtem
    n = c["n"]
    th = thicknesses(n, unequal)
    if crystal:                      # CrystalPotential: unit of n/2 (unequal) slices repeated twice along z
        th = thicknesses(n // 2, True) * 2
    from ase import Atoms
    pos, sym, z = [], [], 0.0
    for i, t in enumerate(th):
        pos.append(((0.9 + 0.7 * i) % 4.0, (1.3 + 1.1 * i) % 4.0, z + 0.5 * t))
        sym.append(["Si", "C", "O"][i % 3])
        z += t
    atoms = Atoms(sym, positions=pos, cell=(4.0, 4.0, z), pbc=True)
    ep = exit_planes_arg(c["spec"])
    ev_result = {"e": "Result", "kind": "c07", "raised": False, "planes": list(c["planes"]), "planes_ppb": [], "axis_fp": [],
                 "slice_fp": [fixed(t) for t in th], "lazy_ppb": 0, "ncfg": ncfg,
                 "explicit": c["spec"][0] == "tuple", "reuse_ppb": 0}
    sink = Sink()
    try:
        if crystal:
            half = len(th) // 2
            unit_atoms = Atoms(sym[:half], positions=pos[:half], cell=(4.0, 4.0, sum(th[:half])), pbc=True)
            unit = abtem.Potential(unit_atoms, gpts=16, slice_thickness=tuple(th[:half]), projection="infinite")
            pot = abtem.CrystalPotential(unit, repetitions=(1, 1, 2), exit_planes=ep)
        elif ncfg > 1:
            # a frozen-phonon ensemble (configurations kept apart): every configuration has its own thickness series
            fp = abtem.FrozenPhonons(atoms, num_configs=ncfg, sigmas=0.08, seed=tuple(range(11, 11 + ncfg)), ensemble_mean=False)
            pot = abtem.Potential(fp, gpts=16, slice_thickness=tuple(th), exit_planes=ep, projection="infinite")
        else:
            pot = abtem.Potential(atoms, gpts=16, slice_thickness=tuple(th), exit_planes=ep, projection="infinite")
        if tuple(pot.exit_planes) != tuple(c["planes"]):
            ev_result["planes"] = [int(p) for p in pot.exit_planes]        # the code's own list (drift is reported separately)
        if builder == "plane":
            wave = abtem.PlaneWave(energy=100e3)
        else:
            wave = abtem.Probe(energy=100e3, semiangle_cutoff=25)
        dets = None if detector == "waves" else abtem.PixelatedDetector(max_angle=None)
        kw = {} if builder == "plane" else {"scan": abtem.CustomScan(np.array([[1.0, 1.5]]))}
        with sink:
            if builder == "plane":
                res = wave.multislice(pot, detectors=dets, lazy=False)
            else:
                res = wave.multislice(pot, detectors=dets, lazy=False, **kw)
        full = arr(res)
        parr = pot.build(lazy=False)
        planes = ev_result["planes"]
        multi = len(planes) > 1
        # incident wave / truncated runs
        for k, j, p in [(k, j, p) for k in range(ncfg) for j, p in enumerate(planes)]:
            if p == -1:
                if builder == "plane":
                    ref_obj = wave.build(lazy=False) if hasattr(wave, "build") else None
                    wv = abtem.PlaneWave(energy=100e3, extent=pot.extent, gpts=pot.gpts).build(lazy=False)
                else:
                    wv = abtem.Probe(energy=100e3, semiangle_cutoff=25, extent=pot.extent, gpts=pot.gpts).build(lazy=False, **kw)
                ref = wv if dets is None else dets.detect(wv)
            else:
                pa = np.asarray(parr.array) if ncfg == 1 else np.asarray(parr.array)[k]
                sub = abtem.PotentialArray(pa[: p + 1].copy(), slice_thickness=tuple(th[: p + 1]), sampling=parr.sampling)
                ref = wave.multislice(sub, detectors=dets, lazy=False) if builder == "plane" else wave.multislice(sub, detectors=dets, lazy=False, **kw)
            ref = np.squeeze(arr(ref))
            fk = full if ncfg == 1 else full[k]
            got = fk[j] if multi else fk
            ev_result["planes_ppb"].append(ppb(relerr(np.squeeze(got), ref)))
        if multi:
            ax = [a for a in res.ensemble_axes_metadata if type(a).__name__ == "ThicknessAxis"]
            ev_result["axis_fp"] = [fixed(v) for v in ax[0].values] if ax else []
        else:
            ev_result["axis_fp"] = [fixed(sum(th[: planes[0] + 1]))]        # a single exit plane: the result has no thickness axis
        if lazy_too:
            lz = wave.multislice(pot, detectors=dets, lazy=True) if builder == "plane" else wave.multislice(pot, detectors=dets, lazy=True, **kw)
            ev_result["lazy_ppb"] = ppb(relerr(arr(lz), full))
        # the caller's own (eager, pre-built) wave functions sent through the potential twice: both runs give the thickness series above
        # and the object still holds the incident wave afterwards
        if builder == "plane":
            wv = abtem.PlaneWave(energy=100e3, extent=pot.extent, gpts=pot.gpts).build(lazy=False)
        else:
            wv = abtem.Probe(energy=100e3, semiangle_cutoff=25, extent=pot.extent, gpts=pot.gpts).build(lazy=False, **kw)
        before = np.asarray(wv.array).copy()
        r1 = arr(wv.multislice(pot, detectors=dets))
        r2 = arr(wv.multislice(pot, detectors=dets))
        ev_result["reuse_ppb"] = max(ppb(relerr(np.squeeze(r1), np.squeeze(full))), ppb(relerr(np.squeeze(r2), np.squeeze(full))),
                                     ppb(relerr(np.asarray(wv.array), before)))
    except Exception as ex:
        ev_result["raised"] = True
        ev_result["exc"] = f"{type(ex).__name__}: {ex}"[:300]
    return sink.ms_events() + [ev_result]


def tags_for(t, bad):
    line, clauses = bad[0]
    ev = t[line - 1]
    return {"clauses": sorted(clauses), "event": ev["e"], "kind": t[-1].get("kind")}


def judge(ctx: Ctx, items):
    res = ctx.validate("MultisliceTrace", [t for _, t in items], "MultisliceTrace.cfg")
    for (meta, t), (ok, bad) in zip(items, res):
        if not ok:
            tg = tags_for(t, bad)
            ctx.report(tg, {"meta": meta, "bad": bad, "result": t[-1], "events": [e["e"] for e in t][:60]},
                       f"{json.dumps(meta)[:200]}: line {bad[0][0]} {tg['event']}: {','.join(tg['clauses'])} {t[-1].get('exc', '')}")


def self_test(ctx: Ctx):
    good = [{"e": "MsBegin", "configs": 1, "slices": 2, "exit_planes": [-1, 0, 1], "detectors": 1, "intermediate": True, "norm": 256000, "fp": 1},
            {"e": "MsConfig", "config": [0], "norm": 256000, "fp": 1},
            {"e": "MsDetect", "plane": 0, "after_slice": -1, "depth": 0},
            {"e": "MsSlice", "slice": 0, "thickness": 2000000, "depth": 2000000, "norm": 255990},
            {"e": "MsDetect", "plane": 1, "after_slice": 0, "depth": 2000000},
            {"e": "MsSlice", "slice": 1, "thickness": 2000000, "depth": 4000000, "norm": 255980},
            {"e": "MsDetect", "plane": 2, "after_slice": 1, "depth": 4000000},
            {"e": "MsEnd"},
            {"e": "Result", "kind": "c07", "raised": False, "planes": [-1, 0, 1], "planes_ppb": [0, 100, 200], "axis_fp": [0, 2000000, 4000000],
             "slice_fp": [2000000, 2000000], "ncfg": 1, "explicit": False, "reuse_ppb": 0, "lazy_ppb": 0}]
    b1 = [e for i, e in enumerate(good) if i != 4]                                   # a detection removed
    b2 = json.loads(json.dumps(good)); b2[-1]["planes_ppb"][1] = 9 * 10 ** 6          # plane differs from truncated run
    b3 = json.loads(json.dumps(good)); b3[5]["norm"] = 300000                         # intensity created
    b4 = json.loads(json.dumps(good)); b4[-1]["axis_fp"][2] = 3000000
    res = ctx.validate("MultisliceTrace", [good, b1, b2, b3, b4], "MultisliceTrace.cfg")
    if not res[0][0] or any(r[0] for r in res[1:]):
        raise Machinery(f"MultisliceTrace self-test failed: {res}")
    ctx.notes["binding_selftest"] = {"good_accepted": True, "removed_detection_rejected": res[1][1], "plane_mismatch_rejected": res[2][1],
                                    "intensity_increase_rejected": res[3][1], "thickness_axis_rejected": res[4][1]}


def run(ctx: Ctx):
    quick = ctx.tier == "quick"
    ctx.rule = ("(number of slices, exit_planes argument) enumerated by TLC from MultisliceImpl; each on real potentials with equal "
                "and unequal slice thicknesses, PlaneWave / Probe, Waves / pixelated detection, eager (hook events) and lazy; frozen-phonon ensembles of 2-3 configurations kept apart (every configuration's series against its own truncated runs); "
                "non-trivial = more than one exit plane")
    r = ctx.design_check("MultisliceImpl", cfg_text=CFG.format(n=4 if quick else 6, k=1), label="MultisliceImpl=>Multislice", workers=1,
                         timeout=3000)
    self_test(ctx)
    cases = [json.loads(tlc.tla_value_to_py(s)[1]) for s in r.printed("CASE")]
    ctx.notes["cases_from_tlc"] = len(cases)
    rng = random.Random(ctx.seed)
    items = []
    drift = 0
    for j, c in enumerate(cases):
        combos = [("plane", "waves", False), ("probe", "pixelated", True)] if quick else \
                 [("plane", "waves", False), ("plane", "pixelated", True), ("probe", "waves", True), ("probe", "pixelated", False)]
        for builder, det, unequal in combos:
            t = run_case(c, builder, det, unequal, lazy_too=(j % 3 == 0))
            meta = {"case": c, "builder": builder, "detector": det, "unequal": unequal}
            items.append((meta, t))
            ctx.case(json.dumps(meta), nontrivial=len(c["planes"]) > 1)
        if (-1 in c["planes"] or len(c["planes"]) > 1) and c["n"] <= 3:
            for builder, det in (("plane", "waves"), ("probe", "waves"), ("plane", "pixelated")):
                t = run_case(c, builder, det, True, lazy_too=(j % 2 == 0), ncfg=2 if builder == "plane" else 3)
                meta = {"case": c, "builder": builder, "detector": det, "unequal": True, "ncfg": 2 if builder == "plane" else 3}
                items.append((meta, t))
                ctx.case(json.dumps(meta))
        if c["n"] % 2 == 0 and c["n"] >= 4:
            t = run_case(c, "plane", "waves", True, lazy_too=False, crystal=True)
            meta = {"case": c, "builder": "plane", "detector": "waves", "unequal": True, "crystal": True}
            items.append((meta, t))
            ctx.case(json.dumps(meta), nontrivial=len(c["planes"]) > 1)
            if t[-1].get("planes") != c["planes"]:
                drift += 1
                if len(ctx.drift) < 10:
                    ctx.drift.append({"case": c, "code_planes": t[-1].get("planes")})
    ctx.notes["model_drift_count"] = drift
    ctx.exhaustive = True
    for meta, t in items[:1] + items[-1:]:
        ctx.sample({"meta": meta, "trace": t})
    judge(ctx, items)


def replay(ctx: Ctx, case):
    m = case["meta"]
    t = run_case(m["case"], m["builder"], m["detector"], m["unequal"], crystal=m.get("crystal", False), ncfg=m.get("ncfg", 1))
    ctx.case("replay")
    ctx.sample({"meta": m, "trace": t})
    judge(ctx, [(m, t)])
