"""C08  Potentials are covariant under translations and supercell repetition.

design  : TLC checks DeltasImpl (superpose_deltas transcribed: floor, fraction, four wrapped scatter targets, exact rational
          bilinear weights) for every atom position (pixel x eighths), shift (incl. wrapping and negative) and repetition on a
          small grid: translate = roll, repeat = tile, mass conserved
inputs  : the emitted position / shift / repetition classes instantiated on a 12 x 16 grid with real Potential objects (infinite
          and finite projection, with and without thermal sigmas), PotentialArray.tile and CrystalPotential
verdict : DeltasTrace bounds the logged deviations: translated potential vs rolled potential, supercell vs tiled unit cell,
          slice means under sub-pixel translation
"""
from __future__ import annotations

import json
import random

import numpy as np

from ..core import Ctx, Machinery
from ..rat import ppb
from .. import tlc
from ..ms import relerr

CFG = """SPECIFICATION Spec
CONSTANTS
  N = {n}
  M = {m}
  Emit = TRUE
INVARIANT TranslationIsRoll
INVARIANT RepeatIsTile
INVARIANT MassConserved
INVARIANT EmitCase
CHECK_DEADLOCK FALSE
"""
GPTS = (12, 16)
SAMPLING = 0.5


def pix(cls, n):
    return {"first": 0, "last": n - 1, "inner": n // 2}[cls]


def atoms_of(c):
    from ase import Atoms
    dx = SAMPLING
    x = (pix(c["ax"], GPTS[0]) + c["fx"] / 8.0) * dx
    y = (pix(c["ay"], GPTS[1]) + c["fy"] / 8.0) * dx
    pos = [(x, y, 1.0), ((0 + 3 / 8.0) * dx, (1 + 7 / 8.0) * dx, 3.0), ((GPTS[0] - 1 + 7 / 8.0) * dx, (GPTS[1] - 1 + 7 / 8.0) * dx, 2.5)]
    sym = ["Si", "C", "O"]
    col = {True: "same_pixel", False: "none", None: "none"}.get(c.get("column"), c.get("column"))
    if col in ("same_pixel", "next_pixel"):
        # an atomic column: the same element in the same pixel and the same slice (z 1.0, 1.6, 0.4 are all in the first 2 A slice);
        # next_pixel: the further atom in the neighbouring pixel along x (wrapped), so that the bilinear 2 x 2 footprints overlap
        if col == "same_pixel":
            x2 = (pix(c["ax"], GPTS[0]) + ((c["fx"] + 2) % 8) / 8.0) * dx
        else:
            x2 = ((pix(c["ax"], GPTS[0]) + 1) % GPTS[0] + ((c["fx"] + 3) % 8) / 8.0) * dx
        y2 = (pix(c["ay"], GPTS[1]) + ((c["fy"] + 5) % 8) / 8.0) * dx
        pos += [(x2, y2, 1.6)] + ([(x, y, 0.4)] if col == "same_pixel" else [])          # next_pixel: no two atoms share a floor pixel
        sym += ["Si"] + (["Si"] if col == "same_pixel" else [])
    return Atoms(sym, positions=pos, cell=(GPTS[0] * dx, GPTS[1] * dx, 4.0), pbc=True)


def potential(atoms, gpts, projection, sigmas):
    import abtem
    par = "lobato"
    if sigmas:
        from abtem.parametrizations import LobatoParametrization
        par = LobatoParametrization(sigmas=0.12)
    return abtem.Potential(atoms, gpts=gpts, slice_thickness=2.0, projection=projection, parametrization=par)


def translate_event(c, projection, sigmas, wrap):
    ev = {"k": "translate", "case": c, "projection": projection, "sigmas": sigmas, "wrap": wrap, "raised": False, "err_ppb": 0}
    try:
        a = atoms_of(c)
        b = a.copy()
        b.positions[:, 0] += c["shift"][0] * SAMPLING
        b.positions[:, 1] += c["shift"][1] * SAMPLING
        if wrap:
            b.wrap()
        pa = np.asarray(potential(a, GPTS, projection, sigmas).build(lazy=False).array)
        pb = np.asarray(potential(b, GPTS, projection, sigmas).build(lazy=False).array)
        ev["err_ppb"] = ppb(relerr(pb, np.roll(pa, tuple(c["shift"]), axis=(-2, -1))))
    except Exception as ex:
        ev["raised"] = True
        ev["exc"] = f"{type(ex).__name__}: {ex}"[:300]
    return ev


def repeat_event(c, projection, sigmas, how):
    import abtem
    ev = {"k": "repeat", "case": c, "projection": projection, "sigmas": sigmas, "how": how, "raised": False, "err_ppb": 0}
    try:
        a = atoms_of(c)
        r = tuple(c["rep"])
        unit = potential(a, GPTS, projection, sigmas)
        big = np.asarray(potential(a * (r[0], r[1], 1), (GPTS[0] * r[0], GPTS[1] * r[1]), projection, sigmas).build(lazy=False).array)
        if how == "tile":
            t = np.asarray(unit.build(lazy=False).tile(r).array)
        else:
            t = np.asarray(abtem.CrystalPotential(unit, repetitions=(r[0], r[1], 1)).build(lazy=False).array)
        ev["err_ppb"] = ppb(relerr(big, t))
    except Exception as ex:
        ev["raised"] = True
        ev["exc"] = f"{type(ex).__name__}: {ex}"[:300]
    return ev


def subpixel_event(c, rng):
    ev = {"k": "subpixel", "case": c, "raised": False, "err_ppb": 0}
    try:
        a = atoms_of(c)
        b = a.copy()
        b.positions[:, 0] += rng.uniform(-1, 1) * SAMPLING
        b.positions[:, 1] += rng.uniform(-1, 1) * SAMPLING
        pa = np.asarray(potential(a, GPTS, "infinite", False).build(lazy=False).array).mean(axis=(-2, -1))
        pb = np.asarray(potential(b, GPTS, "infinite", False).build(lazy=False).array).mean(axis=(-2, -1))
        ev["err_ppb"] = ppb(float(np.abs(pb - pa).max() / np.abs(pa).max()))
    except Exception as ex:
        ev["raised"] = True
        ev["exc"] = f"{type(ex).__name__}: {ex}"[:300]
    return ev


def tags_for(ev, clauses):
    c = ev["case"]
    return {"clauses": sorted(clauses), "k": ev["k"], "projection": ev.get("projection"), "sigmas": ev.get("sigmas"),
            "atom_in_last_column_with_y_offset": c["ay"] == "last" and c["fy"] != 0, "how": ev.get("how"), "column": c.get("column") not in (False, None, "none")}


def judge(ctx: Ctx, evs):
    res = ctx.validate("DeltasTrace", [[e] for e in evs], "DeltasTrace.cfg")
    for e, (ok, bad) in zip(evs, res):
        if not ok:
            tg = tags_for(e, bad[0][1])
            ctx.report(tg, {"event": e}, f"{e['k']}: {','.join(tg['clauses'])}: {json.dumps({k: v for k, v in e.items()})[:300]}")


def self_test(ctx: Ctx):
    g = {"k": "translate", "raised": False, "err_ppb": 40}
    b = {"k": "translate", "raised": False, "err_ppb": 10 ** 8}
    r = {"k": "repeat", "raised": False, "err_ppb": 10 ** 8}
    s = {"k": "subpixel", "raised": False, "err_ppb": 10 ** 7}
    res = ctx.validate("DeltasTrace", [[g], [b], [r], [s]], "DeltasTrace.cfg")
    if not res[0][0] or res[1][0] or res[2][0] or res[3][0]:
        raise Machinery(f"DeltasTrace self-test failed: {res}")
    ctx.notes["binding_selftest"] = {"good_accepted": True, "translation_mismatch_rejected": res[1][1], "tile_mismatch_rejected": res[2][1],
                                    "mean_change_rejected": res[3][1]}


def run(ctx: Ctx):
    quick = ctx.tier == "quick"
    ctx.rule = ("cases = class of the first atom's pixel per axis (first / inner / last) x sub-pixel fraction (0, 3/8, 7/8) per axis x "
                "shift (none, unit, wrapping, beyond the cell, negative) x repetition, enumerated by TLC from DeltasImpl (whose exact "
                "check covers every pixel); x an atomic column in the first atom's pixel or not; instantiated on a 12 x 16 grid with two more atoms (one in the last pixel row/column "
                "with offsets); infinite projection for all, finite and thermal-sigma variants for a subset; non-trivial = non-zero "
                "shift or repetition > 1")
    r = ctx.design_check("DeltasImpl", cfg_text=CFG.format(n=2 if quick else 3, m=3 if quick else 4), label="DeltasImpl=>Deltas", timeout=3000,
                         workers=1)
    self_test(ctx)
    seen = {}
    for s in r.printed("CASE"):
        seen[tlc.tla_value_to_py(s)[1]] = None
    cases = [json.loads(s) for s in seen]
    ctx.notes["classes_from_tlc"] = len(cases)
    rng = random.Random(ctx.seed)
    rng.shuffle(cases)
    evs = []
    lim = 140 if quick else 3000
    for j, c in enumerate(cases[:lim]):
        if c["shift"] != [0, 0]:
            finite = (j % 12 == 0)
            sig = (j % 6 == 0)
            evs.append(translate_event(c, "finite" if finite else "infinite", sig, wrap=(j % 2 == 0)))
            ctx.case(("translate", json.dumps(c), finite, sig))
        if c["rep"] != [1, 1]:
            finite = (j % 16 == 1)
            evs.append(repeat_event(c, "finite" if finite else "infinite", j % 8 == 1, "tile" if j % 2 else "crystal"))
            ctx.case(("repeat", json.dumps(c), finite))
        if j % 5 == 0 or (c.get("column") not in (False, None, "none") and j % 2 == 0):
            evs.append(subpixel_event(c, rng))
            ctx.case(("subpixel", json.dumps(c)))
    for e in evs[:1] + evs[-1:]:
        ctx.sample(e)
    judge(ctx, evs)


def replay(ctx: Ctx, case):
    e = case["event"]
    if e["k"] == "translate":
        ev = translate_event(e["case"], e["projection"], e["sigmas"], e["wrap"])
    elif e["k"] == "repeat":
        ev = repeat_event(e["case"], e["projection"], e["sigmas"], e["how"])
    else:
        ev = subpixel_event(e["case"], random.Random(0))
    ctx.case("replay")
    ctx.sample(ev)
    judge(ctx, [ev])
