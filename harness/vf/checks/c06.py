"""C06  PRISM reduction reproduces conventional multislice probes.

design  : Prism.tla states what a reduced scattering matrix is: the beams are the aperture support on the (interpolated) reciprocal
          lattice, the reduction is the exit wave of the equivalent (periodically repeated) probe, and with interpolation the result
          is the periodic window at the position.  PrismImpl.tla transcribes minimum_crop / wrapped_slices / wrapped_crop_2d /
          batch_crop_2d and TLC checks it against Prism!WindowIndex for every array size <= 5, window and pair of corners in
          [-2n-1, 3n+1] (the pre-fix code gives the counterexample n=1, corner=-3).
inputs  : (1) beams: SMatrix.wave_vectors on rational cells / cutoffs / interpolations; (2) windows: every (n, w | n, corners) case
          emitted by TLC from PrismImpl replayed on SMatrixArray._reduce_to_waves with an index-coded array; (3) reductions: the
          scenario space of Prism.tla (potential x aberrations x scan x interpolation x downsample x lazy x batching) run through
          SMatrix.reduce / SMatrixArray.reduce and compared with multislice of the equivalent probe
verdict : PrismTrace (Prism!Fails)
"""
from __future__ import annotations

import json
import random
import warnings

import numpy as np

from ..core import Ctx, Machinery
from ..rat import ppb
from .. import tlc
from ..ms import relerr

ENERGY = 100e3
ABERRATIONS = {"none": {}, "defocus": {"defocus": 40.0}, "cs_defocus": {"Cs": 1.0e5, "defocus": -30.0},
               "astigmatism": {"C12": 25.0, "phi12": 0.4}, "coma": {"C21": 300.0, "phi21": 1.0},
               "all": {"C10": 20.0, "C12": 15.0, "phi12": -0.7, "C21": 200.0, "phi21": 0.3, "C30": -5.0e4, "C23": 150.0, "phi23": 0.2}}
# cells (W, H, D): extent = (W / D, H / D); gpts chosen so the sampling is 0.25 and divisible by 6
CELLS = [(24, 24, 4), (24, 18, 4), (18, 24, 4)]
KAPPA = [(11, 20), (3, 5), (7, 10)]                # cutoff wave number, 1/A


def wavelength():
    from abtem.core.energy import energy2wavelength
    return energy2wavelength(ENERGY)


def cutoff_mrad(k2):
    return float(k2[0] / k2[1] * wavelength() * 1e3)


def cell_of(seed_index):
    W, H, D = CELLS[seed_index % len(CELLS)]
    return (W / D, H / D), (W, H), (W, H, D)          # extent, gpts (sampling 0.25), ints


def potential_for(kind, extent, gpts):
    import abtem
    from ase import Atoms
    if kind == "none":
        return None
    atoms = Atoms(["Si", "C", "O"], positions=[(1.0, 1.2, 1.0), (2.5, 2.8, 3.0), (3.9, 0.6, 2.0)], cell=(extent[0], extent[1], 4.0), pbc=True)
    if kind == "frozen_phonons":
        atoms = abtem.FrozenPhonons(atoms, num_configs=2, sigmas=0.1, seed=7)
    return abtem.Potential(atoms, gpts=gpts, slice_thickness=2.0, projection="infinite")


def scan_for(kind, extent):
    import abtem
    w, h = extent
    if kind == "custom":
        return abtem.CustomScan(np.array([[0.31 * w, 0.22 * h], [0.77 * w, 0.64 * h], [0.02 * w, 0.97 * h]]))
    if kind == "outside":
        return abtem.CustomScan(np.array([[1.41 * w, 0.32 * h], [1.18 * w, 1.27 * h]]))
    if kind == "wide":
        return abtem.CustomScan(np.array([[-0.87 * w, 0.12 * h], [1.63 * w, 1.31 * h], [0.4 * w, -1.2 * h]]))
    if kind == "grid":
        return abtem.GridScan(start=(0.03 * w, 0.05 * h), end=(0.61 * w, 0.93 * h), gpts=(3, 2), endpoint=True)
    if kind == "line":
        return abtem.LineScan(start=(0.1 * w, 0.9 * h), end=(0.83 * w, 0.13 * h), gpts=4, endpoint=True)
    raise Machinery(kind)


def detectors(interpolated=False):
    """With interpolation the statement promises the window probes only; the annular detector (well inside the cutoff) is kept, the
    flexible detector's outermost bins depend on the anti-aliasing bookkeeping of the window and are not compared.
    Without interpolation the detectors with default limits are included: their limits come from the anti-aliasing cutoff the waves
    declare, which for a scattering matrix downsampled to that cutoff must still be the cutoff of the multislice grid (a fresh
    detector per call: _match_waves stores the limit on the detector)."""
    import abtem
    if interpolated:
        return [abtem.AnnularDetector(inner=0.0, outer=12.0)]
    return [abtem.AnnularDetector(inner=0.0, outer=12.0), abtem.FlexibleAnnularDetector(step_size=4.0), abtem.PixelatedDetector(max_angle="cutoff")]


# ------------------------------------------------------------------ the reference: multislice of the equivalent probe
def reference_waves(c, extent, gpts, k2, positions, pot, ds_gpts):
    """Exit waves of the equivalent probes, as an array (..., P, w1, w2), from abTEM's conventional probe / multislice."""
    import abtem
    f = (c["f1"], c["f2"])
    ab = ABERRATIONS[c["aberrations"]]
    cut = cutoff_mrad(k2)
    pos = np.asarray(positions, dtype=float).reshape(-1, 2)
    if f == (1, 1):
        probe = abtem.Probe(energy=ENERGY, semiangle_cutoff=cut, extent=extent, gpts=gpts, **ab)
        scan = abtem.CustomScan(pos)
        w = probe.multislice(pot, scan=scan, lazy=False) if pot is not None else probe.build(scan=scan, lazy=False)
        if ds_gpts != tuple(gpts):
            w = w.downsample(gpts=ds_gpts, normalization="intensity")
        return np.asarray(w.array), dict(w.metadata)
    small_extent = (extent[0] / f[0], extent[1] / f[1])
    small_gpts = (gpts[0] // f[0], gpts[1] // f[1])
    probe = abtem.Probe(energy=ENERGY, semiangle_cutoff=cut, extent=small_extent, gpts=small_gpts, **ab)
    small = np.asarray(probe.build(scan=abtem.CustomScan(np.mod(pos, np.array(small_extent))), lazy=False).array)
    full = np.tile(small, (1, f[0], f[1]))
    waves = abtem.Waves(full, extent=extent, energy=ENERGY, ensemble_axes_metadata=[abtem.core.axes.OrdinalAxis(values=tuple(range(len(pos))))])
    if pot is not None:
        waves = waves.multislice(pot)
        waves = waves.compute() if hasattr(waves, "compute") and getattr(waves, "is_lazy", False) else waves
    if ds_gpts != tuple(gpts):
        waves = waves.downsample(gpts=ds_gpts, normalization="intensity")
    arr = np.asarray(waves.array)
    n = arr.shape[-2:]
    win = (n[0] // f[0], n[1] // f[1])
    s = (extent[0] / n[0], extent[1] / n[1])
    corners = np.rint(pos / np.array(s) - np.array([win[0] // 2, win[1] // 2])).astype(int)
    out = np.zeros(arr.shape[:-3] + (len(pos),) + win, dtype=arr.dtype)
    for j, cr in enumerate(corners):
        ix = (cr[0] + np.arange(win[0])) % n[0]
        iy = (cr[1] + np.arange(win[1])) % n[1]
        out[..., j, :, :] = arr[..., j, :, :][..., ix[:, None], iy[None, :]]
    return out, dict(waves.metadata)


def polar_err(gm, rm):
    """Polar measurements allocate their radial bins from the undownsampled probe; the bins both have must agree and the bins only
    one has must be empty."""
    gm, rm = np.squeeze(gm), np.squeeze(rm)
    if gm.ndim != rm.ndim:
        return None
    sl = tuple(slice(0, min(a, b)) for a, b in zip(gm.shape, rm.shape))
    scale = max(float(np.abs(rm).max()), 1e-30)
    err = float(np.abs(gm[sl] - rm[sl]).max()) / scale
    tail = max(float(np.abs(gm).sum() - np.abs(gm[sl]).sum()), float(np.abs(rm).sum() - np.abs(rm[sl]).sum())) / scale
    return max(err, tail)


def half_pixel_risk(positions, extent, n):
    """rint ties: a position within 1e-3 pixel of a half-pixel makes the window choice ambiguous."""
    p = np.asarray(positions, dtype=float).reshape(-1, 2) / np.array([extent[0] / n[0], extent[1] / n[1]])
    fr = np.abs(p - np.floor(p) - 0.5)
    return bool((fr < 1e-3).any())


def reduce_event(c, idx=0):
    import abtem
    extent, gpts, ints = cell_of(idx)
    k2 = KAPPA[idx % len(KAPPA)]
    cut = cutoff_mrad(k2)
    f = (c["f1"], c["f2"])
    ev = {"k": "reduce", "case": c, "idx": idx, "raised": False, "reference_raised": False, "shape_ok": True, "det_shape_ok": True, "lazy_shape_ok": True, "waves_ppb": [], "det_ppb": [], "lazy_ppb": [], "series_ppb": []}
    with warnings.catch_warnings():
        warnings.simplefilter("ignore")
        pot = potential_for(c["potential"], extent, gpts)
        scan = scan_for(c["scan"], extent)
        positions = np.asarray(scan.get_positions())
        # a CTF that will be shared between S-matrices of different energies describes the lens only: it is given no energy of its own
        ekw = {} if c.get("history") == "ctf_reused" else {"energy": ENERGY}
        if c.get("ctf_cutoff", "given") == "unset":
            ctf = abtem.CTF(**ekw, **ABERRATIONS[c["aberrations"]])          # no aperture stated: the S-matrix' cutoff applies
        else:
            ctf = abtem.CTF(semiangle_cutoff=cut, **ekw, **ABERRATIONS[c["aberrations"]])
        ds = "cutoff" if c["downsample"] else False
        hist = c.get("history", "fresh")

        def smatrix():
            cut0 = 0.55 * cut if hist == "edited_cutoff" else cut
            e0 = 60e3 if hist == "edited_energy" else ENERGY
            if pot is None:
                S = abtem.SMatrix(extent=extent, gpts=gpts, energy=e0, semiangle_cutoff=cut0, interpolation=f, downsample=ds)
            elif hist == "edited_potential":
                from ase import Atoms
                other = abtem.Potential(Atoms(["Au"], positions=[(2.0, 2.0, 2.0)], cell=(extent[0], extent[1], 4.0), pbc=True), gpts=gpts,
                                        slice_thickness=2.0, projection="infinite")
                S = abtem.SMatrix(potential=other, energy=ENERGY, semiangle_cutoff=cut0, interpolation=f, downsample=ds)
            else:
                S = abtem.SMatrix(potential=pot, energy=e0, semiangle_cutoff=cut0, interpolation=f, downsample=ds)
            if hist in ("edited_cutoff", "edited_potential", "edited_energy"):
                _ = (len(S), S.shape, np.asarray(S.wave_vectors).shape, S.ensemble_axes_metadata)       # inspect, then edit
                try:
                    if hist == "edited_cutoff":
                        S.semiangle_cutoff = cut
                    elif hist == "edited_energy":
                        S.energy = ENERGY
                    else:
                        S.potential = pot
                except AttributeError:               # the edit is not offered by this version of the API: use a fresh object instead
                    return abtem.SMatrix(potential=pot, energy=ENERGY, semiangle_cutoff=cut, interpolation=f, downsample=ds) if pot is not None else \
                        abtem.SMatrix(extent=extent, gpts=gpts, energy=ENERGY, semiangle_cutoff=cut, interpolation=f, downsample=ds)
            return S

        if hist == "ctf_reused":
            # the CTF object was used before, for an S-matrix at another energy on the same grid (results discarded)
            try:
                S200 = abtem.SMatrix(extent=extent, gpts=gpts, energy=200e3, semiangle_cutoff=cut, interpolation=f, downsample=ds)
                used = S200.reduce(scan=scan, ctf=ctf, lazy=False)
                del used
            except Exception:
                pass

        def reduced(lazy, dets=None):
            S = smatrix()
            if c["batch_one"]:
                r = S.build(lazy=lazy).reduce(scan=scan, ctf=ctf if hist == "ctf_reused" else ctf.copy(), detectors=dets, max_batch_reduction=1)
            else:
                r = S.reduce(scan=scan, ctf=ctf if hist == "ctf_reused" else ctf.copy(), detectors=dets, lazy=lazy)
            rs = r if isinstance(r, (list, tuple)) else [r]
            rs = [x.compute() if hasattr(x, "compute") else x for x in rs]
            return [np.asarray(x.array) for x in rs]
        got = gotd = None
        try:
            got = reduced(False)[0]
            gotd = reduced(False, detectors(f != (1, 1)))
        except Exception as ex:
            ev["raised"] = True
            ev["exc"] = f"{type(ex).__name__}: {ex}"[:300]
        ref = None
        try:
            S0 = smatrix()
            dsg = tuple(int(v) for v in S0.downsampled_gpts)
            ev["half_pixel"] = half_pixel_risk(positions, extent, dsg)
            ref, refmeta = reference_waves(c, extent, gpts, k2, positions, pot, dsg)
            ref = ref.reshape(ref.shape[:-3] + tuple(scan.shape) + ref.shape[-2:])
        except Exception as ex:
            ev["reference_raised"] = True
            ev["reference_exc"] = f"{type(ex).__name__}: {ex}"[:300]
        if got is None or ref is None:
            return ev
        nscan = len(scan.shape)
        # exit waves: one per frozen-phonon configuration and position, exactly like Probe.multislice
        if got.shape != ref.shape:
            ev["shape_ok"] = False
            ev["shapes"] = [list(got.shape), list(ref.shape)]
            return ev
        ev["waves_ppb"] = [ppb(relerr(got, ref))]
        # measurements: the same detectors on the reference exit waves, averaged over the frozen-phonon configurations
        sampling = (extent[0] / dsg[0], extent[1] / dsg[1])
        nens = ref.ndim - 2
        meta = [abtem.core.axes.OrdinalAxis(values=tuple(range(ref.shape[d]))) for d in range(nens)]
        md = {k: v for k, v in refmeta.items() if k == "adjusted_antialias_cutoff_gpts"}
        rw = abtem.Waves(ref, sampling=sampling, energy=ENERGY, ensemble_axes_metadata=meta, metadata=md)
        for d, gm in zip(detectors(f != (1, 1)), gotd):
            rm = np.asarray(d.detect(rw).array)
            if c["potential"] == "frozen_phonons":
                rm = rm.mean(axis=0)
            flexible = "Flexible" in type(d).__name__
            if gm.shape[:nscan] != tuple(scan.shape) or gm.ndim != rm.ndim or (not flexible and gm.shape != rm.shape):
                ev["det_shape_ok"] = False
                ev["shapes"] = [list(gm.shape), list(rm.shape)]
                continue
            ev["det_ppb"].append(ppb(polar_err(gm, rm) if flexible else relerr(gm, rm)))
        if f == (1, 1) and pot is not None:
            # the statement's own reference: Probe.scan on the full grid with the same detectors
            pm = abtem.Probe(energy=ENERGY, semiangle_cutoff=cut, **ABERRATIONS[c["aberrations"]]).scan(pot, scan=scan, detectors=detectors(f != (1, 1)), lazy=False)
            for gm, m in zip(gotd, pm):
                m = np.asarray(m.array)
                if gm.shape != m.shape:
                    ev["det_shape_ok"] = False
                    ev["shapes"] = [list(gm.shape), list(m.shape)]
                else:
                    ev["det_ppb"].append(ppb(relerr(gm, m)))
        if c["lazy"]:
            try:
                lz = reduced(True)[0]
                lzd = reduced(True, detectors(f != (1, 1)))
                if lz.shape != got.shape or any(a.shape != b.shape for a, b in zip(lzd, gotd)):
                    ev["lazy_shape_ok"] = False
                    ev["lazy_shapes"] = [[list(lz.shape)] + [list(a.shape) for a in lzd], [list(got.shape)] + [list(b.shape) for b in gotd]]
                else:
                    ev["lazy_ppb"] = [ppb(relerr(lz, got))] + [ppb(relerr(a, b)) for a, b in zip(lzd, gotd)]
                # the other routes to the same waves: the S-matrix built eagerly as ONE array object (all configurations) and then reduced
                bt = smatrix().build(lazy=False).reduce(scan=scan, ctf=ctf if hist == "ctf_reused" else ctf.copy())
                bt = np.asarray((bt.compute() if hasattr(bt, "compute") else bt).array)
                ev["lazy_ppb"].append(ppb(relerr(bt, got)) if bt.shape == got.shape else 10 ** 9)
                # a CTF that carries a SERIES of defocus values: member k of the reduction is the reduction with the scalar CTF k
                vals = [10.0, 35.0, -20.0]
                ser = smatrix().reduce(scan=scan, ctf=abtem.CTF(semiangle_cutoff=cut, energy=ENERGY, defocus=abtem.distributions.from_values(np.array(vals))),
                                       lazy=False)
                axs = [i for i, a in enumerate(ser.ensemble_axes_metadata) if type(a).__name__ == "ParameterAxis" and len(a.values) == len(vals)]
                if len(axs) == 1:
                    sa = np.moveaxis(np.asarray(ser.array), axs[0], 0)
                    for kk, v in enumerate(vals):
                        one = np.asarray(smatrix().reduce(scan=scan, ctf=abtem.CTF(semiangle_cutoff=cut, energy=ENERGY, defocus=v), lazy=False).array)
                        ev["series_ppb"].append(ppb(relerr(sa[kk], one)) if sa[kk].shape == one.shape else 10 ** 9)
                else:
                    ev["series_ppb"].append(10 ** 9)
                # schedules: a lazy reduction with the default aperture (ctf=None) that is computed only AFTER another S-matrix with the
                # same cutoff but another energy and cell has been reduced in the same process
                SA = smatrix()
                ra = SA.reduce(scan=scan, lazy=True)
                SB = abtem.SMatrix(extent=(extent[0] * 1.25, extent[1]), gpts=gpts, energy=200e3, semiangle_cutoff=float(SA.semiangle_cutoff), interpolation=f,
                                   downsample=ds)
                SB.reduce(scan=scan, lazy=False)
                ra = np.asarray(ra.compute().array)                       # computed now, before anything else touches shared state again
                ea = np.asarray(smatrix().reduce(scan=scan, lazy=False).array)
                ev["lazy_ppb"].append(ppb(relerr(ra, ea)) if ra.shape == ea.shape else 10 ** 9)
            except Exception as ex:
                ev["raised"] = True
                ev["exc"] = f"lazy: {type(ex).__name__}: {ex}"[:300]
    return ev


# ------------------------------------------------------------------ beams
def beams_event(idx, f):
    import abtem
    extent, gpts, (W, H, D) = cell_of(idx)
    k2 = KAPPA[(idx // len(CELLS)) % len(KAPPA)]
    S = abtem.SMatrix(extent=extent, gpts=gpts, energy=ENERGY, semiangle_cutoff=cutoff_mrad(k2), interpolation=f, downsample=False)
    wv = np.asarray(S.wave_vectors, dtype=float)
    n = wv[:, 0] * extent[0] / f[0]
    m = wv[:, 1] * extent[1] / f[1]
    off = bool((np.abs(n - np.rint(n)) > 1e-3).any() or (np.abs(m - np.rint(m)) > 1e-3).any())
    return {"k": "beams", "W": W, "H": H, "D": D, "Kn": k2[0], "Kd": k2[1], "f1": f[0], "f2": f[1], "B": 6,
            "beams": [[int(a), int(b)] for a, b in zip(np.rint(n), np.rint(m))], "off_lattice": off}


# ------------------------------------------------------------------ windows (PrismImpl cases replayed on the real extraction)
def window_event(n, w, corners):
    """corners: list of (c1, c2) first-pixel pairs; positions are chosen so that rint(p / s) - w // 2 == corner."""
    import abtem
    f = (n[0] // w[0], n[1] // w[1])
    s = 0.25
    ev = {"k": "window", "n": list(n), "w": list(w), "corners": [list(c) for c in corners], "raised": False, "got": []}
    with warnings.catch_warnings():
        warnings.simplefilter("ignore")
        S = abtem.SMatrix(extent=(n[0] * s, n[1] * s), gpts=tuple(n), energy=ENERGY, semiangle_cutoff=20.0, interpolation=f, downsample=False).build(lazy=False)
        if tuple(S.window_gpts) != tuple(w):
            raise Machinery(f"window_gpts {S.window_gpts} != {w}")
        pos = np.array([[(c[0] + w[0] // 2 + 0.2) * s, (c[1] + w[1] // 2 - 0.3) * s] for c in corners])
        code = (np.arange(n[0])[:, None] * n[1] + np.arange(n[1])[None, :]).astype(np.complex64)[None]
        try:
            out = np.asarray(S._reduce_to_waves(code, pos, np.ones((len(pos), 1), dtype=np.complex64)))
            dec = np.rint(out.real).astype(int)
            for j in range(len(pos)):
                rows = [int(v) for v in dec[j, :, 0] // n[1]]
                cols = [int(v) for v in dec[j, 0, :] % n[1]]
                consistent = bool((dec[j] == (np.array(rows)[:, None] * n[1] + np.array(cols)[None, :])).all())
                ev["got"].append([rows if consistent else [-1] * w[0], cols if consistent else [-1] * w[1]])
        except Exception as ex:
            ev["raised"] = True
            ev["exc"] = f"{type(ex).__name__}: {ex}"[:200]
    return ev


def tags_for(ev, clauses):
    if ev["k"] == "reduce":
        c = ev["case"]
        return {"clauses": sorted(clauses), "k": "reduce", "interpolated": (c["f1"], c["f2"]) != (1, 1), "aberrated": c["aberrations"] != "none",
                "scan": c["scan"], "potential": c["potential"], "downsample": c["downsample"], "ctf_cutoff": c.get("ctf_cutoff"), "history": c.get("history")}
    if ev["k"] == "window":
        n = ev["n"]
        far = any(cc[a] >= n[a] or cc[a] < -n[a] for cc in ev["corners"] for a in (0, 1))
        return {"clauses": sorted(clauses), "k": "window", "corner_beyond_one_period": far}
    return {"clauses": sorted(clauses), "k": ev["k"]}


def judge(ctx: Ctx, evs):
    res = ctx.validate("PrismTrace", [[e] for e in evs], "PrismTrace.cfg")
    for e, (ok, bad) in zip(evs, res):
        if not ok:
            tg = tags_for(e, bad[0][1])
            brief = {k: v for k, v in e.items() if k not in ("got", "beams")}
            ctx.report(tg, {"event": e}, f"{json.dumps(brief)[:420]}")


def self_test(ctx: Ctx):
    g = {"k": "reduce", "raised": False, "reference_raised": False, "shape_ok": True, "det_shape_ok": True, "lazy_shape_ok": True, "waves_ppb": [120], "det_ppb": [3, 900], "lazy_ppb": [], "series_ppb": []}
    b = {"k": "beams", "W": 8, "H": 8, "D": 2, "Kn": 3, "Kd": 10, "f1": 1, "f2": 1, "B": 3,
         "beams": [[0, 0], [1, 0], [-1, 0], [0, 1], [0, -1]], "off_lattice": False}       # (n/4)^2 + (m/4)^2 < 0.09  <=>  n^2 + m^2 < 1.44; outer edge 0.3 + 0.125: n^2 + m^2 < 2.89
    w = {"k": "window", "n": [4, 4], "w": [2, 2], "corners": [[-1, 3]], "raised": False, "got": [[[3, 0], [3, 0]]]}
    res = ctx.validate("PrismTrace", [[g], [b], [w], [dict(g, waves_ppb=[7 * 10 ** 8])], [dict(g, det_ppb=[3, 10 ** 7])], [dict(g, lazy_ppb=[10 ** 6])],
                                      [dict(g, raised=True)], [dict(g, det_shape_ok=False)], [dict(g, lazy_shape_ok=False)], [dict(b, beams=b["beams"] + [[2, 0], [-2, 0]])], [dict(b, beams=b["beams"][:-1])],
                                      [dict(w, got=[[[3, 0], [0, 1]]])]], "PrismTrace.cfg")
    if not all(r[0] for r in res[:3]) or any(r[0] for r in res[3:]):
        raise Machinery(f"PrismTrace self-test failed: {res}")
    ctx.notes["binding_selftest"] = {"good_accepted": 3, "rejected": [r[1] for r in res[3:]]}


def select(cases, n):
    """The first n cases of the shuffled list, after one case (the first in shuffled order) of every stratum
    potential x downsample x batching x lazy x {uninterpolated, interpolated}: the code paths of the reduction differ along
    exactly these, and a sample that misses one of them says nothing about it."""
    core, rest, seen = [], [], set()
    for c in cases:
        key = (c["potential"], c["downsample"], c["batch_one"], c["lazy"], (c["f1"], c["f2"]) == (1, 1))
        key2 = (c.get("ctf_cutoff"), c.get("history"), c["batch_one"], c["lazy"], c["aberrations"] != "none")
        if key2 not in seen:
            seen.add(key2)
            if key in seen:
                core.append(c)
                continue
        if key in seen:
            rest.append(c)
        else:
            seen.add(key)
            core.append(c)
    return (core + rest)[:max(n, len(core))]


IMPL_CFG = """SPECIFICATION Spec
CONSTANTS
  MaxN = {n}
  Reduced = TRUE
INVARIANT WindowsArePeriodicWindows
CHECK_DEADLOCK FALSE
"""


def run(ctx: Ctx):
    quick = ctx.tier == "quick"
    ctx.rule = ("beams: cells (6x6, 6x4.5, 4.5x6 A) x cutoffs x interpolations; windows: array sizes n in {4, 6, 8, 9} with every window "
                "w = n / f and corners in [-2n-1, 3n+1] (pairs, one batch); reductions: potential {none, atoms, frozen phonons} x 6 aberration "
                "sets x scans {inside, outside the cell, spanning more than a cell, grid, line} x interpolation (1..3, 1..2) x downsample x "
                "lazy x batching x CTF aperture given / unset x S-matrix object fresh / inspected and then edited (cutoff, potential), enumerated by TLC from Prism.tla; non-trivial = aberrated CTF or interpolation")
    ctx.design_check("PrismImpl", cfg_text=IMPL_CFG.format(n=5 if quick else 7), label="PrismImpl=>Prism!WindowIndex", timeout=3000)
    r = ctx.design_check("Prism", "Prism.cfg", label="scenario space", workers=1)
    self_test(ctx)
    cases = [json.loads(tlc.tla_value_to_py(s)[1]) for s in r.printed("CASE")]
    ctx.notes["cases_from_tlc"] = len(cases)
    rng = random.Random(ctx.seed)
    cases.sort(key=lambda c: json.dumps(c, sort_keys=True))
    rng.shuffle(cases)
    evs = []
    # beams
    for idx in range(len(CELLS) * len(KAPPA)):
        for f in [(1, 1), (2, 1), (1, 2), (2, 2), (3, 2), (3, 1)]:
            evs.append(beams_event(idx, f))
            ctx.case(("beams", idx, f), nontrivial=f != (1, 1))
    # windows
    for n1, w1 in [(4, 2), (6, 3), (6, 2), (8, 4), (9, 3)][: (3 if quick else 5)]:
        lo, hi = -2 * n1 - 1, 3 * n1 + 1
        pairs = [(a, b) for a in range(lo, hi + 1) for b in range(lo, hi + 1)]
        rng.shuffle(pairs)
        singles = [[(a, rng.randint(lo, hi))] for a in range(lo, hi + 1)]
        for cs in singles + [[(a, b), (b, a)] for a, b in pairs[: (25 if quick else 400)]]:
            evs.append(window_event((n1, n1), (w1, w1), cs))
            ctx.case(("window", n1, w1, json.dumps(cs)), nontrivial=True)
    # reductions
    nred = 110 if quick else 900
    for j, c in enumerate(select(cases, nred)):
        evs.append(reduce_event(c, idx=j + ctx.seed))
        ctx.case(("reduce", json.dumps(c, sort_keys=True), j), nontrivial=c["aberrations"] != "none" or (c["f1"], c["f2"]) != (1, 1))
    ctx.exhaustive = False
    ctx.notes["events"] = {k: sum(1 for e in evs if e["k"] == k) for k in ("beams", "window", "reduce")}
    for e in [evs[0], evs[-1]]:
        ctx.sample({k: v for k, v in e.items() if k != "beams"})
    judge(ctx, evs)


def replay(ctx: Ctx, case):
    e = case["event"]
    if e["k"] == "reduce":
        ev = reduce_event(e["case"], idx=e.get("idx", 0))
    elif e["k"] == "window":
        ev = window_event(tuple(e["n"]), tuple(e["w"]), [tuple(c) for c in e["corners"]])
    else:
        idx = next(i for i in range(len(CELLS) * len(KAPPA)) if cell_of(i)[2] == (e["W"], e["H"], e["D"]) and KAPPA[(i // len(CELLS)) % len(KAPPA)] == (e["Kn"], e["Kd"]))
        ev = beams_event(idx, (e["f1"], e["f2"]))
    ctx.case("replay")
    ctx.sample({k: v for k, v in ev.items() if k != "beams"})
    judge(ctx, [ev])
