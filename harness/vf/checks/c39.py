"""C39  Beam tilt acts as a lateral shift per propagation distance.

design  : Tilt.tla: the shift of a tilted propagation is tan(t) * (dz_1 + .. + dz_K) per axis, in exact rationals; TiltModel.tla
          transcribes how abTEM applies tilt (one phase ramp per slice and per tilt source - base tilt and every tilt ensemble axis -,
          kernel dimensions built by the reversed walk over the ensemble axes) and TLC checks, for every axis layout, tangents and
          thickness list within the bounds, that the accumulated slope of every ensemble member is Tilt!ExpectedShift of the sum of
          its sources and that the kernel dimensions follow the ensemble axes
inputs  : scenarios enumerated by TLC from Tilt.tla (how the tilt is given x thickness list x grid x integer/fractional shift x
          sign x lazy): an asymmetric probe propagated through vacuum slices with and without tilt
verdict : TiltTrace: per ensemble member the decoded integer shift equals the rational TLC computes from tan(t)/sampling and the
          thicknesses; the tilted result equals the shifted untilted result; plane waves keep unit modulus; lazy == eager
"""
from __future__ import annotations

import json
import random
import warnings
from fractions import Fraction

import numpy as np

from ..core import Ctx, Machinery
from ..rat import ppb
from .. import tlc
from ..ms import relerr

ENERGY = 100e3
S = Fraction(1, 5)            # sampling 0.2 A


def vacuum(grid, dz):
    import abtem
    return abtem.PotentialArray(np.zeros((len(dz),) + tuple(grid), dtype=np.float32), slice_thickness=[float(d) for d in dz], sampling=(float(S), float(S)))


def probe(grid, tilt, **kw):
    import abtem
    ext = (grid[0] * float(S), grid[1] * float(S))
    p = abtem.Probe(energy=ENERGY, semiangle_cutoff=25, extent=ext, gpts=tuple(grid), tilt=tilt, C21=400.0, phi21=0.5, C10=-30.0, **kw)
    # the builder reaches its use through a copy / deepcopy / pickle round trip (route chosen by the grid and the tilt)
    from ..routes import reroute
    import zlib
    return reroute(p, zlib.crc32(repr((tuple(grid), repr(tilt))).encode()))[0]


def mrad(target_px, Z):
    """tilt [mrad] whose shift over the total thickness Z is target_px pixels"""
    return float(np.arctan(float(target_px * S / Z)) * 1e3)


def tan_px(target_px, Z):
    q = Fraction(target_px) / Z          # pixels per Angstrom
    return [q.numerator, q.denominator]


def fourier_shift(a, d):
    kx = np.fft.fftfreq(a.shape[-2])[:, None]
    ky = np.fft.fftfreq(a.shape[-1])[None, :]
    return np.fft.ifft2(np.fft.fft2(a) * np.exp(-2j * np.pi * (kx * float(d[0]) + ky * float(d[1]))))


def decode_shift(a, ref):
    c = np.fft.ifft2(np.fft.fft2(a) * np.conj(np.fft.fft2(ref)))
    i = np.unravel_index(np.argmax(np.abs(c)), c.shape)
    return [int(v) if v <= d // 2 else int(v - d) for v, d in zip(i, c.shape)]


def observe(c):
    import abtem
    grid = tuple(c["grid"])
    dz = [Fraction(h, 2) for h in c["dz"]]
    Z = sum(dz)
    sign = -1 if c["negative"] else 1
    if c["fractional"]:
        tx = [Fraction(5, 4) * sign, Fraction(-7, 3) * sign, Fraction(1, 2)]
        ty = [Fraction(-3, 2) * sign, Fraction(2, 5), Fraction(9, 4) * sign]
    else:
        tx = [Fraction(1) * sign, Fraction(-2) * sign, Fraction(3)]
        ty = [Fraction(-1) * sign, Fraction(2), Fraction(0)]
    form = c["form"]
    ev = {"k": "tilt", "case": c, "raised": False, "reference_raised": False, "shape_ok": True, "dz": [[d.numerator, d.denominator] for d in dz],
          "members": [], "modulus_ppb": 0, "lazy_ppb": 0}
    scan = abtem.CustomScan(np.array([[grid[0] * float(S) * 0.53, grid[1] * float(S) * 0.41]]))
    other = {"defocus": abtem.distributions.from_values(np.array([-30.0, 55.0]))} if form.endswith("with_other_axis") else {}
    with warnings.catch_warnings():
        warnings.simplefilter("ignore")
        # how the tilt is given, and the member -> (target x, target y) table in ensemble order
        if form == "base":
            tilt = (mrad(tx[0], Z), mrad(ty[0], Z))
            table = {(): (tx[0], ty[0])}
            lead = ()
        elif form in ("pairs", "pairs_with_other_axis"):
            tilt = np.array([[mrad(a, Z), mrad(b, Z)] for a, b in zip(tx, ty)])
            table = {(i,): (tx[i], ty[i]) for i in range(3)}
            lead = (3,)
        elif form in ("per_axis", "per_axis_with_other_axis"):
            tilt = (abtem.distributions.from_values(np.array([mrad(a, Z) for a in tx[:2]])), abtem.distributions.from_values(np.array([mrad(b, Z) for b in ty])))
            table = {(i, j): (tx[i], ty[j]) for i in range(2) for j in range(3)}
            lead = (2, 3)
        elif form == "axis_and_scalar":
            tilt = (mrad(tx[1], Z), abtem.distributions.from_values(np.array([mrad(b, Z) for b in ty])))
            table = {(j,): (tx[1], ty[j]) for j in range(3)}
            lead = (3,)
        elif form.startswith("sequence_") or form == "propagator_reused":
            tilt = "sequence"
            table = {(): (tx[0], ty[0])}
            lead = ()
        elif form == "base_plus_two_axes":
            tilt = "sequence"
            table = {(i, j): (tx[2] + tx[i], ty[2] + ty[j]) for i in range(2) for j in range(2)}
            lead = (2, 2)
        else:
            raise Machinery(form)
        vac = vacuum(grid, dz)

        def run(t, lazy):
            if isinstance(t, str):
                from abtem.tilt import BeamTilt, BeamTilt2D
                X, Y = mrad(tx[0], Z), mrad(ty[0], Z)
                if form == "sequence_builder_then_y":
                    w = BeamTilt2D(0.0, Y).apply(probe(grid, (X, 0.0)).build(scan=scan, lazy=lazy))
                elif form == "sequence_x_then_y":
                    w = BeamTilt((0.0, Y)).apply(BeamTilt((X, 0.0)).apply(probe(grid, (0.0, 0.0)).build(scan=scan, lazy=lazy)))
                elif form == "base_plus_two_axes":
                    base = probe(grid, (mrad(tx[2], Z), mrad(ty[2], Z))).build(scan=scan, lazy=lazy)
                    w = BeamTilt2D(tilt_x=[mrad(a, Z) for a in tx[:2]], tilt_y=[mrad(b, Z) for b in ty[:2]]).apply(base)
                elif form == "propagator_reused":
                    from abtem.multislice import FresnelPropagator
                    p = FresnelPropagator()
                    w = probe(grid, (X, Y)).build(scan=scan, lazy=False)
                    served = probe(grid, (-0.5 * X + 1.0, 2.0 * Y - 3.0)).build(scan=scan, lazy=False)
                    for d in dz:
                        p.propagate(served, float(d))       # the object has just served another tilt
                        w = p.propagate(w, float(d))
                    return np.asarray(w.array)
                else:
                    w = BeamTilt((0.25 * X, Y)).apply(probe(grid, (0.75 * X, 0.0)).build(scan=scan, lazy=lazy))
                    w = BeamTilt2D(0.0, 0.0).apply(w)
                w = w.multislice(vac)
            else:
                w = probe(grid, t, **other).multislice(vac, scan=scan, lazy=lazy)
            w = w.compute() if lazy else w
            return np.asarray(w.array)
        got = ref = None
        try:
            got = run(tilt, False)
        except Exception as ex:
            ev["raised"] = True
            ev["exc"] = f"{type(ex).__name__}: {ex}"[:300]
        try:
            ref = run((0.0, 0.0), False)
        except Exception as ex:
            ev["reference_raised"] = True
            ev["reference_exc"] = f"{type(ex).__name__}: {ex}"[:300]
        if got is None or ref is None:
            return ev
        if got.shape != lead + ref.shape:
            ev["shape_ok"] = False
            ev["shapes"] = [list(got.shape), list(lead + ref.shape)]
            return ev
        nother = 2 if other else 1
        for idx, (px, py) in sorted(table.items()):
            for o in range(nother):
                a = got[idx][o][0] if other else got[idx][0]
                r = ref[o][0] if other else ref[0]
                integer = px.denominator == 1 and py.denominator == 1
                want = np.roll(r, (int(px), int(py)), axis=(0, 1)) if integer else fourier_shift(r, (px, py))
                ev["members"].append({"index": list(idx) + [o], "tan_px": [tan_px(px, Z), tan_px(py, Z)], "integer": integer,
                                      "observed": decode_shift(a, r) if integer else [0, 0], "err_ppb": ppb(relerr(a, want))})
        try:
            pw = abtem.PlaneWave(energy=ENERGY, extent=(grid[0] * float(S), grid[1] * float(S)), gpts=grid, tilt=(mrad(tx[0], Z), mrad(ty[0], Z))).multislice(vac, lazy=False)
            ev["modulus_ppb"] = ppb(float(np.abs(np.abs(np.asarray(pw.array)) - 1.0).max()))
        except Exception as ex:
            ev["raised"] = True
            ev["exc"] = f"plane wave: {type(ex).__name__}: {ex}"[:300]
        if c["lazy"]:
            try:
                lz = run(tilt, True)
                ev["lazy_ppb"] = ppb(relerr(lz, got)) if lz.shape == got.shape else 2 * 10 ** 9
            except Exception as ex:
                ev["raised"] = True
                ev["exc"] = f"lazy: {type(ex).__name__}: {ex}"[:300]
    return ev


def tags_for(ev, clauses):
    c = ev["case"]
    return {"clauses": sorted(clauses), "form": c["form"], "fractional": c["fractional"], "slices": len(c["dz"])}


def judge(ctx: Ctx, evs):
    res = ctx.validate("TiltTrace", [[e] for e in evs], "TiltTrace.cfg")
    for e, (ok, bad) in zip(evs, res):
        if not ok:
            tg = tags_for(e, bad[0][1])
            worst = sorted(e["members"], key=lambda m: -m["err_ppb"])[:2]
            ctx.report(tg, {"event": e}, f"{json.dumps(e['case'])}: {','.join(tg['clauses'])} worst={json.dumps(worst)[:300]} {e.get('exc', '')} {e.get('shapes', '')}")


def self_test(ctx: Ctx):
    m = {"index": [0], "tan_px": [[2, 5], [-1, 5]], "integer": True, "observed": [2, -1], "err_ppb": 300}
    g = {"k": "tilt", "raised": False, "reference_raised": False, "shape_ok": True, "dz": [[2, 1], [3, 1]], "members": [m], "modulus_ppb": 0, "lazy_ppb": 0}
    bads = [dict(g, members=[dict(m, observed=[2, 1])]),             # y shift with the wrong sign
            dict(g, members=[dict(m, observed=[1, -1])]),            # only the first slice counted
            dict(g, members=[dict(m, err_ppb=10 ** 8)]), dict(g, modulus_ppb=10 ** 6), dict(g, lazy_ppb=10 ** 6), dict(g, raised=True),
            dict(g, members=[dict(m, tan_px=[[1, 3], [-1, 5]])])]    # 5/3 pixels reported as an integer shift
    res = ctx.validate("TiltTrace", [[g]] + [[b] for b in bads], "TiltTrace.cfg")
    if not res[0][0] or any(r[0] for r in res[1:]):
        raise Machinery(f"TiltTrace self-test failed: {res}")
    ctx.notes["binding_selftest"] = {"good_accepted": True, "rejected": [r[1] for r in res[1:]]}


MODEL_CFG = """SPECIFICATION Spec
CONSTANTS
  MaxSlices = {k}
  Tangents <- {t}
INVARIANT ShiftIsThicknessTimesTangent
INVARIANT KernelDimsFollowTheEnsembleAxes
CHECK_DEADLOCK FALSE
"""


def run(ctx: Ctx):
    quick = ctx.tier == "quick"
    ctx.rule = ("scenarios = how the tilt is given (base tilt, array of (tx, ty) pairs, one distribution per axis, one distribution and "
                "one scalar, pairs / per-axis next to a defocus ensemble axis, tilts accumulated by successive tilt transforms on already tilted waves) x thickness lists (1-4 slices, unequal) x grid (square, "
                "rectangular) x integer / fractional pixel shifts x sign x lazy, enumerated by TLC; an asymmetric probe (coma) "
                "through vacuum; non-trivial = every scenario (non-zero tilts)")
    ctx.design_check("MCTilt", cfg_text=MODEL_CFG.format(k=2 if quick else 3, t="MC_TangentsQuick" if quick else "MC_Tangents"),
                     label="TiltModel=>Tilt!ExpectedShift", timeout=3000)
    r = ctx.design_check("Tilt", "Tilt.cfg", label="scenario space", workers=1)
    self_test(ctx)
    cases = [json.loads(tlc.tla_value_to_py(s)[1]) for s in r.printed("CASE")]
    ctx.notes["cases_from_tlc"] = len(cases)
    rng = random.Random(ctx.seed)
    cases.sort(key=lambda c: json.dumps(c, sort_keys=True))
    rng.shuffle(cases)
    if quick:
        # every (form, fractional, lazy) stratum at every seed, then the seeded remainder
        seen, first, rest = set(), [], []
        for c in cases:
            k = (c["form"], c["fractional"], c["lazy"])
            (rest if k in seen else first).append(c)
            seen.add(k)
        cases = first + rest[:24]
        ctx.notes["strata"] = len(seen)
    else:
        ctx.exhaustive = True
    evs = []
    for c in cases:
        evs.append(observe(c))
        ctx.case(json.dumps(c, sort_keys=True))
    for e in evs[:1] + evs[-1:]:
        ctx.sample(e)
    judge(ctx, evs)


def replay(ctx: Ctx, case):
    ev = observe(case["event"]["case"])
    ctx.case("replay")
    ctx.sample(ev)
    judge(ctx, [ev])
