"""C36  Distributions have the values and weights they advertise.

design  : TLC enumerates DistImpl (np.linspace grids of uniform()/gaussian(), divide chunkings) over a rational lattice and
          checks the value predicates of Distributions.tla on the model's grids
inputs  : every enumerated case executed on abtem.distributions (1-D and 2-D gaussians, negation of each, divide eager/lazy)
verdict : DistTrace: exact rational values (spacing, symmetry, limits, negation, partition); Gaussian profile and
          normalisation as logged deviations against an independent evaluation
"""
from __future__ import annotations

import json
import math
from fractions import Fraction

import numpy as np

from ..core import Ctx, Machinery
from ..rat import rat, exact, ppb
from .. import tlc

CFG = """SPECIFICATION Spec
CONSTANTS
  Lattice <- MC_Lattice
  Sigmas <- MC_Sigmas
  Limits <- MC_Limits
  MaxN = {n}
  Emit = TRUE
INVARIANT GridsOK
INVARIANT EmitCase
CHECK_DEADLOCK FALSE
"""


def F(x):
    return float(Fraction(x[0], x[1]))


def rl(a):
    return [rat(v) for v in np.asarray(a).ravel()]


def allexact(a):
    return all(exact(v) for v in np.asarray(a).ravel())


def run_case(c):
    import abtem.distributions as D
    evs = []
    ok = True
    if c["k"] == "uniform":
        ev = {"k": "uniform", "case": c, "raised": False, "lo": c["lo"], "hi": c["hi"], "n": c["n"], "endpoint": c["endpoint"],
              "vals": [], "w": []}
        try:
            # argument forms (NumPy scalars / 0-d arrays) and object routes (copy / deepcopy / pickle): same distribution
            from ..forms import reform
            from ..routes import reroute
            fk = c["n"] + c["lo"][0] + 3 * c["hi"][0]
            fm = lambda v, i: reform(v, (fk + i) % 3)
            d = D.uniform(fm(F(c["lo"]), 0), fm(F(c["hi"]), 1), fm(c["n"], 2) if (fk + 2) % 3 != 2 else c["n"], endpoint=c["endpoint"])
            d = reroute(d, fk)[0]
            ev["vals"], ev["w"] = rl(d.values), rl(d.weights)
            ok = allexact(d.values)
            evs.append(ev)
            nd = -d
            evs.append({"k": "neg", "case": c, "raised": False, "vals": rl(d.values), "nvals": rl(nd.values), "w": rl(d.weights),
                        "nw": rl(nd.weights)})
        except Exception as ex:
            ev["raised"] = True; ev["exc"] = repr(ex)[:200]
            evs.append(ev)
    elif c["k"] == "gaussian":
        for dim in (1, 2):
            ev = {"k": "gaussian", "case": c, "dim": dim, "raised": False, "c": c["c"], "sigma": c["sigma"], "limit": c["limit"],
                  "n": c["n"], "vals": [], "profile_ppb": 0, "norm_ppb": 0}
            try:
                cen, s, L = F(c["c"]), F(c["sigma"]), F(c["limit"])
                from ..forms import reform
                from ..routes import reroute
                fk = c["n"] + c["c"][0] + 3 * c["sigma"][0] + dim
                fm = lambda v, i: reform(v, (fk + i) % 2)          # as given / NumPy scalar
                g = D.gaussian(fm(s, 0), c["n"], dimension=dim, center=fm(cen, 1), sampling_limit=fm(L, 2), normalize=c["normalize"])
                g = reroute(g, fk)[0]
                for d in g.distributions:
                    e2 = dict(ev)
                    v, w = np.asarray(d.values, float), np.asarray(d.weights, float)
                    e2["vals"] = rl(v)
                    ok = ok and allexact(v)
                    ref = np.exp(-0.5 * (v - cen) ** 2 / s ** 2)
                    e2["profile_ppb"] = ppb(float(np.max(np.abs(w / w.max() - ref / ref.max())))) if len(w) else 0
                    nrm = float((w ** 2).sum()) if c["normalize"] == "intensity" else float(w.sum())
                    e2["norm_ppb"] = ppb(abs(nrm - 1.0))
                    evs.append(e2)
                    nd = -d
                    evs.append({"k": "neg", "case": c, "raised": False, "vals": rl(v), "nvals": rl(nd.values),
                                "w": [ppb(x) for x in w], "nw": [ppb(x) for x in np.asarray(nd.weights, float)]})
            except Exception as ex:
                ev["raised"] = True; ev["exc"] = repr(ex)[:200]
                evs.append(ev)
        # anisotropic two-dimensional distribution: per-axis sample counts / limits differ, so the axis order of the joint weights shows
        ev = {"k": "joint", "case": c, "raised": False, "shape": [], "weights_shape": [], "joint_ppb": 0}
        try:
            cen, s, L = F(c["c"]), F(c["sigma"]), F(c["limit"])
            g = D.gaussian((s, 2 * s), (c["n"], c["n"] + 2), dimension=2, center=(cen, -cen), sampling_limit=(L, L + 1.0), normalize=c["normalize"])
            w0, w1 = (np.asarray(d.weights, float) for d in g.distributions)
            W = np.asarray(g.weights, float)
            ev["shape"], ev["weights_shape"] = [int(x) for x in g.shape], [int(x) for x in W.shape]
            if list(W.shape) == [len(w0), len(w1)]:
                ev["joint_ppb"] = ppb(float(np.abs(W - np.multiply.outer(w0, w1)).max() / np.abs(W).max()))
            evs.append(ev)
        except Exception as ex:
            ev["raised"] = True; ev["exc"] = repr(ex)[:200]
            evs.append(ev)
        # tuple forms of the sample count with a single-sample axis: (n, 1), (1, n) and the one-dimensional (1,): every axis is the
        # one-dimensional distribution of ITS OWN count (one sample sits at the center)
        for counts, dim in (((c["n"], 1), 2), ((1, c["n"]), 2), ((1,), 1)):
            try:
                cen, s, L = F(c["c"]), F(c["sigma"]), F(c["limit"])
                g = D.gaussian(s, counts, dimension=dim, center=cen, sampling_limit=L, normalize=c["normalize"])
                dists = g.distributions if hasattr(g, "distributions") else [g]
                for n_axis, d in zip(counts, dists):
                    v, w = np.asarray(d.values, float), np.asarray(d.weights, float)
                    ref = np.exp(-0.5 * (v - cen) ** 2 / s ** 2)
                    nrm = float((w ** 2).sum()) if c["normalize"] == "intensity" else float(w.sum())
                    evs.append({"k": "gaussian", "case": dict(c, counts=list(counts)), "dim": dim, "raised": False, "c": c["c"], "sigma": c["sigma"], "limit": c["limit"],
                                "n": int(n_axis), "vals": rl(v), "profile_ppb": ppb(float(np.max(np.abs(w / w.max() - ref / ref.max())))) if len(w) else 0,
                                "norm_ppb": ppb(abs(nrm - 1.0))})
                    ok = ok and allexact(v)
            except Exception as ex:
                evs.append({"k": "gaussian", "case": dict(c, counts=list(counts)), "dim": dim, "raised": True, "exc": repr(ex)[:200], "c": c["c"], "sigma": c["sigma"],
                            "limit": c["limit"], "n": 1, "vals": [], "profile_ppb": 0, "norm_ppb": 0})
        # an existing distribution is not changed by what is created afterwards (same sample count and limit, the other normalisation)
        ev = {"k": "stable", "case": c, "raised": False, "changed_ppb": 0}
        try:
            cen, s, L = F(c["c"]), F(c["sigma"]), F(c["limit"])
            g1 = D.gaussian(s, c["n"], center=cen, sampling_limit=L, normalize=c["normalize"])
            v0, w0 = np.array(g1.values, float), np.array(g1.weights, float)
            other = D.gaussian(2 * s, c["n"], center=0.0, sampling_limit=L, normalize="amplitude" if c["normalize"] == "intensity" else "intensity")
            _ = (other.weights, (-other).weights, [b for b in other.divide(1, lazy=False)] if c["n"] >= 1 else None)
            dv = float(np.abs(np.asarray(g1.values, float) - v0).max())
            dw = float(np.abs(np.asarray(g1.weights, float) - w0).max() / max(float(np.abs(w0).max()), 1e-30))
            ev["changed_ppb"] = ppb(max(dv, dw))
            evs.append(ev)
        except Exception as ex:
            ev["raised"] = True; ev["exc"] = repr(ex)[:200]
            evs.append(ev)
    else:
        n, ch = c["n"], tuple(c["chunks"])
        vals = np.array([0.5 * i - 1.25 for i in range(n)])
        w = np.array([1.0 + 0.25 * i for i in range(n)])
        for lazy in (False, True):
            ev = {"k": "divide", "case": c, "lazy": lazy, "raised": False, "vals": rl(vals), "w": rl(w), "chunks": list(ch),
                  "bvals": [], "bw": []}
            try:
                d = D.from_values(vals, w)
                blocks = d.divide(ch, lazy=lazy)
                if lazy:
                    blocks = blocks.compute(scheduler="synchronous")
                ev["bvals"] = [rl(b.values) for b in blocks]
                ev["bw"] = [rl(b.weights) for b in blocks]
            except Exception as ex:
                ev["raised"] = True; ev["exc"] = repr(ex)[:200]
            evs.append(ev)
    return evs, ok


def tags_for(ev, clauses):
    return {"clauses": sorted(clauses), "k": ev["k"], "n": ev.get("n", ev["case"].get("n")), "single_sample": ev["case"].get("n") == 1}


def judge(ctx: Ctx, evs):
    res = ctx.validate("DistTrace", [[e] for e in evs], "DistTrace.cfg")
    for e, (ok, bad) in zip(evs, res):
        if not ok:
            tg = tags_for(e, bad[0][1])
            ctx.report(tg, {"event": e}, f"{e['k']}: {','.join(tg['clauses'])}: {json.dumps(e['case'])[:200]} {e.get('exc', '')}")


def self_test(ctx: Ctx):
    q = lambda a, b=1: [a, b]
    good = {"k": "uniform", "raised": False, "lo": q(0), "hi": q(2), "n": 3, "endpoint": True, "vals": [q(0), q(1), q(2)], "w": [q(1)] * 3}
    c1 = dict(good, vals=[q(0), q(1, 2), q(2)])
    g = {"k": "gaussian", "raised": False, "c": q(1), "sigma": q(1, 2), "limit": q(3), "n": 3, "vals": [q(-1, 2), q(1), q(5, 2)],
         "profile_ppb": 3, "norm_ppb": 0}
    g1 = dict(g, vals=[q(-1, 2), q(1), q(2)])
    g2 = dict(g, norm_ppb=10 ** 8)
    res = ctx.validate("DistTrace", [[good], [c1], [g], [g1], [g2]], "DistTrace.cfg")
    if not (res[0][0] and res[2][0]) or res[1][0] or res[3][0] or res[4][0]:
        raise Machinery(f"DistTrace self-test failed: {res}")
    ctx.notes["binding_selftest"] = {"good_accepted": True, "uneven_spacing_rejected": res[1][1], "asymmetric_rejected": res[3][1],
                                    "bad_norm_rejected": res[4][1]}


def run(ctx: Ctx):
    quick = ctx.tier == "quick"
    ctx.rule = ("uniform(lo, hi, n, endpoint) and gaussian(sigma, n, center, limit, normalize; 1-D and 2-D) over a rational lattice, "
                "anisotropic 2-D Gaussians (joint weights against the outer product of the per-axis weights), stability of an existing distribution under later creations, divide() over every chunking, negation of every distribution; all cases enumerated by TLC from DistImpl; "
                "non-trivial = n >= 2")
    r = ctx.design_check("MCDist", cfg_text=CFG.format(n=5 if quick else 7), label="DistImpl=>Distributions", workers=1, timeout=3000)
    self_test(ctx)
    cases = [json.loads(tlc.tla_value_to_py(s)[1]) for s in r.printed("CASE")]
    evs, skipped = [], 0
    for c in cases:
        e, ok = run_case(c)
        if not ok:
            skipped += 1
            continue
        evs.extend(e)
        ctx.case(json.dumps(c), nontrivial=c["n"] >= 2)
    # decimal limits (not dyadic, so (hi - lo) / n is not a float the lattice ever produces): the sample count and the half-open
    # interval must not depend on how a step computed in floating point accumulates; same clauses of DistTrace decide
    dec = [dict(k="uniform", lo=[a, 10], hi=[b, 10], n=n, endpoint=ep, decimal=True)
           for a in (-20, -13, 1) for b in (1, 7, 29) if a < b for n in (range(2, 41) if not quick else range(2, 41, 1)) for ep in (False, True)]
    ndec = 0
    for c in dec:
        e, ok = run_case(c)
        if not ok:
            skipped += 1
            continue
        evs.extend(e)
        ndec += 1
        ctx.case(json.dumps(c), nontrivial=True)
    ctx.notes["decimal_limit_cases"] = ndec
    ctx.exhaustive = True
    ctx.notes["cases_from_tlc"] = len(cases)
    ctx.notes["inexact_cases_skipped"] = skipped
    for e in evs[:1] + evs[len(evs) // 2: len(evs) // 2 + 1] + evs[-1:]:
        ctx.sample(e)
    judge(ctx, evs)


def replay(ctx: Ctx, case):
    evs, _ = run_case(case["event"]["case"])
    ctx.case("replay")
    ctx.sample(evs[0])
    judge(ctx, evs)
