"""C27  Structure factors respect crystal symmetry.

design  : Bloch.tla defines "forbidden by the centering" through the integer lattice sum L(h) = Sum_t (-1)^(2 h.t) over the centring
          translations; BlochImpl.tla transcribes get_reflection_condition's parity formulas and the raveled-index lookup and TLC checks
          condition == (L(h) # 0) on the cube |h| <= N for all six centerings, closure of allowed reflections under differences, and
          injectivity of the raveled key (the code before the fix raises for A / B / C: counterexample cen = "A")
inputs  : get_reflection_condition on the cube |h| <= 3 for every centering; StructureFactor for 10 crystals (F, I, P, A, B, C centred,
          orthohexagonal hcp, two-element) plus two primitive crystals with one species on a centred sub-lattice) x thermal sigma x partial occupancy x g_max x lazy x default / few-kB dask chunk-size, enumerated by TLC
verdict : BlochTrace: observed condition = lattice sum; F(-h) = conj F(h); reflections with L(h) = 0 have no structure factor and are
          not tabulated with the crystal's centering (and all others are); lattice translation leaves F unchanged; potential real
"""
from __future__ import annotations

import json
import random

from ..core import Ctx, Machinery
from .. import tlc
from .. import bloch


def tags_for(ev, clauses):
    if ev["k"] == "refl":
        return {"clauses": sorted(clauses), "k": "refl", "centering": ev["centering"]}
    c = ev["case"]
    return {"clauses": sorted(clauses), "k": ev["k"], "centering": ev.get("centering"), "crystal": c["crystal"]}


def self_test(ctx: Ctx):
    r = {"k": "refl", "centering": "I", "hkl": [[1, 0, 0], [1, 1, 0], [-1, 2, 1]], "allowed": [False, True, True], "raised": False}
    s = {"k": "sf", "centering": "C", "raised": False, "friedel_ppb": 10, "mag": [[1, 0, 0, 3], [1, 1, 0, 700000000], [0, 0, 1, 900000000], [0, 1, 0, 12]],
         "tabulated": [[1, 1, 0], [0, 0, 1]], "translation_ppb": 5, "imag_ppb": 0, "period_ppb": 0, "lazy_ppb": 0, "auto_dropped_nonzero": 0, "friedel_missing": 0}
    bads = [dict(r, allowed=[True, True, True]), dict(r, raised=True), dict(s, mag=[[1, 0, 0, 10 ** 7]] + s["mag"][1:]), dict(s, tabulated=[[1, 1, 0], [0, 0, 1], [1, 0, 0]]),
            dict(s, tabulated=[[1, 1, 0]]), dict(s, friedel_ppb=10 ** 6), dict(s, translation_ppb=10 ** 6), dict(s, imag_ppb=10 ** 6), dict(s, auto_dropped_nonzero=3), dict(s, friedel_missing=2)]
    res = ctx.validate("BlochTrace", [[r], [s]] + [[b] for b in bads], "BlochTrace.cfg")
    if not all(x[0] for x in res[:2]) or any(x[0] for x in res[2:]):
        raise Machinery(f"BlochTrace (C27) self-test failed: {res}")
    ctx.notes["binding_selftest"] = {"good_accepted": 2, "rejected": [x[1] for x in res[2:]]}


def run(ctx: Ctx):
    quick = ctx.tier == "quick"
    ctx.rule = ("reflection condition on the cube |h| <= 3 for P, I, F, A, B, C; structure-factor scenarios = crystal (Si, Cu, NaCl: F; Fe: I; "
                "Po, CsCl: P; orthorhombic A, B, C centred; orthohexagonal Mg: C) plus two primitive crystals with one species on a centred sub-lattice) x thermal sigma x partial occupancy x g_max x lazy x default / few-kB dask chunk-size, "
                "enumerated by TLC; non-trivial = centred cells (some reflection forbidden)")
    ctx.design_check("BlochImpl", cfg_text=bloch.IMPL_CFG.format(n=1 if quick else 2), label="BlochImpl=>Bloch!Allowed", timeout=3000)
    r = ctx.design_check("Bloch", "Bloch.cfg", label="scenario space", workers=1)
    self_test(ctx)
    cases = [json.loads(tlc.tla_value_to_py(s)[1]) for s in r.printed("CASE")]
    cases = [c for c in cases if c["k"] == "sf"]
    ctx.notes["cases_from_tlc"] = len(cases)
    rng = random.Random(ctx.seed)
    cases.sort(key=lambda c: json.dumps(c, sort_keys=True))
    rng.shuffle(cases)
    evs = [bloch.reflection_event(cen) for cen in "PIFABC"]
    for cen in "PIFABC":
        ctx.case(("refl", cen), nontrivial=cen != "P")
    if quick:
        seen, pick = set(), []
        for c in cases:                      # one scenario per crystal and per (crystal, small_chunks, lazy) first, then more
            ks = [("x", c["crystal"]), ("s", c["crystal"], c["small_chunks"]), ("l", c["small_chunks"], c["lazy"], c["g_max"]), ("h", c["crystal"], c["hard_cutoff"], c["g_max"])]
            if any(k not in seen for k in ks):
                seen.update(ks); pick.append(c)
        cases = pick + [c for c in cases if c not in pick][:6]
    else:
        ctx.exhaustive = True
    for c in cases:
        evs.append(bloch.sf_event(c))
        ctx.case(json.dumps(c, sort_keys=True), nontrivial=bloch.crystal(c["crystal"])[1] != "P")
    for e in evs[6:7] + evs[-1:]:
        ctx.sample({k: (v if k not in ("mag", "tabulated") else v[:5]) for k, v in e.items()})
    bloch.judge(ctx, evs, tags_for)


def replay(ctx: Ctx, case):
    e = case["event"]
    ev = bloch.reflection_event(e["centering"]) if e["k"] == "refl" else bloch.sf_event(e["case"])
    ctx.case("replay")
    ctx.sample({k: (v if k not in ("mag", "tabulated", "hkl", "allowed") else v[:5]) for k, v in ev.items()})
    bloch.judge(ctx, [ev], tags_for)
