"""C13  Polar measurements integrate exactly the bins inside the requested limits.

design  : TLC enumerates PolarImpl (limit -> bin index conversion per axis, slicing) for every bin count, sampling, offset and
          every pair of bin-edge-aligned limits and checks the selected bin set against Polar.tla
inputs  : every enumerated case on the real PolarMeasurements.integrate; the measurement is the one-hot ensemble over bins,
          so the returned vector IS the indicator of the summed bin set (exact decode); partitions of each axis
verdict : PolarTrace: selected set = bins inside the limits; no limits = all bins; partitions are disjoint and cover
"""
from __future__ import annotations

import json
import math
import random
from fractions import Fraction

import numpy as np

from ..core import Ctx, Machinery
from .. import tlc

CFG = """SPECIFICATION Spec
CONSTANTS
  MaxR = {r}
  MaxA = {a}
  RSamplings <- MC_RS
  ROffsets <- MC_RO
  AOffsets <- MC_AO
  Emit = TRUE
  ClampNegative = TRUE
INVARIANT SliceOK
INVARIANT EmitCase
CHECK_DEADLOCK FALSE
"""


def F(x):
    return float(Fraction(x[0], x[1]))


def measurement(nr, na, rs, ro, ao, lazy):
    import abtem
    from abtem.core.axes import ScanAxis
    nb = nr * na
    arr = np.zeros((nb, nr, na), dtype=np.float32)
    for b in range(nb):
        arr[b, b // na, b % na] = 1.0
    if lazy:
        import dask.array as da
        arr = da.from_array(arr, chunks=(max(1, nb // 2), nr, na))
    return abtem.measurements.PolarMeasurements(arr, radial_sampling=F(rs), azimuthal_sampling=2 * math.pi / na,
                                                radial_offset=F(ro), azimuthal_offset=F(ao) * math.pi,
                                                ensemble_axes_metadata=[ScanAxis(label="x", sampling=0.1, units="Å")])


def decode(res):
    if hasattr(res, "compute"):
        res = res.compute()
    v = np.asarray(res.array, dtype=float).ravel()
    sel = [int(i) for i in np.nonzero(np.abs(v) > 1e-6)[0]]
    unit = bool(np.all((np.abs(v) < 1e-6) | (np.abs(v - 1.0) < 1e-6)))
    return sel, unit


def integrate_event(c, lazy=False):
    ev = {"k": "integrate", "case": c, "lazy": lazy, "raised": False, "selected": [], "unit_weights": True}
    ev.update({k: c[k] for k in ("nr", "na", "rs", "ro", "as", "ao", "rl", "al")})
    try:
        m = measurement(c["nr"], c["na"], c["rs"], c["ro"], c["ao"], lazy)
        rl = None if c["rl"] == [] else (F(c["rl"][0]), F(c["rl"][1]))
        al = None if c["al"] == [] else (F(c["al"][0]) * math.pi, F(c["al"][1]) * math.pi)
        # argument forms: the same limits as NumPy scalars, lists, 0-d arrays or arrays
        from ..forms import reform
        fk = c["nr"] + 2 * c["na"] + (0 if c["rl"] == [] else c["rl"][0][0]) + (0 if c["al"] == [] else c["al"][1][0])
        rl, al = reform(rl, fk), reform(al, fk + 1)
        if (c["nr"] * 3 + c["na"]) % 4 == 0:
            # the same measurement object has been integrated before, over everything and over these limits (results discarded)
            m.integrate()
            m.integrate(radial_limits=rl, azimuthal_limits=al)
        if al is None and rl is not None and (c["nr"] + c["na"]) % 2 == 0:
            res = m.integrate_radial(rl[0], rl[1])
        else:
            res = m.integrate(radial_limits=rl, azimuthal_limits=al)
        ev["selected"], ev["unit_weights"] = decode(res)
    except Exception as ex:
        ev["raised"] = True
        ev["exc"] = f"{type(ex).__name__}: {ex}"[:200]
    return ev


def partition_event(c, axis, cuts):
    """integrate over consecutive limit pairs cut at the given bin edges (0 = first edge, n = last)"""
    ev = {"k": "partition", "case": c, "axis": axis, "cuts": cuts, "raised": False, "parts": [], "nr": c["nr"], "na": c["na"]}
    try:
        m = measurement(c["nr"], c["na"], c["rs"], c["ro"], c["ao"], False)
        for a, b in zip(cuts, cuts[1:]):
            if axis == "radial":
                lim = (F(c["ro"]) + a * F(c["rs"]), F(c["ro"]) + b * F(c["rs"]))
                res = m.integrate(radial_limits=lim)
            else:
                lim = ((F(c["ao"]) + a * 2.0 / c["na"]) * math.pi, (F(c["ao"]) + b * 2.0 / c["na"]) * math.pi)
                res = m.integrate(azimuthal_limits=lim)
            ev["parts"].append(decode(res)[0])
    except Exception as ex:
        ev["raised"] = True
        ev["exc"] = f"{type(ex).__name__}: {ex}"[:200]
    return ev


def tags_for(ev, clauses):
    c = ev["case"]
    return {"clauses": sorted(clauses), "k": ev["k"], "radial_limits": c.get("rl") != [], "azimuthal_limits": c.get("al") != [],
            "radial_offset_zero": c["ro"][0] == 0, "azimuthal_offset_zero": c["ao"][0] == 0}


def judge(ctx: Ctx, evs):
    res = ctx.validate("PolarTrace", [[e] for e in evs], "PolarTrace.cfg")
    for e, (ok, bad) in zip(evs, res):
        if not ok:
            tg = tags_for(e, bad[0][1])
            ctx.report(tg, {"event": e}, f"{e['k']}: {','.join(tg['clauses'])}: {json.dumps(e['case'])[:220]} selected={e.get('selected')} {e.get('exc', '')}")


def self_test(ctx: Ctx):
    q = lambda a, b=1: [a, b]
    good = {"k": "integrate", "raised": False, "nr": 2, "na": 2, "rs": q(1, 2), "ro": q(0), "as": q(1), "ao": q(0), "rl": [q(1, 2), q(1)],
            "al": [], "selected": [2, 3], "unit_weights": True}
    c1 = dict(good, selected=[2])
    c2 = dict(good, rl=[], selected=[0, 1, 2])
    p = {"k": "partition", "raised": False, "nr": 2, "na": 2, "parts": [[0, 1], [2]]}
    res = ctx.validate("PolarTrace", [[good], [c1], [c2], [p]], "PolarTrace.cfg")
    if not res[0][0] or res[1][0] or res[2][0] or res[3][0]:
        raise Machinery(f"PolarTrace self-test failed: {res}")
    ctx.notes["binding_selftest"] = {"good_accepted": True, "missing_bin_rejected": res[1][1], "total_missing_bin_rejected": res[2][1],
                                    "incomplete_partition_rejected": res[3][1]}


def run(ctx: Ctx):
    quick = ctx.tier == "quick"
    ctx.rule = ("(radial bins, azimuthal bins, radial sampling, radial offset, azimuthal offset, radial limits, azimuthal limits) "
                "(a quarter of the cases on a measurement object that was integrated before) with limits on bin edges, one bin below the first edge, inside a bin, or absent, all enumerated by TLC from PolarImpl; executed on a one-hot ensemble over "
                "the bins; plus partitions of each axis into 2-3 edge-aligned ranges; non-trivial = at least one limit given")
    r = ctx.design_check("MCPolar", cfg_text=CFG.format(r=3 if quick else 4, a=4 if quick else 6), label="PolarImpl=>Polar",
                         workers=1, timeout=3000)
    self_test(ctx)
    cases = [json.loads(tlc.tla_value_to_py(s)[1]) for s in r.printed("CASE")]
    ctx.notes["cases_from_tlc"] = len(cases)
    rng = random.Random(ctx.seed)
    if quick:
        rng.shuffle(cases)
        # every class of limit placement (absent / on edges / below the first bin / inside a bin, per axis) x offsets at every seed
        def cls(lim, o, s_):
            if lim == []:
                return "none"
            lo = Fraction(lim[0][0], lim[0][1]) - Fraction(o[0], o[1])
            k = lo / Fraction(s_[0], s_[1])
            return "below" if lo < 0 else ("edge" if k.denominator == 1 else "mid")
        seen, first, rest = set(), [], []
        for c in cases:
            k = (cls(c["rl"], c["ro"], c["rs"]), cls(c["al"], c["ao"], c["as"]), c["ro"][0] == 0, c["ao"][0] == 0)
            (rest if k in seen else first).append(c)
            seen.add(k)
        cases = first + rest[:2500]
        ctx.notes["strata"] = len(seen)
    else:
        ctx.exhaustive = True
    evs = []
    geoms = {}
    for j, c in enumerate(cases):
        evs.append(integrate_event(c, lazy=(j % 7 == 0)))
        ctx.case(json.dumps(c), nontrivial=c["rl"] != [] or c["al"] != [])
        geoms[json.dumps({k: c[k] for k in ("nr", "na", "rs", "ro", "as", "ao")}, sort_keys=True)] = c
    for g in geoms.values():
        for axis, n in (("radial", g["nr"]), ("azimuthal", g["na"])):
            for k in range(1, n):
                evs.append(partition_event(g, axis, [0, k, n]))
                ctx.case(("partition", json.dumps(g, sort_keys=True), axis, k))
            if n >= 3:
                evs.append(partition_event(g, axis, [0, 1, n - 1, n]))
                ctx.case(("partition3", json.dumps(g, sort_keys=True), axis))
    for e in evs[:2] + evs[-1:]:
        ctx.sample(e)
    judge(ctx, evs)


def replay(ctx: Ctx, case):
    e = case["event"]
    ev = integrate_event(e["case"], e.get("lazy", False)) if e["k"] == "integrate" else partition_event(e["case"], e["axis"], e["cuts"])
    ctx.case("replay")
    ctx.sample(ev)
    judge(ctx, [ev])
