"""C40  Center of mass and integrated gradients are exact on analytic inputs.

design  : shares PatternModel / Pattern.tla with C14: the frequency shown at each position of a shifted / unshifted pattern, and
          the shift algebra for odd and even sizes, are checked by TLC
inputs  : patterns holding a single bright pixel at every position of every axis (sizes 3..9, both layouts, units 1/A and mrad,
          eager and lazy), a random normalised pattern (linearity), gradients of single Fourier modes
verdict : PatternTrace: the decoded centre of mass of member a equals Freq(n, a) (integer arithmetic), the other component is
          zero, the weighted pattern gives the weighted mean; integrate_gradient(grad f) = f - min f (logged deviation)
"""
from __future__ import annotations

import json
import random

from ..core import Ctx, Machinery
from .. import tlc
from ..pattern import com_event, gradient_event
from .c14 import CFG, judge


def self_test(ctx: Ctx):
    good = {"k": "com", "raised": False, "n": [4, 3], "com": [[0, 1, -2, -1], [0, 1, -1]], "cross_zero": True, "linear_ppb": 10}
    b1 = dict(good, com=[[0, 1, 2, -1], [0, 1, -1]])
    b2 = dict(good, linear_ppb=10 ** 7)
    g = {"k": "gradient", "raised": False, "err_ppb": 10 ** 7}
    res = ctx.validate("PatternTrace", [[good], [b1], [b2], [g]], "PatternTrace.cfg")
    if not res[0][0] or res[1][0] or res[2][0] or res[3][0]:
        raise Machinery(f"PatternTrace self-test failed: {res}")
    ctx.notes["binding_selftest"] = {"good_accepted": True, "wrong_coordinate_rejected": res[1][1], "nonlinear_rejected": res[2][1],
                                    "gradient_mismatch_rejected": res[3][1]}


def run(ctx: Ctx):
    quick = ctx.tier == "quick"
    ctx.rule = ("centre of mass: sizes (nx, ny) in 3..9 (odd/even mixes) x fftshift {T, F} x units {1/A, mrad} x eager/lazy, one member per "
                "pixel position of each axis + one random normalised pattern; integrated gradient: sizes x samplings x Fourier modes x eager / lazy in one block / lazy chunked along x, y or both base axes; "
                "non-trivial = every case")
    ctx.design_check("PatternModel", cfg_text=CFG.format(n=9 if quick else 14), label="PatternModel=>Pattern", workers=1, timeout=3000)
    self_test(ctx)
    rng = random.Random(ctx.seed)
    sizes = [(3, 4), (4, 4), (5, 5), (6, 7), (8, 8), (9, 8), (7, 3)] if quick else [(a, b) for a in range(3, 10) for b in range(3, 10)]
    evs = []
    for n in sizes:
        for shifted in (True, False):
            for units in ("1/Å", "mrad"):
                lazy = (n[0] + n[1]) % 3 == 0
                evs.append(com_event(n, shifted, units, lazy, rng))
                ctx.case(("com", n, shifted, units, lazy))
                if (n[0] + n[1] + (1 if shifted else 0)) % 2 == 0:
                    evs.append(com_event(n, shifted, units, lazy, rng, reuse=True))
                    ctx.case(("com-reuse", n, shifted, units, lazy))
    for n in [(8, 8), (9, 7), (12, 10)] if quick else [(a, b) for a in (6, 7, 8, 9, 12) for b in (6, 7, 10)]:
        for mode in ((1, 0), (0, 1), (1, 1), (2, -1)):
            for samp in ((0.1, 0.1), (0.2, 0.15)):
                lazy = {(1, 0): False, (0, 1): "x_chunks", (1, 1): "whole", (2, -1): "xy_chunks"}[mode] if samp[0] == samp[1] else \
                    {(1, 0): "y_chunks", (0, 1): False, (1, 1): "x_chunks", (2, -1): "whole"}[mode]
                evs.append(gradient_event(n, mode, samp, lazy=lazy))
                ctx.case(("gradient", n, mode, samp, lazy))
                if mode in ((1, 0), (1, 1)):
                    evs.append(gradient_event(n, mode, samp, lazy=lazy, reuse=True))
                    ctx.case(("gradient-reuse", n, mode, samp, lazy))
    # every evaluation mode for every Fourier mode (a chunking along one axis only shows on fields that vary along that axis)
    for n in [(9, 7)] if quick else [(8, 8), (9, 7), (12, 10)]:
        for mode in ((1, 0), (0, 1), (1, 1), (2, -1)):
            for lazy in (False, "whole", "x_chunks", "y_chunks", "xy_chunks"):
                evs.append(gradient_event(n, mode, (0.2, 0.15), lazy=lazy))
                ctx.case(("gradient-all-modes", n, mode, lazy))
    # counts: patterns of integer dtype (detector counts) next to the float ones
    for n in sizes[:3] if quick else sizes[::4]:
        for dtype in ("int32", "uint16", "int64", "float64"):
            for units in ("1/Å", "mrad"):
                evs.append(com_event(n, True, units, False, rng, dtype=dtype))
                ctx.case(("com-dtype", n, units, dtype))
    ctx.exhaustive = not quick
    for e in evs[:1] + evs[-1:]:
        ctx.sample(e)
    judge(ctx, evs)


def replay(ctx: Ctx, case):
    e = case["event"]
    if e["k"] == "com":
        ev = com_event(tuple(e["n"]), e["shifted"], e["units"], e["lazy"], random.Random(0), reuse=e.get("reuse", False), dtype=e.get("dtype", "float32"))
    else:
        raise Machinery("gradient replays are re-run by the full check")
    ctx.case("replay")
    ctx.sample(ev)
    judge(ctx, [ev])
