"""C10  Potential building and slice windows are consistent.

design  : TLC explores PotentialBuildImpl (eager build loop writing each ensemble member at its own index, slice generation
          visiting every slice and yielding only the window) for every kind, member count, slice count and window
inputs  : every enumerated case on real Potential / PotentialArray / CrystalPotential objects with and without frozen phonons
verdict : PotentialBuildTrace: lazy = eager per member, each member = the potential of its own configuration, the window
          is exactly full[first:last] with the same exit-plane tags and thicknesses
"""
from __future__ import annotations

import json
import random
import warnings

import numpy as np

from ..core import Ctx, Machinery
from ..rat import ppb
from .. import tlc
from ..ms import relerr, arr, displaced_configurations

CFG = """SPECIFICATION Spec
CONSTANTS
  MaxMembers = {m}
  MaxSlices = {n}
  Emit = TRUE
INVARIANT BuildCorrect
INVARIANT WindowCorrect
INVARIANT EmitCase
CHECK_DEADLOCK FALSE
"""


def atoms_for(n, dz=2.0, lateral=4.0):
    from ase import Atoms
    pos, sym = [], []
    for i in range(n):
        pos.append(((0.7 + 0.9 * i) % lateral, (1.1 + 0.6 * i * i) % lateral, (i + 0.5) * dz))
        sym.append(["Si", "C", "O", "N"][i % 4])
    return Atoms(sym, positions=pos, cell=(lateral, lateral, n * dz), pbc=True)


def make(c, projection):
    import abtem
    m = c["members"]
    seeds = tuple([1000003, 17, 65537][i % 3] + i for i in range(m))
    if c["kind"] in ("potential", "array"):
        atoms = atoms_for(c["n"])
        src = abtem.FrozenPhonons(atoms, num_configs=m, sigmas=0.1, seed=seeds, ensemble_mean=False) if m > 1 else atoms
        pot = abtem.Potential(src, gpts=12, slice_thickness=2.0, exit_planes=2, projection=projection)
        refs = None
        if m > 1:
            refs = [abtem.Potential(a, gpts=12, slice_thickness=2.0, exit_planes=2, projection=projection) for a in displaced_configurations(src)]
        if c["kind"] == "array":
            return pot.build(lazy=False), None
        return pot, refs
    unit_atoms = atoms_for(c["unit"])
    if m > 1:
        fp = abtem.FrozenPhonons(unit_atoms, num_configs=3, sigmas=0.1, seed=(5, 6, 7), ensemble_mean=False)
        unit = abtem.Potential(fp, gpts=12, slice_thickness=2.0, projection=projection)
        with warnings.catch_warnings():
            warnings.simplefilter("ignore")
            pot = abtem.CrystalPotential(unit, repetitions=(1, 1, c["reps"]), seeds=seeds, exit_planes=2, ensemble_mean=False)
            refs = [abtem.CrystalPotential(unit, repetitions=(1, 1, c["reps"]), seeds=(s,), exit_planes=2) for s in seeds]
        return pot, refs
    unit = abtem.Potential(unit_atoms, gpts=12, slice_thickness=2.0, projection=projection)
    return abtem.CrystalPotential(unit, repetitions=(1, 1, c["reps"]), exit_planes=2), None


def build_event(c, projection):
    ev = {"k": "build", "case": c, "projection": projection, "raised": False, "shape_ok": True, "lazy_vs_eager_ppb": [], "eager_vs_member_ppb": [],
          "lazy_vs_member_ppb": []}
    try:
        pot, refs = make(c, projection)
        import zlib
        from ..routes import reroute
        pot, ev["route"] = reroute(pot, zlib.crc32(json.dumps([c, projection], sort_keys=True, default=str).encode()))     # through a copy / deepcopy / pickle
        f, l = c["first"], c["last"]
        e = np.asarray(pot.build(f, l, lazy=False).array)
        z = np.asarray(pot.build(f, l, lazy=True).compute().array)
        m = c["members"]
        ev["shape_ok"] = e.shape == z.shape and e.shape[-3] == l - f and (m == 1 or e.shape[0] == m)
        if m == 1:
            ev["lazy_vs_eager_ppb"] = [ppb(relerr(z, e))]
        else:
            ev["lazy_vs_eager_ppb"] = [ppb(relerr(z[i], e[i])) for i in range(min(m, e.shape[0], z.shape[0]))]
            for i, r in enumerate(refs):
                ra = np.squeeze(np.asarray(r.build(f, l, lazy=False).array))
                ev["eager_vs_member_ppb"].append(ppb(relerr(np.squeeze(e[i]), ra)))
                ev["lazy_vs_member_ppb"].append(ppb(relerr(np.squeeze(z[i]), ra)))
    except Exception as ex:
        ev["raised"] = True
        ev["exc"] = f"{type(ex).__name__}: {ex}"[:300]
    return ev


def window_event(c, projection):
    ev = {"k": "window", "case": c, "projection": projection, "raised": False, "first": c["first"], "last": c["last"], "indices": [],
          "tags_ok": True, "thickness_ok": True}
    try:
        pot, _ = make(dict(c, members=1), projection)
        if c["members"] > 1 and c["kind"] != "array":
            pot_m, _ = make(c, projection)
            # the window of one ensemble member (a block of the ensemble)
            pot = [b.item() for _, _, b in pot_m.generate_blocks(1)][c["members"] - 1]
        full = list(pot.generate_slices())
        win = list(pot.generate_slices(c["first"], c["last"]))
        fa = [np.asarray(s.array) for s in full]
        for j, s in enumerate(win):
            a = np.asarray(s.array)
            want = c["first"] + j
            if want < len(fa) and np.array_equal(a, fa[want]):
                ev["indices"].append(want)
            else:
                hit = [i for i, x in enumerate(fa) if np.array_equal(a, x)]
                ev["indices"].append(hit[0] if hit else -1)
            if want < len(full):
                ev["tags_ok"] = ev["tags_ok"] and tuple(s.exit_planes) == tuple(full[want].exit_planes)
                ev["thickness_ok"] = ev["thickness_ok"] and tuple(s.slice_thickness) == tuple(full[want].slice_thickness)
    except Exception as ex:
        ev["raised"] = True
        ev["exc"] = f"{type(ex).__name__}: {ex}"[:300]
    return ev


def tags_for(ev, clauses):
    c = ev["case"]
    return {"clauses": sorted(clauses), "k": ev["k"], "kind": c["kind"], "multi_member": c["members"] > 1, "window_starts_at_zero": c["first"] == 0,
            "window_ends_at_n": c["last"] == c["n"]}


def judge(ctx: Ctx, evs):
    res = ctx.validate("PotentialBuildTrace", [[e] for e in evs], "PotentialBuildTrace.cfg")
    for e, (ok, bad) in zip(evs, res):
        if not ok:
            tg = tags_for(e, bad[0][1])
            ctx.report(tg, {"event": e}, f"{e['k']} {json.dumps(e['case'])[:200]} {e['projection']}: {','.join(tg['clauses'])} "
                       f"{ {k: e[k] for k in e if k.endswith('_ppb') or k == 'indices'} } {e.get('exc', '')}")


def self_test(ctx: Ctx):
    b = {"k": "build", "raised": False, "shape_ok": True, "lazy_vs_eager_ppb": [0, 3], "eager_vs_member_ppb": [0, 0], "lazy_vs_member_ppb": [0, 0]}
    b1 = dict(b, eager_vs_member_ppb=[0, 10 ** 9])
    w = {"k": "window", "raised": False, "first": 1, "last": 3, "indices": [1, 2], "tags_ok": True, "thickness_ok": True}
    w1 = dict(w, indices=[0, 1])
    w2 = dict(w, indices=[1, 2, 3])
    res = ctx.validate("PotentialBuildTrace", [[b], [b1], [w], [w1], [w2]], "PotentialBuildTrace.cfg")
    if not (res[0][0] and res[2][0]) or res[1][0] or res[3][0] or res[4][0]:
        raise Machinery(f"PotentialBuildTrace self-test failed: {res}")
    ctx.notes["binding_selftest"] = {"good_accepted": True, "member_written_elsewhere_rejected": res[1][1], "shifted_window_rejected": res[3][1],
                                    "too_long_window_rejected": res[4][1]}


def run(ctx: Ctx):
    quick = ctx.tier == "quick"
    ctx.rule = ("(kind in Potential / PotentialArray / CrystalPotential, ensemble members 1..3, slices (unit x repetitions), window "
                "[first, last)) enumerated by TLC from PotentialBuildImpl; realised with and without frozen phonons, infinite and "
                "(every 5th case, thorough every 3rd) finite projection; non-trivial = window is a strict sub-range or more than one member")
    r = ctx.design_check("PotentialBuildImpl", cfg_text=CFG.format(m=3 if not quick else 2, n=4 if quick else 6), label="PotentialBuildImpl=>PotentialBuild",
                         workers=1, timeout=3000)
    self_test(ctx)
    cases = [json.loads(tlc.tla_value_to_py(s)[1]) for s in r.printed("CASE")]
    ctx.notes["cases_from_tlc"] = len(cases)
    rng = random.Random(ctx.seed)
    evs = []
    for j, c in enumerate(cases):
        proj = "finite" if (j + ctx.seed) % (5 if quick else 3) == 0 else "infinite"
        evs.append(window_event(c, proj))
        ctx.case(("window", json.dumps(c), proj), nontrivial=c["first"] > 0 or c["last"] < c["n"])
        if c["kind"] != "array" and c["first"] == 0 and c["last"] == c["n"]:      # C10 speaks of building the potential (all slices)
            evs.append(build_event(c, proj))
            ctx.case(("build", json.dumps(c), proj), nontrivial=c["members"] > 1)
    ctx.exhaustive = True
    for e in evs[:1] + evs[-1:]:
        ctx.sample(e)
    judge(ctx, evs)


def replay(ctx: Ctx, case):
    e = case["event"]
    ev = build_event(e["case"], e["projection"]) if e["k"] == "build" else window_event(e["case"], e["projection"])
    ctx.case("replay")
    ctx.sample(ev)
    judge(ctx, [ev])
