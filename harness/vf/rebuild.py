"""Growth (Rebuild.tla): abTEM objects built with non-default constructor arguments, sent along every route they travel in practice
(rebuilt from _copy_kwargs() as the lazy tasks do, copy(), deepcopy, pickle) and compared field by field over the constructor's
arguments.  Reported as drift only: no listed property states it, but a field lost on the way is how several seeded changes worked.
"""
from __future__ import annotations

import copy
import inspect
import pickle
import warnings

import numpy as np


def _same(a, b, depth=0):
    if depth > 6:
        return True
    if a is None or b is None:
        return a is b
    if isinstance(a, np.ndarray) or isinstance(b, np.ndarray):
        try:
            a_, b_ = np.asarray(a), np.asarray(b)
            return a_.shape == b_.shape and bool(np.array_equal(a_, b_))
        except Exception:
            return False
    if isinstance(a, (tuple, list)) and isinstance(b, (tuple, list)):
        return len(a) == len(b) and all(_same(x, y, depth + 1) for x, y in zip(a, b))
    if isinstance(a, dict) and isinstance(b, dict):
        return set(a) == set(b) and all(_same(a[k], b[k], depth + 1) for k in a)
    if callable(a) and callable(b) and not hasattr(a, "__dict__"):
        return getattr(a, "__name__", repr(a)) == getattr(b, "__name__", repr(b))
    if hasattr(a, "values") and hasattr(a, "weights") and hasattr(b, "values"):          # distributions
        return _same(np.asarray(a.values), np.asarray(b.values)) and _same(np.asarray(a.weights), np.asarray(b.weights))
    try:
        r = a == b
        if isinstance(r, np.ndarray):
            return bool(r.all())
        return bool(r)
    except Exception:
        return repr(a) == repr(b)


def makers():
    import abtem
    from ase import Atoms
    from abtem.core.grid import Grid
    from abtem.core.energy import Accelerator
    from abtem.multislice import FourierMultislice, RealSpaceMultislice, MultisliceTransform
    atoms = Atoms("SiC", positions=[(1.0, 1.2, 1.0), (2.5, 2.8, 3.0)], cell=(4.0, 5.0, 4.0), pbc=True)
    pot = lambda: abtem.Potential(atoms, gpts=(16, 20), slice_thickness=(1.0, 3.0), projection="finite", parametrization="kirkland", exit_planes=1)
    return {
        "Grid": lambda: Grid(extent=(8.0, 6.0), gpts=(16, 12), endpoint=(True, False), lock_sampling=True),
        "Grid(lock_gpts)": lambda: Grid(extent=(8.0, 6.0), gpts=(16, 12), lock_gpts=True),
        "Accelerator": lambda: Accelerator(energy=80e3, lock_energy=True),
        "Probe": lambda: abtem.Probe(energy=80e3, semiangle_cutoff=22.0, soft=False, extent=(8.0, 6.0), gpts=(24, 18), tilt=(2.0, -1.0), defocus=35.0,
                                     Cs=1.0e5, astigmatism=12.0, astigmatism_angle=0.3),
        "PlaneWave": lambda: abtem.PlaneWave(energy=120e3, extent=(8.0, 6.0), gpts=(24, 18), tilt=(1.0, 2.0), normalize=True),
        "CTF": lambda: abtem.CTF(energy=200e3, semiangle_cutoff=18.0, soft=False, defocus=-25.0, C30=2.0e4, focal_spread=20.0, angular_spread=0.5,
                                 extent=(8.0, 6.0), gpts=(24, 18)),
        "Aberrations": lambda: abtem.transfer.Aberrations(energy=100e3, Cs=1.0e5, C12=10.0, phi12=0.4, C23=30.0),
        "Aperture": lambda: abtem.Aperture(semiangle_cutoff=15.0, soft=False, energy=100e3, extent=(8.0, 6.0), gpts=(24, 18)),
        "TemporalEnvelope": lambda: abtem.transfer.TemporalEnvelope(focal_spread=30.0, energy=100e3),
        "SpatialEnvelope": lambda: abtem.transfer.SpatialEnvelope(angular_spread=1.5, energy=100e3, defocus=20.0),
        "Potential": pot,
        "FrozenPhonons": lambda: abtem.FrozenPhonons(atoms, num_configs=3, sigmas={"Si": 0.1, "C": 0.2}, seed=5, ensemble_mean=False, directions="xy"),
        "GridScan": lambda: abtem.GridScan(start=(0.5, 0.25), end=(3.0, 2.0), gpts=(3, 4), endpoint=(True, False)),
        "LineScan": lambda: abtem.LineScan(start=(0.5, 0.25), end=(3.0, 2.0), gpts=5, endpoint=False),
        "CustomScan": lambda: abtem.CustomScan(np.array([[0.5, 1.0], [2.0, 0.25]])),
        "AnnularDetector": lambda: abtem.AnnularDetector(inner=12.0, outer=48.0, offset=(1.0, -2.0), to_cpu=False),
        "FlexibleAnnularDetector": lambda: abtem.FlexibleAnnularDetector(step_size=2.5, inner=5.0, outer=60.0, to_cpu=False),
        "SegmentedDetector": lambda: abtem.SegmentedDetector(inner=10.0, outer=50.0, nbins_radial=2, nbins_azimuthal=3, rotation=0.4, offset=(1.0, 0.5)),
        "PixelatedDetector": lambda: abtem.PixelatedDetector(max_angle=40.0, resample="uniform", to_cpu=False),
        "WavesDetector": lambda: abtem.detectors.WavesDetector(to_cpu=True),
        "SMatrix": lambda: abtem.SMatrix(extent=(8.0, 6.0), gpts=(24, 18), energy=100e3, semiangle_cutoff=15.0, interpolation=(2, 1), downsample="valid"),
        "FourierMultislice": lambda: FourierMultislice(order=2, conjugate=True, transpose=True),
        "RealSpaceMultislice": lambda: RealSpaceMultislice(order=2, derivative_accuracy=4, expansion_scope="full"),
        "MultisliceTransform": lambda: MultisliceTransform(pot(), detectors=[abtem.AnnularDetector(inner=10.0, outer=30.0)],
                                                           algorithm=FourierMultislice(order=2, conjugate=True)),
        "distribution": lambda: abtem.distributions.gaussian(center=30.0, standard_deviation=5.0, num_samples=4, sampling_limit=2.5, ensemble_mean=False),
    }


def _keys(obj):
    try:
        params = inspect.signature(type(obj)).parameters
    except (TypeError, ValueError):
        return []
    return [k for k, v in params.items() if v.kind not in (v.VAR_POSITIONAL, v.VAR_KEYWORD)]


def probe():
    """-> list of {"cls", "route", "differing": [...], "error": str | None}; a route an object does not offer is skipped"""
    out = []
    with warnings.catch_warnings():
        warnings.simplefilter("ignore")
        for name, make in makers().items():
            try:
                obj = make()
            except Exception as ex:
                out.append({"cls": name, "route": "construct", "differing": [], "error": f"{type(ex).__name__}: {ex}"[:160]})
                continue
            routes = {"copy": lambda o: o.copy(), "deepcopy": copy.deepcopy, "pickle": lambda o: pickle.loads(pickle.dumps(o))}
            if hasattr(obj, "_copy_kwargs"):
                routes["rebuilt_from_copy_kwargs"] = lambda o: type(o)(**o._copy_kwargs())
            for rname, go in routes.items():
                if rname == "copy" and not hasattr(obj, "copy"):
                    continue
                try:
                    arrived = go(obj)
                except Exception as ex:
                    # a route the object does not offer in this form (e.g. _copy_kwargs() needs the class's own excludes): not travelled
                    out.append({"cls": name, "route": rname, "differing": [], "error": f"{type(ex).__name__}: {ex}"[:160]})
                    continue
                diff = []
                for k in _keys(obj):
                    try:
                        a, b = getattr(obj, k), getattr(arrived, k)
                    except Exception:
                        continue
                    if not _same(a, b):
                        diff.append(k)
                # private state that steers behaviour but is no constructor argument of the same name
                for k in ("_lock_extent", "_lock_gpts", "_lock_sampling", "_lock_energy", "_endpoint"):
                    if hasattr(obj, k) and not _same(getattr(obj, k), getattr(arrived, k, None)):
                        diff.append(k)
                out.append({"cls": name, "route": rname, "differing": sorted(set(diff)), "error": None})
    return out
