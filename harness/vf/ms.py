"""Shared helpers for the multislice-family checks: hook sink, small structures, comparisons, event encoding."""
from __future__ import annotations

import threading

import numpy as np

from .rat import fixed, ppb


class Sink:
    """Collects hook events (thread-safe).  events: list of (event, fields)."""

    def __init__(self):
        self.events = []
        self._lock = threading.Lock()

    def __call__(self, event, fields):
        with self._lock:
            self.events.append((event, dict(fields)))

    def __enter__(self):
        from abtem import _verif
        if not _verif._ENABLED:
            from .core import Machinery
            raise Machinery("hooks are disabled: ABTEM_VERIF=1 must be set before abtem is imported")
        _verif.install(self)
        return self

    def __exit__(self, *a):
        from abtem import _verif
        _verif.install(None)

    def ms_events(self):
        """Ms* events encoded for the trace spec (fixed point / interned fingerprints)."""
        out = []
        for e, f in self.events:
            if not e.startswith("Ms"):
                continue
            rec = {"e": e}
            if e == "MsBegin":
                rec.update(configs=f["configs"], slices=f["slices"], exit_planes=list(f["exit_planes"]), detectors=f["detectors"],
                           intermediate=bool(f["intermediate"]), norm=fixed(f["norm"], 1000), fp=f["fp"] % 1000003)
            elif e == "MsConfig":
                rec.update(config=list(f["config"]), norm=fixed(f["norm"], 1000), fp=f["fp"] % 1000003)
            elif e == "MsSlice":
                rec.update(slice=f["slice"], thickness=fixed(f["thickness"]), depth=fixed(f["depth"]), norm=fixed(f["norm"], 1000))
            elif e == "MsDetect":
                rec.update(plane=f["plane"], after_slice=f["after_slice"], depth=fixed(f["depth"]))
            out.append(rec)
        return out


def relerr(a, b):
    a, b = np.asarray(a), np.asarray(b)
    if a.shape != b.shape:
        return float("inf")
    scale = float(np.abs(b).max()) if b.size else 1.0
    return float(np.abs(a - b).max()) / max(scale, 1e-30)


def arr(x):
    """computed numpy array of an abTEM object (or list -> list)"""
    if hasattr(x, "compute"):
        x = x.compute(progress_bar=False) if "progress_bar" in x.compute.__code__.co_varnames else x.compute()
    return np.asarray(x.array)


def small_atoms(nz=3, dz=2.0, lateral=4.0, species=("Si", "C")):
    """orthogonal cell lateral x lateral x (nz*dz) with one atom per slab, off-centre"""
    from ase import Atoms
    pos, sym = [], []
    for i in range(nz):
        pos.append(((0.9 + 0.7 * i) % lateral, (1.3 + 1.1 * i) % lateral, (i + 0.5) * dz))
        sym.append(species[i % len(species)])
    return Atoms(sym, positions=pos, cell=(lateral, lateral, nz * dz), pbc=True)


def displaced_configurations(fp):
    """the displaced atoms of every configuration of a FrozenPhonons / AtomsEnsemble, as the library itself produces them"""
    out = []
    for _, _, block in fp.generate_blocks(1):
        b = block.item()
        out.append(b.randomize(b.atoms))
    return out
