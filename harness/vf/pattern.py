"""Shared driver code for the diffraction-pattern geometry checks (C14, C40)."""
from __future__ import annotations

import numpy as np

from .rat import ppb, rat

ENERGY = 100e3
DELTA = 2.0      # mrad per pixel of the full pattern


def freq(n, a):
    return a if a < (n + 1) // 2 else a - n


def freq_at(n, q, shifted):
    return q - n // 2 if shifted else freq(n, q)


def axis_family_waves(n, lazy=False):
    """members: (a, 0) for a < nx then (0, b) for b < ny -- all intensity of member at one frequency"""
    import abtem
    from abtem.core.energy import energy2wavelength
    from abtem.core.axes import OrdinalAxis
    nx, ny = n
    L = energy2wavelength(ENERGY) * 1e3 / DELTA
    k = np.zeros((nx + ny, nx, ny), dtype=np.complex64)
    for a in range(nx):
        k[a, a, 0] = 1.0
    for b in range(ny):
        k[nx + b, 0, b] = 1.0
    arr = (np.fft.ifft2(k) * np.sqrt(nx * ny)).astype(np.complex64)
    if lazy:
        import dask.array as da
        arr = da.from_array(arr, chunks=(nx, nx, ny))
    return abtem.Waves(arr, energy=ENERGY, extent=(L, L), ensemble_axes_metadata=[OrdinalAxis(label="member", values=tuple(range(nx + ny)))])


def crop_event(c, lazy=False):
    nx, ny = c["n"]
    ev = {"k": "crop", "case": c, "lazy": lazy, "raised": False, "n": [nx, ny], "n2": [0, 0], "shifted": bool(c["shifted"]), "parity": c["parity"],
          "full": c["angle"] == "full", "maps": [[], []], "beyond_grid": c["angle"] in ("edge", "beyond")}
    try:
        w = axis_family_waves((nx, ny), lazy)
        full_angle = min(nx // 2, ny // 2) * DELTA
        ang = {"full": "full", "cutoff": "cutoff", "valid": "valid", "a": 0.55 * full_angle, "b": 0.3 * full_angle,
               # a requested range that reaches the edge of the grid (within a pixel of the largest angle) or lies beyond it
               "edge": 0.97 * full_angle, "beyond": 1.3 * full_angle}[c["angle"]]
        dp = w.diffraction_patterns(max_angle=ang, parity=c["parity"], fftshift=bool(c["shifted"]))
        if lazy:
            dp = dp.compute()
        a = np.asarray(dp.array, dtype=float)
        n2 = a.shape[-2:]
        ev["n2"] = [int(n2[0]), int(n2[1])]
        thr = 1e-6 * max(a.max(), 1e-30)
        mx, my = [], []
        for m in range(nx):
            pos = np.argwhere(a[m] > thr)
            mx.append(int(pos[0][0]) if len(pos) == 1 else (-1 if len(pos) == 0 else -2))
        for m in range(ny):
            pos = np.argwhere(a[nx + m] > thr)
            my.append(int(pos[0][1]) if len(pos) == 1 else (-1 if len(pos) == 0 else -2))
        ev["maps"] = [mx, my]
    except Exception as ex:
        ev["raised"] = True
        ev["exc"] = f"{type(ex).__name__}: {ex}"[:300]
    return ev


def block_event(n, shifted, radius_q, margin, lazy=False, has_cutoff=False, cutoff_q=(9, 4), reuse=False):
    """radius_q: [num, den] in pixel units or None (radius left to the metadata); margin: "true" / "false" / "default";
    has_cutoff: the metadata records a semiangle cutoff (cutoff_q pixels).  The effective radius is computed by Pattern.tla."""
    import abtem
    nx, ny = n
    margin = {True: "true", False: "false"}.get(margin, margin)
    ev = {"k": "block", "n": [nx, ny], "shifted": shifted, "margin": margin, "lazy": lazy, "raised": False,
          "radius_given": list(radius_q) if radius_q is not None else [], "has_cutoff": bool(has_cutoff), "cutoff": list(cutoff_q),
          "zeroed": [], "others_unchanged": True, "reuse": bool(reuse)}
    try:
        from abtem.core.energy import energy2wavelength
        lam = energy2wavelength(ENERGY)
        samp = DELTA / (lam * 1e3)
        arr = np.ones((2, nx, ny), dtype=np.float32) * 3.0
        if lazy:
            import dask.array as da
            arr = da.from_array(arr, chunks=(1, nx, ny))
        from abtem.core.axes import OrdinalAxis
        md = {"energy": ENERGY}
        if has_cutoff:
            md["semiangle_cutoff"] = cutoff_q[0] / cutoff_q[1] * DELTA
        dp = abtem.measurements.DiffractionPatterns(arr, sampling=(samp, samp), fftshift=shifted, metadata=md,
                                                    ensemble_axes_metadata=[OrdinalAxis(values=(0, 1))])
        from .routes import reroute
        dp = reroute(dp, (n[0] if isinstance(n, (tuple, list)) else int(n)) + int(shifted) + (0 if radius_q is None else radius_q[0]))[0]          # the patterns arrive through a copy / deepcopy / pickle
        kw = {}
        if radius_q is not None:
            kw["radius"] = radius_q[0] / radius_q[1] * DELTA
        if margin != "default":
            kw["margin"] = margin == "true"
        if reuse:
            # the same pattern object was masked before with wider limits (results discarded): what this call blocks is unaffected
            first = dp.block_direct(radius=min(nx, ny) * 0.45 * DELTA)
            second = dp.bandlimit(0.0, min(nx, ny) * 0.3 * DELTA) if hasattr(dp, "bandlimit") else None
            for o in (first, second):
                if lazy and o is not None:
                    o.compute()
        out = dp.block_direct(**kw)
        if lazy:
            out = out.compute()
        a = np.asarray(out.array, dtype=float)[1]
        z = np.argwhere(a == 0.0)
        ev["zeroed"] = sorted([int(freq_at(nx, int(p[0]), shifted)), int(freq_at(ny, int(p[1]), shifted))] for p in z)
        ev["others_unchanged"] = bool(np.all((a == 0.0) | (a == 3.0)))
    except Exception as ex:
        ev["raised"] = True
        ev["exc"] = f"{type(ex).__name__}: {ex}"[:300]
    return ev


def com_event(n, shifted, units, lazy, rng, reuse=False, dtype="float32"):
    import abtem
    nx, ny = n
    ev = {"k": "com", "n": [nx, ny], "shifted": shifted, "units": units, "lazy": lazy, "raised": False, "com": [[], []], "cross_zero": True, "linear_ppb": 0,
          "reuse": bool(reuse), "dtype": dtype}
    try:
        from abtem.core.energy import energy2wavelength
        from abtem.core.axes import ScanAxis
        lam = energy2wavelength(ENERGY)
        samp = (0.04, 0.05)
        k = np.zeros((nx + ny + 1, nx, ny), dtype=np.float32)
        for a in range(nx):
            k[a, a, 0] = 1.0
        for b in range(ny):
            k[nx + b, 0, b] = 1.0
        wts = np.random.default_rng(rng.randrange(1 << 30)).random((nx, ny)).astype(np.float32)
        wts /= wts.sum()
        if dtype != "float32":
            wts = np.rint(wts * 5000.0)                    # counts (the centre of mass does not depend on the total)
            k = k * 7
        k[-1] = wts
        k = k.astype(dtype)
        wts = wts / wts.sum()
        arr = np.fft.fftshift(k, axes=(-2, -1)) if shifted else k
        if lazy:
            import dask.array as da
            arr = da.from_array(arr, chunks=(nx, nx, ny))
        dp = abtem.measurements.DiffractionPatterns(arr, sampling=samp, fftshift=shifted, metadata={"energy": ENERGY},
                                                    ensemble_axes_metadata=[ScanAxis(label="x", sampling=0.1, units="Å")])
        if reuse:
            # the pattern object has been measured before, in the other units and in these (results discarded)
            for u in (("mrad", "1/Å") if units == "1/Å" else ("1/Å", "mrad")):
                first = dp.center_of_mass(units=u)
                if lazy:
                    first.compute()
        out = dp.center_of_mass(units=units)
        if lazy:
            out = out.compute()
        v = np.asarray(out.array)
        sx, sy = (samp[0], samp[1]) if units == "1/Å" else (samp[0] * lam * 1e3, samp[1] * lam * 1e3)
        cx = [v[a].real / sx for a in range(nx)]
        cy = [v[nx + b].imag / sy for b in range(ny)]
        dec = lambda x: int(round(x)) if abs(x - round(x)) < 1e-3 else 999
        ev["com"] = [[dec(x) for x in cx], [dec(y) for y in cy]]
        ev["cross_zero"] = bool(all(abs(v[a].imag / sy) < 1e-3 for a in range(nx)) and all(abs(v[nx + b].real / sx) < 1e-3 for b in range(ny)))
        fx = np.array([freq(nx, a) for a in range(nx)]) * sx
        fy = np.array([freq(ny, b) for b in range(ny)]) * sy
        want = (wts * fx[:, None]).sum() + 1j * (wts * fy[None, :]).sum()
        ev["linear_ppb"] = ppb(abs(v[-1] - want) / max(abs(fx).max(), abs(fy).max()))
    except Exception as ex:
        ev["raised"] = True
        ev["exc"] = f"{type(ex).__name__}: {ex}"[:300]
    return ev


def gradient_event(n, mode, sampling, lazy, reuse=False):
    """f = single Fourier mode (band-limited, periodic); integrate_gradient(grad f) == f - min f"""
    import abtem
    nx, ny = n
    ev = {"k": "gradient", "n": [nx, ny], "mode": list(mode), "lazy": lazy, "raised": False, "err_ppb": 0, "reuse": bool(reuse)}
    try:
        x = np.arange(nx)[:, None] * sampling[0]
        y = np.arange(ny)[None, :] * sampling[1]
        Lx, Ly = nx * sampling[0], ny * sampling[1]
        kx, ky = 2 * np.pi * mode[0] / Lx, 2 * np.pi * mode[1] / Ly
        f = np.cos(kx * x + ky * y + 0.3) + 0.5 * np.sin(kx * x - 2 * ky * y) if max(abs(mode[0]), abs(mode[1])) * 2 < min(nx, ny) // 2 else np.cos(kx * x + ky * y)
        gx = -kx * np.sin(kx * x + ky * y + 0.3) + 0.5 * kx * np.cos(kx * x - 2 * ky * y)
        gy = -ky * np.sin(kx * x + ky * y + 0.3) - ky * np.cos(kx * x - 2 * ky * y)
        if not (max(abs(mode[0]), abs(mode[1])) * 2 < min(nx, ny) // 2):
            gx, gy = -kx * np.sin(kx * x + ky * y), -ky * np.sin(kx * x + ky * y)
        g = (gx + 1j * gy).astype(np.complex64)[None]
        if lazy:
            import dask.array as da
            # the lazy input may be chunked along its base axes too (a centre-of-mass image of a 4D-STEM scan computed block-wise is)
            cx = {"x_chunks": (nx // 2, nx - nx // 2), "xy_chunks": (nx // 3, nx - nx // 3)}.get(lazy, (nx,))
            cy = {"y_chunks": (ny // 2, ny - ny // 2), "xy_chunks": (ny - 2, 2)}.get(lazy, (ny,))
            g = da.from_array(g, chunks=((1,), cx, cy))
        from abtem.core.axes import OrdinalAxis
        im = abtem.Images(g, sampling=sampling, ensemble_axes_metadata=[OrdinalAxis(values=(0,))])
        if reuse:
            first = im.integrate_gradient()          # the same gradient images integrated before (result discarded)
            if lazy:
                first.compute()
        out = im.integrate_gradient()
        if lazy:
            out = out.compute()
        got = np.asarray(out.array, dtype=float)[0]
        ref = f - f.min()
        ev["err_ppb"] = ppb(float(np.abs(got - ref).max()) / float(np.abs(ref).max()))
    except Exception as ex:
        ev["raised"] = True
        ev["exc"] = f"{type(ex).__name__}: {ex}"[:300]
    return ev
