"""Registry of claimed checks: the single source MANIFEST.json is generated from (tools/gen_manifest.py)."""

NOTE_COMMON = ("Trusted: TLC/SANY 1.8, JVM, CPython, numpy. Verdicts come only from executions of the real code (current "
               "/repo working tree via PYTHONPATH) rejected by the property-level TLA+ trace specification; the "
               "implementation-shaped model is checked against the property-level spec by TLC within the stated bounds.")

CHECKS = {
    "C17": dict(
        text=("TLC checks exhaustively (all lock/endpoint combinations, histories to depth 3 quick / 5 thorough over 4x4x4 "
              "rational alphabets) that the transcription of the Grid setters (GridImpl.tla) refines the property-level "
              "step relation (Grid.tla: consistency, locks, reciprocal sampling); the histories TLC emits plus seeded random "
              "1-D/2-D histories are replayed on the real Grid class and every recorded state is validated by GridTrace.tla."),
        technique="TLA+ refinement check (TLC) + spec-generated histories replayed on the real class + TLC trace validation",
        design_ref="DESIGN.md 5 C17",
        note=NOTE_COMMON + " Rationals with denominator <= 4096 are recovered exactly from floats; inexact traces are skipped and counted.",
    ),
}

NOT_APPLICABLE = {
    "C24": "closed-form real-analysis identities of single pure functions (sqrt, no state/ordering/index structure); TLC has no reals - DESIGN.md 6",
    "C25": "numerical quadrature / Hankel-transform consistency over tabulated coefficients; nothing discrete for a TLA+ model to decide - DESIGN.md 6",
}
