"""Registry of claimed checks: the single source MANIFEST.json is generated from (tools/gen_manifest.py)."""

NOTE_COMMON = ("Trusted: TLC/SANY 1.8, JVM, CPython, numpy. Verdicts come only from executions of the real code (current "
               "/repo working tree via PYTHONPATH) rejected by the property-level TLA+ trace specification; the "
               "implementation-shaped model is checked against the property-level spec by TLC within the stated bounds.")

CHECKS = {
    "C17": dict(
        text=("TLC checks exhaustively (all lock/endpoint combinations, histories to depth 3 quick / 5 thorough over 4x4x4 "
              "rational alphabets) that the transcription of the Grid setters (GridImpl.tla) refines the property-level "
              "step relation (Grid.tla: consistency, locks, reciprocal sampling); the histories TLC emits plus seeded random "
              "1-D/2-D histories are replayed on the real Grid class and every recorded state is validated by GridTrace.tla."
              " Batch 8: actions Copy (copy / deepcopy / pickle replaces the grid) and Match (with a fully defined grid without end points) in the random histories; every numeric argument in another form (NumPy scalar, 0-d array, list, array)."),
        technique="TLA+ refinement check (TLC) + spec-generated histories replayed on the real class + TLC trace validation",
        design_ref="DESIGN.md 5 C17",
        note=NOTE_COMMON + " Rationals with denominator <= 4096 are recovered exactly from floats; inexact traces are skipped and counted.",
    ),
    "C18": dict(
        text=("TLC explores ChunksImpl (validate_chunks dispatch, fill_in_chunk_sizes, the round-robin growth loop of "
              "_auto_chunks one iteration per step, equal_sized_chunks) for every shape in (1..4)^{1,2} (thorough: rank 3), every "
              "per-dimension specification (auto, -1, each int, explicit tuples incl. a mismatching one) and 7-11 element "
              "limits, and checks the Chunks.tla predicates (partition, limit when a valid chunking exists, equal-sized, "
              "contiguous ranges); every enumerated call plus seeded random larger calls is executed on the real functions "
              "and the returned values are validated by ChunksTrace.tla; the model's predicted results are compared with the "
              "code's (model_drift)."
              " Batch 8: the element limit as an int, as a byte string for the dtype and as \"auto\" under dask.chunk-size set after import; NumPy integers for equal_sized_chunks."),
        technique="TLA+ model of the chunking algorithms checked with TLC; TLC-enumerated calls executed on the real functions; TLC trace validation of returned values",
        design_ref="DESIGN.md 5 C18",
        note=NOTE_COMMON + " Byte-derived 'auto' limits are replaced by explicit element limits; zero-length dimensions are not enumerated.",
    ),
    "C34": dict(
        text=("TLC checks exhaustively (nesting depth 2, histories of 4-5 events, every 1- and 2-item set over flat, nested, new, "
              "hyphen/underscore-aliased and nest-under-scalar keys; ~10^6 transitions) that ConfigImpl (set.__init__/_assign/"
              "_record/__exit__ with canonical_name folding and constructor rollback) refines Config.tla: every Exit restores "
              "the configuration observed before the matching Enter.  TLC-emitted and simulated nestings plus seeded random "
              "nestings over real abTEM keys (dict values, keyword form, exceptions at every depth, failing constructors) are "
              "run on the real global abtem.config and the full flattened configuration after every event is validated by "
              "ConfigTrace.tla."
              " Growth (drift only): ConfigThreads.tla - contexts of two threads interleaving on the global configuration; TLC shows restoration holds for globally nested interleavings and disjoint keys and fails otherwise; emitted interleavings replayed with real threads."
              " Batch 8: a quarter of the random nestings run on contexts created with config=<a dictionary of the caller's>; the recorded state is then the pair (that dictionary, the global configuration)."),
        technique="TLA+ refinement check (TLC) + spec-generated nestings replayed on the real config + TLC trace validation",
        design_ref="DESIGN.md 5 C34",
        note=NOTE_COMMON + " LIFO nestings only; values compared by (type, repr).",
    ),
    "C33": dict(
        text=("TLC checks UnitsImpl (factor table in the log domain 10^e*(180/pi)^d, alias normalisation, factor = "
              "table[new]/table[old], axis conversion as an accumulated factor) against the composition and inversion laws "
              "of Units.tla for every path of up to 4 (thorough 5) units within each category, and emits every path; each "
              "path is walked on the real get_conversion_factor and LinearAxis.convert_units (three sampling/offset pairs) "
              "and the logged deviations chain-vs-direct and round-trip-vs-identity are decided by UnitsTrace.tla.  The "
              "enumeration is exhaustive for the unit set the library declares."
              " Batch 8: samplings / offsets that happen to be integers (Python and NumPy)."),
        technique="TLA+ model of the unit table checked with TLC; TLC-enumerated conversion paths executed on the real code; TLC trace validation",
        design_ref="DESIGN.md 5 C33",
        note=NOTE_COMMON + " Deviations are computed in float64 by the harness and logged in parts per billion; tolerance 1e-6.",
    ),
    "C35": dict(
        text=("TLC explores AxesModel: all histories (depth 3) of index expressions (Python slice semantics with None/negative "
              "parts and steps, integers, integer lists, boolean masks) and concatenations over an ordinal axis, checks the "
              "sequence algebra (positions in range, reverse twice, even/odd partition) and emits the histories; they are "
              "replayed on every ordinal axis class of abtem.core.axes with python and numpy index objects; dict round trips "
              "are run for every axis class found by introspection (each single-field deviation + random combinations, both "
              "to_dict/from_dict and axis_to_dict/axis_from_dict) and LinearAxis coordinates for a rational lattice; "
              "AxesTrace.tla decides sliced/concatenated values, per-field round-trip equality and offset + i x sampling."
              " Batch 7: the serialised dict is read twice and the serialised axis is looked at again afterwards."),
        technique="TLA+ sequence-semantics model (TLC) + spec-generated index histories replayed on the real axis classes + TLC trace validation",
        design_ref="DESIGN.md 5 C35",
        note=NOTE_COMMON + " Field values are compared through an interning that identifies equal numbers and ndarray/tuple but distinguishes tuple from list.",
    ),
    "C20": dict(
        text=("TLC enumerates ScanImpl (LineScan._adjust_gpts/_adjust_sampling and GridScan via Grid with endpoint) for every axis "
              "length x (gpts | sampling) x endpoint in the bounds and checks that the resolved gpts/sampling make the generated "
              "positions satisfy Scan.tla (spacing = reported sampling, end point reached / one step short); every case is realised "
              "as LineScans along four rational directions and as GridScans (pairs of axis cases), read both directly "
              "(get_positions) and block-wise (lazy ensemble_blocks / eager generate_blocks), and the exact rational positions, "
              "shape and axes metadata are decided by ScanTrace.tla; probe builds at TLC-enumerated position classes (on/off "
              "pixel, negative, beyond the cell, odd/even grids) are compared with the origin probe shifted by an independent "
              "numpy Fourier shift / roll."
              " ScanHist.tla: edits (end point, sampling, gpts) on one LineScan object with the geometry clauses after every edit (named deviation SkipWhenGptsUnchanged); every emitted history is replayed on a real LineScan."
              " Batch 8: scans through copy / deepcopy / pickle, corners / gpts / sampling in other argument forms, grid scans created from corners and end-point flags only with gpts / sampling assigned afterwards."),
        technique="TLA+ model of scan resolution (TLC) + TLC-enumerated scans executed on the real classes + TLC trace validation over exact rationals",
        design_ref="DESIGN.md 5 C20",
        note=NOTE_COMMON + " float32 positions are mapped to rationals with denominator <= 1024 (inexact cases skipped and counted); probe comparison tolerance 2e-5.",
    ),
    "C19": dict(
        text=("TLC enumerates EnsembleModel: every ensemble shape of rank 1-2 (axis length <= 4, thorough 5) with every chunking "
              "(all compositions of each axis length) and checks that the chunk_ranges-based split satisfies Ensemble.tla and "
              "reassembles to the identity.  Every enumerated (shape, chunking) is applied to 18 real ensemble kinds (Line/Grid/"
              "Custom scans with endpoint variants, distributions via divide and via Aperture/CTF transforms, FrozenPhonons "
              "seeds, AtomsEnsemble, Waves/Images with ordinal, linear, positions and frozen-phonon axes, eager and lazy) both "
              "through generate_blocks and ensemble_blocks().compute(); EnsembleTrace.tla decides that each block holds exactly "
              "the members its chunk range selects, in order, each block index once, slices = ranges, lazy = eager."
              " Batch 7: the lazy blocks of every ensemble are computed in ONE dask graph with those of a sibling ensemble (same kind, shape, chunking, other parameters) and both are judged; scans that were partitioned, moved (same extent and gpts) and partitioned again."
              " Batch 8: the eager and the lazy side of every ensemble reach the partition through different routes (copy / deepcopy / pickle); GraphNames.tla (growth) is checked and bound here."),
        technique="TLA+ partition model (TLC) + TLC-enumerated chunkings executed on the real ensemble classes + TLC trace validation",
        design_ref="DESIGN.md 5 C19",
        note=NOTE_COMMON + " Member identities are interned values (positions rounded to 1e-5, values+weights, seeds, array fill ids + axis values).",
    ),
    "C36": dict(
        text=("TLC enumerates DistImpl (np.linspace grids of uniform()/gaussian() incl. the single-sample case, every divide "
              "chunking) over a 6-point rational lattice x 3 sigmas x 2 limits x n <= 5 (thorough 7) and checks spacing, symmetry "
              "and truncation on the model's grids; every case runs on abtem.distributions (1-D/2-D gaussians, both "
              "normalisations, negation of each, divide eager/lazy) and DistTrace.tla decides exact rational spacing, symmetry, "
              "limits, negation and partition; the Gaussian profile and the unit norm/sum are logged as deviations against an "
              "independent evaluation and bounded by the spec."
              " Anisotropic 2-D distributions (joint weights = outer product of the per-axis weights in the axis order of the values) and stability of an existing distribution under later creations."
              " Batch 8: arguments as NumPy scalars / 0-d arrays, distributions through copy / deepcopy / pickle, tuple sample counts with a single-sample axis."),
        technique="TLA+ model of the value grids (TLC) + TLC-enumerated cases executed on the real code + TLC trace validation over exact rationals",
        design_ref="DESIGN.md 5 C36",
        note=NOTE_COMMON + " exp() is evaluated by numpy in the harness (profile/norm deviations, tolerance 2e-6).",
    ),
    "C13": dict(
        text=("TLC enumerates PolarImpl (limit -> bin-edge index per axis with the axis' own offset and sampling, slicing) for "
              "radial bins <= 3 (thorough 4), azimuthal bins <= 4 (6), 4 radial samplings, 2 radial and 2 azimuthal offsets and "
              "every pair of edge-aligned limits (1.3e4 cases, thorough ~1e5) and checks the selected bin set against Polar.tla; "
              "the cases run on the real PolarMeasurements.integrate/integrate_radial (eager and lazy) with the one-hot ensemble "
              "over the bins, so the result decodes exactly to the summed bin set; PolarTrace.tla decides 'bins inside the "
              "limits', 'no limits = all bins' and that edge-aligned partitions of either axis are disjoint and cover."
              " Round 3: limits one bin below the first edge and inside a bin, ClampNegative deviation with Python slice semantics in PolarImpl."
              " Batch 8: limits handed over as NumPy scalars, lists, 0-d arrays and arrays (harness/vf/forms.py)."),
        technique="TLA+ model of the limit-to-bin algebra (TLC, exact rationals) + TLC-enumerated cases on the real code with one-hot decoding + TLC trace validation",
        design_ref="DESIGN.md 5 C13",
        note=NOTE_COMMON + " Azimuthal quantities are rationals in units of pi; the harness multiplies by math.pi when calling.",
    ),
    "C30": dict(
        text=("TLC pushes every metadata value tree up to depth 2 (numbers, NumPy scalars incl. float32, strings, booleans, None, "
              "tuples, lists, dicts, ndarrays; ~2e4 trees) through the transcription of encode_types -> JSON -> decode_types "
              "(StoreModel.tla) and checks it comes back with the same value (tuple stays tuple), and emits the depth-1 trees; "
              "these are stored as metadata of real Waves/Images/DiffractionPatterns/PolarMeasurements/RealSpaceLineProfiles/"
              "PotentialArray objects with 0-2 ensemble axes from 9 axis kinds (float32 values, units=None, private flags...), "
              "several dtypes, lazy/eager, directory/zip, written with to_zarr and read back with from_zarr; StoreTrace.tla decides "
              "equality of type, dtype, shape/array, per-axis field trees and the metadata tree by value."
              " Round 3: lists of 2-3 measurements saved together (ComputableList.to_zarr)."
              " Batch 7: every fourth round trip continues the store's history - what was loaded lazily is written over its own store with overwrite=True and loaded again - and every third metadata tree is of depth 2 (composed from TLC's depth-1 trees; the codec model is checked to depth 2)."
              " Batch 9: a list of twelve objects in one store; a list saved with the default flags over a longer one."),
        technique="TLA+ codec model (TLC) + spec-generated metadata trees round-tripped through the real zarr IO + TLC trace validation",
        design_ref="DESIGN.md 5 C30",
        note=NOTE_COMMON + " Equality is by value (NumPy scalar == equal Python scalar, ndarray == equal list, tuple != list); dict keys named '_type' are outside the grammar.",
    ),
    "C29": dict(
        text=("TLC explores ArrayOpsModel: every history of <= 2 (thorough 3) structural operations (index expressions with "
              "None/negative/step/list/mask items and one index too many, squeeze, expand_dims, sum/mean/max over each ensemble "
              "axis and a base axis, stack, concatenate, arithmetic incl. reflected) from two initial objects with an ordinal and "
              "a linear ensemble axis (~1e4 histories), checks the abstract state invariants and emits the histories; they are "
              "replayed on real Waves, Images, DiffractionPatterns, PolarMeasurements and RealSpaceLineProfiles, eager and lazy, "
              "and ArrayOpsTrace.tla decides after every call: values equal NumPy's on the bare array (comparison bit from the "
              "harness), one axis entry per dimension, ordinal values / linear offset+sampling of the selected items, item "
              "metadata moved into metadata, base axes refused."
              " Batch 7: after every operation the operand is compared with its snapshot (axes, every axis field, metadata, values; clause operation_changed_its_operand) and axes that continue an operand axis must carry its other fields (half of the histories run on axes with non-default units, tex labels, ensemble_mean flag, endpoint)."
              " Batch 9: std and min among the reductions."),
        technique="TLA+ history machine over axis metadata (TLC) + spec-generated operation histories replayed on real array objects + TLC trace validation",
        design_ref="DESIGN.md 5 C29",
        note=NOTE_COMMON + " Operations that NumPy/dask refuse on the bare array are not compared; an empty linear axis has no coordinates to compare.",
    ),
    "C15": dict(
        text=("TLC enumerates FourierImpl (the 1-D interpolation masks and fft_crop's k-th-to-k-th copy transcribed, python slice "
              "semantics of a[:k]/a[-k:] incl. k = 0) for every (n1, n2) <= 8 (thorough 12) and checks that the crop is the "
              "frequency-preserving map on the common band, keeps DC, Down(Up(x)) = x, and that rolls compose additively and "
              "periodically; the shape pairs are combined into 2-D cases (with batch dimensions) on the real fft_crop, whose "
              "index-identity input decodes the exact copy map; up/down round trips (complex, batched, real with and without "
              "Nyquist content; float32 and float64), mean and reciprocal-space intensity, whole-pixel shift vs roll, "
              "composition of fractional shifts and Waves.downsample of band-limited waves (eager/lazy, against an independent "
              "direct Fourier-series evaluation) are logged as deviations and bounded by FourierTrace.tla."
              " Round 3: data precision differing from the configured precision."
              " Batch 8: the overwrite_x=True route of every interpolation case; geometry of the downsampled wave (extent kept, sampling = extent / gpts per axis)."),
        technique="TLA+ index-algebra model (TLC) + TLC-enumerated shapes on the real FFT helpers with exact index decoding + TLC trace validation",
        design_ref="DESIGN.md 5 C15",
        note=NOTE_COMMON + " Numeric closeness is computed by numpy in the harness (tolerance 2e-5 single / 1e-9 double).",
    ),
    "C21": dict(
        text=("TLC explores AberrationsModel (coefficient store addressed by 25 polar symbols and 25 aliases incl. defocus = -C10, "
              "set by attribute or set_aberrations, read, evaluate) exhaustively to depth 2 over all names and checks the "
              "addressing invariants; the (n, m) table of the polar expansion lives in Aberrations.tla and is printed by TLC "
              "for the reference evaluation.  All [set; get; evaluate] and [evaluate; set; evaluate] histories per name, a "
              "sample of the 6.3e4 two-step histories and simulated length-4 histories are replayed on a real Aberrations "
              "object; AberrationsTrace.tla decides that the reported coefficients follow the abstract store after every step, "
              "that each evaluation on a 7x16 (alpha, phi) grid in double precision equals exp(-2 pi i chi/lambda) for the "
              "current coefficients (deviation logged), and the azimuthal rotation identity."
              " Batch 8: every evaluation also on a copy / deepcopy / pickle of the object; an energy-less Aberrations applied to waves of two energies in turn."),
        technique="TLA+ state machine of the coefficient store (TLC) + spec-generated histories replayed on the real object + TLC trace validation; chi evaluated by a numpy reference built from the spec's table",
        design_ref="DESIGN.md 5 C21",
        note=NOTE_COMMON + " The wavelength is taken from abtem.core.energy (C24 is not claimed); tolerance 1e-7 on |transfer| = 1.",
    ),
    "C22": dict(
        text=("TLC enumerates ConversionsImpl - the sign and arctan2 branch structure of polar2cartesian/cartesian2polar with the "
              "Cartesian pair held in polar form and angles as integers in units of pi/288 - for all 5 supported coefficient pairs "
              "x magnitudes {-2..2} x 49 angles on the pi/24 lattice over [-pi, pi] (1225 cases, exhaustive) and checks the round "
              "trip stays in the class (C, phi) ~ (-C, phi + pi/m), phi mod 2 pi/m, with exact integer division; every case "
              "(with C10/C30 alongside) and seeded joint cases with all pairs set run on the real functions; ConversionsTrace.tla "
              "decides class membership of the decoded (C', phi') in integer arithmetic, pass-through of the isotropic terms and "
              "bounds the logged chi deviation on a 7x16 grid."
              " Batch 8: coefficients as NumPy scalars and as series (length-2 arrays, both members judged)."),
        technique="TLA+ branch-structure model over an integer angle lattice (TLC) + TLC-enumerated cases on the real functions + TLC trace validation",
        design_ref="DESIGN.md 5 C22",
        note=NOTE_COMMON + " Returned floats are decoded to lattice integers (1e-9 / 1e-6 guards; undecodable = rejected); chi tolerance 1e-7 relative.",
    ),
    "C23": dict(
        text=("TLC enumerates the scenario space of TransferModel (kind x grid parity x extent x energy x cutoff class from "
              "sub-pixel to near-Nyquist x soft/hard x focal/angular spreads x aberration sets: 1376 scenarios) and every scenario "
              "is evaluated on the real Aperture / TemporalEnvelope / SpatialEnvelope / CTF objects; the harness logs fixed-point "
              "observations (extrema, value at zero angle, extrema over the zones alpha < cutoff - half a pixel and alpha > cutoff "
              "+ half a pixel computed from an independent frequency grid, binary-ness of hard apertures, max(|CTF| - aperture)) "
              "and TransferTrace.tla decides the bounds of the statement; the harness fails (exit 2) unless every enumerated "
              "scenario was observed."
              " TransferHist.tla: one Aperture / CTF / envelope object evaluated, edited through its setters (energy, extent, gpts, cutoff, spreads) or copied, and evaluated again, every evaluation judged against the geometry of the current parameters (named deviation CacheAngularGrid); on a coordinate axis the soft edge must fit the axis' own angular sampling."
              " Batch 8: transfer functions through copy / deepcopy / pickle; spread class 3 = a weighted series of spreads, every member judged."),
        technique="TLA+ scenario enumeration and bound predicates (TLC) over fixed-point observations of the real kernels; TLC trace validation",
        design_ref="DESIGN.md 5 C23",
        note=NOTE_COMMON + " The numeric kernels are evaluated by abTEM in single precision; tolerance 2e-5. 'Half a pixel' is half of the larger angular pixel size.",
    ),
    "C07": dict(
        text=("TLC explores MultisliceImpl (transcription of multislice_and_detect's configuration loop, entrance-plane "
              "detection, slice loop, detection after listed slices, and of _validate_exit_planes; waves are symbolic terms) for "
              "every slice count <= 4 (thorough 6) and every exit_planes argument (None, each int, every increasing tuple ending "
              "at the last slice) and checks each recorded measurement is the wave through exactly the slices up to its plane, "
              "every (configuration, plane) once, last plane = full run.  Every case runs on real potentials (equal/unequal "
              "slicing, PlaneWave/Probe, Waves/pixelated) with the guarded hooks on; MultisliceTrace.tla validates that the "
              "MsBegin/MsConfig/MsSlice/MsDetect/MsEnd events are a run of the Multislice machine (detections exactly after the "
              "listed slices, cumulative depth) and decides plane = independent truncated run (logged deviation) and "
              "thickness axis = cumulative thicknesses."
              " Round 3: frozen-phonon ensembles of 2-3 configurations kept apart, every configuration's series against its own truncated runs."
              " Batch 7: explicit tuples need not end at the last slice (then nothing is recorded for the full run; found and repaired be1ddf9a, deviation ShortcutAnyPlane), lazy series = eager series is a clause of its own, and the same pre-built eager waves are sent through the potential twice and re-read afterwards."),
        technique="TLA+ loop model with symbolic wave terms (TLC) + hook-event trace validation against the run machine (TLC) + numeric comparison with truncated runs",
        design_ref="DESIGN.md 5 C07",
        note=NOTE_COMMON + " Numeric closeness computed by numpy (tolerance 5e-5 of the reference maximum, single precision pipeline).",
    ),
    "C02": dict(
        text=("TLC explores MultisliceImpl with 1..3 (thorough 4) configurations and checks that every recorded measurement of "
              "configuration k is the wave through configuration k's slices starting from the INCIDENT wave (the transcription "
              "with the wave carried over violates RecordsCorrect in TLC).  The cases are realised with FrozenPhonons and "
              "AtomsEnsemble potentials x PlaneWave/Probe+scan x Waves/annular/pixelated x ensemble_mean, eager with hook events "
              "and lazy with several max_batch; MultisliceTrace.tla validates the event sequence and decides member k = "
              "independent run through the potential built from displaced configuration k, mean member = mean of members, and "
              "that displaced positions are identical across chunkings, modes and iteration orders."
              " Round 3: the PRISM route (the S-matrix of every configuration reduced at the scan positions) next to PlaneWave and Probe."
              " Batch 7: two ensembles that differ only in their seeds computed in one dask graph keep their own configurations; snapshots labelled by a user axis and frozen phonons built into a potential array first; lazy = eager is a clause of its own."
              " Batch 9: builder prism_built - interpolation 2 and the S-matrix of all configurations built eagerly as one array object before it is reduced."),
        technique="TLA+ loop model with symbolic wave terms (TLC) + hook-event trace validation (TLC) + numeric comparison with independent per-configuration runs",
        design_ref="DESIGN.md 5 C02",
        note=NOTE_COMMON + " The MsConfig fingerprints are diagnostic only; the verdict is the numeric member comparison (tolerance 5e-5).",
    ),
    "C04": dict(
        text=("TLC enumerates PropagationModel (potential: vacuum / atoms / random non-negative / random with negative values x "
              "wave: plane / probe / random band-limited / random not band-limited x tilt x propagator order 1, 2 x slicing) "
              "with the clauses each scenario exercises; every scenario runs through the real Fourier-space multislice with the "
              "hooks on (single precision, every 4th also double) and MultisliceTrace.tla checks, inside the run machine, that "
              "the total intensity logged after every slice never increases, that vacuum propagation of band-limited waves "
              "conserves it, and that P(-dz) P(dz) is the identity on band-limited waves."
              " Round 3: second-order vacuum scenarios also in double precision held to 1e-7; one propagator object propagating two different waves of the same shape in place."
              " Batch 8: a whole vacuum run undone by the conjugate algorithm for waves in memory and for lazy waves; band-limited cases also under a configured antialias aperture wider than the shipped one, set after import."),
        technique="TLA+ scenario model + run machine with an intensity-monotonicity action property (TLC trace validation over hook events)",
        design_ref="DESIGN.md 5 C04",
        note=NOTE_COMMON + " Intensities are logged in fixed point (1e-3 of a unit) with a 2e-5 relative slack.",
    ),
    "C10": dict(
        text=("TLC explores PotentialBuildImpl (the eager build loop writing each ensemble member's slices at the member's own "
              "index, and slice generation that counts every slice - incl. the crystal potential's unit x repetition loop - and "
              "yields only the window) for every kind, 1-3 members, up to 4 (thorough 6) slices and every window 0 <= first < "
              "last <= n, checking BuiltOK and WindowOK over symbolic slice values; every case is realised with Potential, "
              "PotentialArray and CrystalPotential, with and without frozen phonons, and PotentialBuildTrace.tla decides lazy = "
              "eager per member, member k = potential of configuration k (independent build), and that generate_slices(first, "
              "last) is exactly full[first:last] (identified by exact array equality) with equal exit-plane tags and thicknesses."
              " Batch 8: potentials reach the build through a copy / deepcopy / pickle round trip."),
        technique="TLA+ loop model with symbolic slices (TLC) + TLC-enumerated windows on the real potentials + TLC trace validation",
        design_ref="DESIGN.md 5 C10",
        note=NOTE_COMMON + " build() is exercised for the full slice range only (windowed lazy build is outside the statement; it currently raises and is noted as growth).",
    ),
    "C11": dict(
        text=("TLC explores PotentialCacheImpl - a history machine over Build / SetGpts / SetSampling on three grids with the "
              "per-element integrator cache remembering the grid it was computed for - to depth 4 (thorough 6) and checks the "
              "action property that every build yields the fresh potential of the current grid (with the cache keyed by element "
              "only TLC returns Build; SetGpts; Build).  The emitted histories in which a build follows a grid change after an "
              "earlier build are replayed on real Potential objects (infinite/finite projection, 1-3 elements, building directly "
              "and through PlaneWave.multislice); PotentialCacheTrace.tla decides, for every build event, equality with a newly "
              "constructed potential at the same grid (logged deviation) and that both raise or neither."
              " Batch 7: finite projection with one and two elements, built directly and through multislice, in the first histories of every seed."),
        technique="TLA+ history machine with an action property (TLC) + spec-generated histories replayed on real potentials + TLC trace validation",
        design_ref="DESIGN.md 5 C11",
        note=NOTE_COMMON + " The reference is a fresh abTEM potential (metamorphic oracle); tolerance 2e-5.",
    ),
    "C09": dict(
        text=("TLC enumerates SlicingImpl (cumulative-thickness bin edges nudged down by an infinitesimal, digitize, label -> slice) "
              "for every cell height <= 4 (thorough 6) units, every slicing (all compositions in half units) and every atom height "
              "on the quarter lattice, checking exactly-one-slice, boundary-goes-up and sum-to-height; every slicing runs on real "
              "potentials holding one atom per lattice height (so every boundary and near-boundary position is present) for length "
              "units 1.0, 0.5, 0.3 and 0.1, formed both by multiplication and by repeated addition (cumulative-sum drift); "
              "SlicingTrace.tla decides the observed slice of every atom against SliceOf in integer arithmetic, and bounds the "
              "logged deviations for 'potential of a union = sum of potentials' (random splits, both projections) and 'projected "
              "potential independent of slicing' (infinite projection)."
              " SlicingHist.tla: histories of inspections on one Potential object (slice-window queries for all / one element incl. the single-slice form the build uses, projection, window generation) followed by a build, with the named deviation CacheIgnoresElement; every emitted history is replayed and the build compared with a fresh one and with the sum of the per-element potentials."
              " Batch 8: atoms 1e-9 below every slice boundary, below the top face (also given as z = -1e-9) and beside the lateral faces (clause atom_just_below_a_boundary_or_face_not_in_its_slice)."),
        technique="TLA+ model of slice assignment over an integer lattice (TLC) + TLC-enumerated slicings on real potentials + TLC trace validation",
        design_ref="DESIGN.md 5 C09",
        note=NOTE_COMMON + " Atoms are identified by their unique lateral position; numeric tolerance 2e-5.",
    ),
    "C08": dict(
        text=("TLC checks DeltasImpl (superpose_deltas transcribed over exact rationals: floor, fractional part, four scatter "
              "targets wrapped per axis, scatter-add) for every atom position (pixel x {0, 3/8, 7/8} per axis), six shifts (unit, "
              "wrapping, beyond the cell, negative) and four repetitions on a small periodic grid: translate = roll, supercell = "
              "tiled unit cell, mass conserved (5e3 cases quick, 5e4 thorough); it emits position/shift/repetition classes that "
              "are instantiated on a 12 x 16 grid with real Potential objects (infinite projection throughout, finite projection "
              "and thermal sigmas for subsets, positions left outside the cell or wrapped), PotentialArray.tile and "
              "CrystalPotential; DeltasTrace.tla bounds the logged deviations translated-vs-rolled, supercell-vs-tiled and the "
              "slice means under random sub-pixel translations."
              " Round 3: atomic columns (same element, same pixel, same slice) in DeltasImpl and in the structures."
              " Batch 8: DeltasImpl class next_pixel - a further atom of the same element in the neighbouring pixel, no two atoms sharing a floor pixel (overlapping bilinear footprints)."),
        technique="TLA+ exact-rational model of atom placement on the periodic grid (TLC) + TLC-enumerated classes on real potentials + TLC trace validation",
        design_ref="DESIGN.md 5 C08",
        note=NOTE_COMMON + " The convolution with the atomic form factor is checked numerically only (tolerance 5e-5).",
    ),
    "C01": dict(
        text=("TLC (a) enumerates the 576 valid scenarios of Pipeline.tla (builder x potential kind x exit planes x detector set x "
              "scan x CTF application) and (b) explores every interleaving of 4 blocks on 3 workers sharing the per-potential "
              "integrator cache, checking confluence (assembled result = sequential result) and exactly-once execution.  The "
              "scenarios (all in thorough, a seeded sample of 45 in quick) are evaluated eagerly and lazily for max_batch {1, 2, "
              "auto} x scheduler {synchronous, threads(4)}; PipelineTrace.tla decides, per scenario, equal outcome class (both "
              "succeed or raise the same exception class), type, shape (declared and computed), axes metadata, metadata, values "
              "within tolerance, an equal number of executed blocks (Block hook) under both schedulers, and that all six "
              "variants were observed."
              " Round 3: 3 x 5 grid scan split unevenly by max_batch 2 and 4, quick tier stratified over builder x scan x potential."
              " Batch 8: builder tilt (a series along y; a scalar x with a series along y) and a 3 x 4 grid scan with endpoint (True, False) are scenario dimensions."
              " Batch 9: scenario flag ctf_series - the applied CTF carries a weighted, averaged defocus series centred on zero (with an averaged frozen-phonon potential: two averaged ensemble axes)."),
        technique="TLA+ scenario enumeration + interleaving model of block execution (TLC) + lazy/eager differential runs validated by a TLC trace spec",
        design_ref="DESIGN.md 5 C01",
        note=NOTE_COMMON + " The oracle is the eager run of the same code (a change breaking both modes identically is invisible here; C02/C06/C07 compare different code paths); dask's scheduler is trusted; tolerance 5e-5.",
    ),
    "C32": dict(
        text=("TLC enumerates the call space of Ownership.tla (10 atoms-taking callees x 6 kinds of atoms incl. atoms outside the "
              "cell, tiny off-diagonal cell noise, constraints and partial pbc; 4 measurement types x complex/real x lazy/eager) "
              "and every enumerated call is made on the real code; for measurements every public method with an entry in the "
              "harness' argument table is called (methods without an entry are listed in the evidence as not exercised).  The "
              "frame condition snapshot(input) before = after (positions, cell, numbers, pbc, tags, constraints, info / array "
              "bytes, dtype, metadata, axes metadata) is decided by OwnershipTrace.tla for every call, whether or not it raises."
              " Batch 8 (growth): Rebuild.tla is checked here and 25 kinds of objects with non-default constructor arguments are sent along every route they offer (rebuilt from _copy_kwargs, copy, deepcopy, pickle) and compared field by field (drift only)."
              " Operators are methods too: indexing (twice), arithmetic and negation on measurements whose ensemble axes are a tilt and a thickness series."),
        technique="TLA+ frame condition over a TLC-enumerated call space; snapshots of caller-owned inputs around every real call validated by a TLC trace spec",
        design_ref="DESIGN.md 5 C32",
        note=NOTE_COMMON + " The state machine content of this property is a single frame condition; TLC's share is the enumeration and the verdicts.",
    ),
    "C12": dict(
        text=("TLC enumerates DetectModel (grid 12 even / 13 odd x inner < mid < outer from {0, k + 1/4} pixel units, so no lattice "
              "pixel lies on a limit x flexible steps 9/8 and 13/8 pixels whose bin edges never hit an integer radius x segment "
              "counts) and checks the ring algebra on the integer frequency lattice with exact rationals (adjacent rings disjoint "
              "and additive, flexible bins tile).  Each scenario runs the real AnnularDetector, integrate_radial, "
              "SegmentedDetector and FlexibleAnnularDetector (+ integrate_radial) on the one-hot ensemble over all n^2 diffraction "
              "pixels at 2.1 mrad/pixel, eager and lazy, so every result decodes to the exact set of integrated pixels; "
              "DetectTrace.tla compares the decoded sets with Ring(inner, outer) computed in integer arithmetic, the split "
              "ranges, and every flexible bin with Ring(offset + k w, offset + (k+1) w) for the width w its metadata states."
              " Round 3: adjacent ranges integrated one after the other from one pattern object; growth probe (drift only): default-limit detectors reused for other waves."
              " Batch 7: annular and segmented detector objects that have already detected waves of the same gpts on a grid of another extent (clause detector_used_before_on_another_grid)."
              " Batch 8: detectors reach detect() through a copy / deepcopy / pickle round trip."),
        technique="TLA+ ring algebra on the integer frequency lattice (TLC) + one-hot decoding of the real detectors + TLC trace validation",
        design_ref="DESIGN.md 5 C12",
        note=NOTE_COMMON + " Azimuthal membership of individual segments is not modelled (only their union and uniform response).",
    ),
    "C14": dict(
        text=("TLC checks PatternModel - FFT order -> fft_crop's mask copy -> optional fftshift, composed per axis - against "
              "Pattern!AxisMapOK (every member frequency appears at the position of the n2-point pattern showing that frequency, "
              "or nowhere if cropped away) for every n2 <= n <= 9 (thorough 14) and both layouts, plus the shift algebra "
              "(ifftshift inverts fftshift for odd and even sizes; fftshift is an involution only for even sizes).  The 180 "
              "emitted scenarios (grid parities x max_angle full/cutoff/valid/two numbers x parity x layout) run on real waves "
              "whose members hold all intensity at one frequency, eager and lazy, and block_direct runs on constant patterns "
              "for radii no pixel lies on (+- margin, both layouts, four grid parities); PatternTrace.tla decides the decoded "
              "positions, the requested parity, and blocked set = disc of the effective radius in integer arithmetic with all "
              "other pixels unchanged."
              " Round 3: masking calls on a pattern object that was masked before with wider limits."
              " Batch 9: angle classes edge (within a pixel of the largest angle) and beyond (zero-padded by the library: centred map and parity only)."),
        technique="TLA+ index-map model of crop and shift (TLC) + one-hot decoding of real patterns + TLC trace validation",
        design_ref="DESIGN.md 5 C14",
        note=NOTE_COMMON + " Positions are converted to frequencies by the numpy.fft.fftshift layout convention, which is part of the trusted base.",
    ),
    "C40": dict(
        text=("Shares Pattern.tla / PatternModel with C14 (frequency shown at each position of shifted and unshifted patterns, shift "
              "algebra checked by TLC).  For sizes 3..9 per axis (odd/even mixes), both layouts, units 1/A and mrad, eager and lazy, "
              "patterns holding a single bright pixel at every position of each axis are passed to center_of_mass and the decoded "
              "result must be Freq(n, a) in integer arithmetic with a zero other component; a random normalised pattern checks the "
              "weighted mean; integrate_gradient is applied to analytic gradients of single Fourier modes and must reproduce the "
              "field up to a constant (logged deviation)."
              " Round 3: lazy gradients chunked along the base axes."
              " Batch 8: every evaluation mode (eager, one block, chunked along x, y, both) for every Fourier mode; patterns of integer dtype (counts) - which uncovered the repaired defect f7f0b089 (center_of_mass returned the first moment); patterns through copy / deepcopy / pickle."),
        technique="TLA+ frequency-layout model (TLC) + single-bright-pixel decoding of the real center_of_mass + TLC trace validation",
        design_ref="DESIGN.md 5 C40",
        note=NOTE_COMMON + " center_of_mass returns the first moment; it is compared with the weighted mean for patterns of unit total intensity only.",
    ),
    "C31": dict(
        text=("TLC checks NoiseImpl (each block seeds a fresh RandomState from the transform's seed, so the member at position p of any "
              "block draws stream <<seed, p>>): for single-block evaluation the member -> stream map is injective and equals the "
              "eager one; over all chunkings TLC returns the counterexample behind the known finding C31-blocks-share-one-random-"
              "stream (recorded in the evidence).  Every (ensemble size <= 4, chunking) TLC enumerates is run on Images, "
              "DiffractionPatterns, RealSpaceLineProfiles and PolarMeasurements with fixed / absent seeds, samples 1 and 3, two "
              "doses; NoiseTrace.tla decides: non-negative whole counts, mean and variance z-scores within 6 sigma of dose x "
              "signal, reproducibility, lazy = eager, independence of chunking, and that no two members with equal expectation are "
              "bit-identical."
              " Round 3: seed 0, dose series, pairwise independence of the members of one block (standardised residuals, 6 sigma)."
              " Batch 8: the measurement through a copy / deepcopy / pickle and the dose as a NumPy scalar give the same noise for the same seed."),
        technique="TLA+ stream-assignment model (TLC) + TLC-enumerated chunkings on the real noise transform + TLC trace validation",
        design_ref="DESIGN.md 5 C31",
        note=NOTE_COMMON + " Statistical independence is operationalised as 'no bit-identical members' plus first/second moments; the chunk-dependence clauses for a shared block seed are a recorded known finding.",
    ),
    "C05": dict(
        text=("TLC enumerates the build space of Norm.tla (4 grids: even/odd square and two rectangular x 4 cutoff classes up to beyond "
              "the antialias aperture x soft/hard x 12 aberration sets x tilt x 5 position classes incl. off-grid, outside the cell "
              "and a grid scan x lazy/eager: 7680 probe builds, 32 plane-wave builds); all of them (thorough) or a seeded sample of "
              "400 + all plane waves (quick) are built with the real Probe / PlaneWave and NormTrace.tla bounds, for every member of "
              "every built ensemble, sum |FFT psi|^2 - computed by numpy from the returned array - to 1 +- 3e-5, and the modulus "
              "of un-normalised plane waves to 1 at every pixel."
              " Builder histories: one Probe / PlaneWave object built, edited through its attributes (energy, extent, gpts, sampling, cutoff, defocus, Cs, tilt; one or two edits) and built again."
              " Batch 8: the builder reaches build() through a copy / deepcopy / pickle round trip (harness/vf/routes.py)."),
        technique="TLA+ scenario enumeration and bound predicates (TLC) over fixed-point observations of real builds; TLC trace validation",
        design_ref="DESIGN.md 5 C05",
        note=NOTE_COMMON + " The numeric kernel is abTEM's; TLC contributes the enumeration, coverage and the bound verdicts.",
    ),
    "C03": dict(
        text=("TLC enumerates Decomp.tla: object (Probe, PlaneWave, CTF, Aperture, TemporalEnvelope, SpatialEnvelope) x every subset of "
              "size 1-2 of its distribution-capable parameters (defocus, C30, C12, phi12, semiangle cutoff soft/hard, tilt "
              "components, focal and angular spread, probe positions) x lengths 1-3 x ensemble_mean x lazy/eager (1224 cases); all "
              "(thorough) or a seeded sample of 90 (quick) are run as an ensemble and as scalar runs for every member; "
              "DecompTrace.tla decides: both raise or neither, ensemble shape, each distribution's axis metadata lists its values "
              "in order (defocus as -C10), member (i1, i2) equals the scalar run at (v1[i1], v2[i2]) with the axes located through "
              "their metadata, and an ensemble_mean axis (after detection) equals the mean of the members."
              " Round 3: 5-member axes evaluated lazily with max_batch 2 (uneven blocks), non-zero scalar companions (tilt, Cs, defocus) next to the distributions, stratified quick tier."
              " Batch 8: quick strata per (object, batching, parameter, lazy, that parameter's own series length)."),
        technique="TLA+ case enumeration and acceptance predicate (TLC) over ensemble-vs-scalar differential runs; TLC trace validation",
        design_ref="DESIGN.md 5 C03",
        note=NOTE_COMMON + " Member equality uses unit-weight distributions; the weighted-mean clause is checked for unit weights only (the statement leaves the weighting convention open). Tolerance 5e-5.",
    ),
    "C06": dict(
        text=("Prism.tla states what a reduced scattering matrix is: beams = the support of the equivalent probe's aperture on the "
              "(interpolated) reciprocal lattice (exact rationals: every lattice point inside the cutoff, none beyond the soft edge, "
              "inversion symmetric, no duplicates), the reduction = the exit wave of the equivalent probe (with interpolation the "
              "periodically repeated small-cell probe, windowed periodically at rint(p/s) - w div 2). PrismImpl.tla transcribes "
              "minimum_crop / wrapped_slices / wrapped_crop_2d / batch_crop_2d and TLC checks it against Prism!WindowIndex for every "
              "array size <= 5 (thorough 7), window and pair of corners in [-2n-1, 3n+1]. Conformance: SMatrix.wave_vectors on 9 "
              "rational cell/cutoff combinations x 6 interpolations; the real SMatrixArray._reduce_to_waves on an index-coded array for "
              "n in {4, 6, 8, 9} and corners over the same range; and the scenario space enumerated by TLC (potential none / atoms / "
              "frozen phonons x 6 aberration sets x 5 scan kinds incl. positions outside and spanning more than the cell x "
              "interpolation (1..3, 1..2) x downsample x lazy x batching = 4320 cases; quick: 110, of which one per stratum potential x "
              "downsample x batching x lazy x {uninterpolated, interpolated} so every reduction path is run at every seed) run through SMatrix.reduce / "
              "SMatrixArray.reduce and compared with Probe.multislice / Probe.scan (no interpolation) or the tiled small-cell probe "
              "sent through Waves.multislice and windowed (interpolation). PrismTrace.tla decides waves, detector values, shapes and "
              "lazy == eager."
              " Scenario dimensions added in round 3: CTF aperture given / unset, and S-matrix objects that were inspected (len, shape, wave_vectors) and then edited through their setters (cutoff, potential) before the reduction."
              " Batch 8: the S-matrix built eagerly as one array object and then reduced; a lazy default-aperture reduction computed only after another S-matrix (same cutoff, other energy and cell) was reduced in the same process."
              " Batch 9: a CTF carrying a series of defocus values - member k of the reduction equals the reduction with the scalar CTF k."),
        technique="TLA+ model of the window extraction checked by TLC against the property-level spec; TLA+ scenario enumeration and acceptance predicate over PRISM-vs-multislice differential runs; TLC trace validation",
        design_ref="DESIGN.md 5 C06",
        note=NOTE_COMMON + " With interpolation only the annular detector is compared (the statement promises the window probes); without interpolation an annular detector, a FlexibleAnnularDetector and a PixelatedDetector(max_angle='cutoff') with default limits are compared with Probe.scan (bin count / pattern size included). rint ties at half pixels are avoided by the chosen positions. Tolerance 5e-5.",
    ),
    "C39": dict(
        text=("Tilt.tla: a tilted propagation through slices dz_1..dz_K is the untilted one shifted by tan(t) * sum(dz) per axis; "
              "tangents (pixels per Angstrom) and thicknesses are exact rationals so TLC computes the expected pixel shift. "
              "TiltModel.tla transcribes FresnelPropagator._calculate_array / the slice loop (one phase ramp per slice and tilt source: "
              "base tilt and each tilt ensemble axis; kernel dimensions built by the reversed walk over the ensemble axes) and TLC "
              "checks for 6 axis layouts x all tangent assignments from {-1, 0, 2} (quick {-1, 2}) x thickness lists up to 3 (2) "
              "slices that every member's accumulated slope is the expected shift of the sum of its sources and that kernel "
              "dimensions follow the ensemble axes. Conformance: 768 scenarios enumerated by TLC (tilt given as base tilt / array of "
              "pairs / per-axis distributions / distribution + scalar / next to a defocus axis; 1-4 unequal slices; square and "
              "rectangular grids; integer and fractional pixel shifts; sign; lazy), quick: seeded 60; an asymmetric probe through "
              "vacuum with and without tilt; TiltTrace.tla decides per ensemble member: decoded integer shift (cross-correlation) = "
              "the rational computed from the logged tangent and thickness list, tilted == shifted untilted (np.roll / Fourier "
              "shift), tilted plane wave modulus one, lazy == eager."
              " Round 3: tilts accumulated by successive tilt transforms on already tilted waves, stratified quick tier."
              " Batch 8: the probe builder through a copy / deepcopy / pickle round trip."),
        technique="TLA+ model of tilt accumulation and kernel axis layout checked by TLC against the property-level spec; TLA+ scenario enumeration; TLC trace validation of tilted-vs-untilted differential runs with exact rational shifts",
        design_ref="DESIGN.md 5 C39",
        note=NOTE_COMMON + " Tolerance 5e-5 (float32). The plane-wave modulus clause is weak in abTEM (a tilted PlaneWave has only the k = 0 component, which the ramp leaves unchanged).",
    ),
    "C16": dict(
        text=("Resample.tla: total intensity per interpolated diffraction pattern is preserved (zero stays zero, result finite); "
              "Images.interpolate(fft): a requested gpts is delivered, a result on the image's own grid is the input unchanged, the mean "
              "of every image is preserved (which grid a requested sampling maps to is not judged: the repository's tests pin the "
              "floating-point ceil, which for the image's own sampling can give one point more); gaussian_source_size then "
              "integrate_radial == integrate_radial then gaussian_filter. ResampleModel.tla transcribes which ensemble / base axis "
              "gets which sigma in pixels on both routes (_gaussian_source_size walks the ensemble axes; integration moves the scan "
              "axes behind the other ensemble axes; Images.gaussian_filter smooths the base axes) and TLC checks they agree for 6 "
              "layouts x 3^2 samplings x 3^2 sigmas. Conformance: 320 scenarios enumerated by TLC (DP targets uniform / one / two "
              "samplings / gpts smaller, larger, same x 4 grids x all-zero member x lazy; image targets same gpts / own sampling / "
              "gpts smaller, larger, mixed / finer, coarser sampling x 4 grids x real, complex x lazy; source-size layouts ss / oss / "
              "sos / sso x sigma small / anisotropic / wider than the scan x 3 integration ranges x lazy), quick: seeded 120."
              " Round 3: stacks of 17 x 19 patterns of 32 x 32 and 5 x 5 patterns of 128 x 96, stratified quick tier."
              " Batch 8: a stack member 1e-10 times weaker than its neighbours; every pattern's total is judged against its own magnitude."),
        technique="TLA+ model of the sigma-to-axis bookkeeping checked by TLC; TLA+ scenario enumeration and acceptance predicate; TLC trace validation of runs on real measurement objects",
        design_ref="DESIGN.md 5 C16",
        note=NOTE_COMMON + " Tolerance 5e-5. The target-grid clause for a requested sampling is only applied where the statement needs it (same grid); spline interpolation is outside the statement.",
    ),
    "C37": dict(
        text=("Fd.tla gives the centred second-derivative stencils of accuracy 2-8 as exact rationals (TLC checks the table against the "
              "moment conditions) and defines the periodic discrete Laplacian by its weights c_k/dx^2, c_k/dy^2 (a circulant operator: "
              "the weights decide every plane-wave eigenvalue). FdImpl.tla transcribes _laplace_operator_stencil (rolled coefficient "
              "array indexed with negative k, numpy.pad wrap by n+1, interior loop, slicing) and LaplaceOperator's prefactors; TLC "
              "compares weight by weight for all grids up to 3x3 (thorough 4x4, including grids narrower than the stencil), accuracy "
              "2 and 4, spacings {1, 1/2, 2/3}^2. Conformance (scenarios enumerated by TLC): the real stencil applied to every one-hot "
              "array (accuracy 2/4/6, grids 5x4, 7x7, 3x6, 6x9, spacings (1,1), (1/2,1), (2/3,1/2)) -> weights in fixed point, compared "
              "by TLC with the exact rationals (tolerance 2e-4) and for missing periodic neighbours; plane waves for accuracies 2..18 on "
              "square and rectangular samplings vs the analytic eigenvalue; probes through vacuum with RealSpaceMultislice (accuracy "
              "2/6/8 x order 1-3 x scope propagator/full) for intensity conservation and lazy == eager."
              " Batch 8: a process history in two fresh interpreters - a real-space run under a configured antialias aperture with and without an earlier run on the same grid under the shipped configuration."),
        technique="TLA+ model of the finite-difference stencil (padding, loop, coefficient indexing, prefactors) checked by TLC against exact rational Laplacian weights; TLC trace validation of one-hot operator columns, eigenvalue and vacuum runs of the real code",
        design_ref="DESIGN.md 5 C37",
        note=NOTE_COMMON + " Accuracies above 18 need sympy, which the sandbox lacks, and are not exercised. Tolerance 5e-5 on eigenvectors and intensities.",
    ),
    "C27": dict(
        text=("Bloch.tla defines 'forbidden by the lattice centering' through the integer lattice sum L(h) = Sum_t (-1)^(2 h.t) over the "
              "centring translations of P, I, F, A, B, C. BlochImpl.tla transcribes get_reflection_condition (parity formulas) and the "
              "raveled Miller-index key of the structure-factor lookup; TLC checks on the cube |h| <= 1 (thorough 2) for all six "
              "centerings: condition == (L(h) # 0), allowed reflections closed under differences, differences inside a table reaching "
              "twice as far, key injective. Conformance: the real get_reflection_condition on the cube |h| <= 3 per centering, and "
              "StructureFactor on 10 crystals (Si, Cu, NaCl F; Fe I; Po, CsCl P; orthorhombic A, B, C; orthohexagonal Mg C) x thermal "
              "sigma x partial occupancy x g_max x lazy (160 scenarios from TLC, quick: one per crystal + 10): BlochTrace.tla decides "
              "observed condition = lattice sum, F(-h) = conj F(h), every reflection with L(h) = 0 has |F| below tolerance (computed "
              "with the filter off), the table built with the crystal's centering holds exactly the allowed reflections, a lattice "
              "translation of all atoms leaves F unchanged, the reconstructed potential is real, lazy == eager."
              " Round 3: centering = 'auto' (no reflection left out may carry a structure factor), crystals with one species on a centred sub-lattice, few-kB dask chunk-size."
              " Batch 8: the projected potential on the native grid and on a grid asked for explicitly: grid points x sampling = cell length on both axes (clause reconstructed_potential_is_not_periodic_in_the_cell)."),
        technique="TLA+ lattice-sum specification of reflection conditions with an implementation-shaped model checked by TLC; TLC trace validation of structure factors of real crystals against the lattice sum",
        design_ref="DESIGN.md 5 C27",
        note=NOTE_COMMON + " Periodicity of the reconstructed potential is inherent in the discrete Fourier synthesis and is not separately observed. Tolerance 5e-5 (double precision).",
    ),
    "C26": dict(
        text=("Bloch.tla: the structure matrix A[i][j] = F(h_j - h_i) is Hermitian by F(-h) = conj F(h), hence exp(i pi lambda z A) is "
              "unitary and intensities sum to one; BlochImpl.tla (shared with C27) checks by TLC the preconditions of the lookup "
              "(allowed reflections closed under differences, differences inside the doubled table, raveled key injective). "
              "Conformance: 640 scenarios from TLC (10 crystals x 4 orientations x 2 energies x 2 sg_max x 2 g_max x both Bloch "
              "equations; quick: one per crystal + 6), thickness list (0, 37, 120, 455.5 A): BlochTrace.tla decides sum of intensities "
              "= 1 per thickness, zero thickness = direct beam, structure matrix Hermitian, lazy == eager, |S[:, 0]|^2 of the "
              "matrix-exponential scattering matrix = the eigendecomposition intensities."
              " Round 3: thickness lists descending, unsorted and with a repeated entry."
              " Batch 8: dyn source classes - builder, prebuilt, prebuilt_reordered (a user-assembled StructureFactorArray with the reflections in another order; beams are matched by Miller indices) and builder_occupancy (partial occupancies and thermal sigmas carried into the lazy tasks)."),
        technique="TLA+ model of the structure-factor lookup preconditions checked by TLC; TLA+ scenario enumeration and acceptance predicate; TLC trace validation of dynamical diffraction runs",
        design_ref="DESIGN.md 5 C26",
        note=NOTE_COMMON + " Known finding C26-tilted-M-matrix: off the zone axis the two paths differ by ~1e-4 and sums deviate by up to 3e-4. Tolerance 5e-5 (double precision).",
    ),
    "C28": dict(
        text=("Ptycho.tla states the contracts: Fourier projection (amplitude = measured, phase kept, idempotent, zero error when the "
              "measured amplitude is the wave's own), r-PIE update at the truth (object and probe unchanged, zero error), J explicit "
              "positions -> J pixel positions whose pairwise offsets are the input offsets over the sampling (a rigid motion when a "
              "rotation is given), and - as growth beyond the statement - raster scans, window indices and the step machine of the "
              "reconstruction loop (every non-empty pattern exactly once per iteration, overlap -> Fourier -> update, correction "
              "schedules). PtychoImpl.tla transcribes _calculate_scan_positions_in_pixels over exact rationals with rational rotations "
              "(quarter turn, 3-4-5), _wrapped_indices_2D_window with half-to-even rounding, _prepare_functions_queue and the main loop "
              "of reconstruct() with every visiting order; TLC checks each against Ptycho.tla (with MeshgridExplicit = TRUE, the pinned "
              "code, it returns the two-position counterexample) and emits the cases. Conformance: every emitted position and window case "
              "on the real functions (model prediction compared too), 960 projection cases over the _fourier_projection of all four "
              "operator classes (6 variants x shapes x wave classes x amplitude classes x precision), a stratified sample of the 12288 "
              "update-at-the-truth cases (truth built by an independent numpy forward model for integer positions), and real "
              "reconstruct() runs whose step functions are wrapped by recorders; PtychoTrace.tla validates every observation and every "
              "recorded run against the loop machine."
              " Batch 8: position classes with a sub-pixel offset along one axis only."),
        technique="TLA+ model of position conversion, window indices, function queue and reconstruction loop checked by TLC against the property-level contracts; TLC-emitted cases replayed on the real operators; TLC trace validation of recorded reconstruct() runs",
        design_ref="DESIGN.md 5 C28, 10.9",
        note=NOTE_COMMON + " Numeric contracts are evaluated by numpy in complex128 and logged in parts per billion (tolerance 5e-5 single / 1e-7 double); alpha = 0 only with probes without small-modulus pixels; growth_* clauses (loop order, raster, window) are reported as model drift, never as violations.",
    ),
    "C38": dict(
        text=("Backend.tla: a session is a history of nested configuration contexts and pipeline runs in one process; every run must agree "
              "with the pipeline's reference (numpy, float64, fresh planner) to 5e-5 under float32 and 1e-9 under float64, must not raise "
              "under a supported configuration and must leave caller-owned arrays unmodified - whatever the backend, planning effort, "
              "threads and whatever ran earlier in the session. BackendImpl.tla models what could break that in abtem/core/fft.py: the "
              "in-place pyfftw transform behind the defensive copy, WISDOM_ONLY planning with the plan-on-a-dummy fallback, the "
              "process-global wisdom that survives configuration contexts, the per-propagator cached plans, LIFO contexts; array contents "
              "are symbolic terms and TLC checks in every reachable state of every session (length 6, nesting 3; named deviations "
              "PlanOnData / NoCopy give counterexamples) that each run returns the pure transform and keeps its inputs. Conformance: every "
              "full configuration (numpy; fftw x ESTIMATE/MEASURE/PATIENT (thorough: EXHAUSTIVE) x threads 1/2) x float32/float64 x 17 "
              "concrete pipelines from a fresh planner, plus TLC-emitted sessions (one per distinct abstract state; stratified seeded "
              "sample, 140 quick / 1500 thorough) replayed with the real abtem.config.set and the planner's wisdom kept inside the "
              "session; BackendTrace.tla judges every run against the configuration the LIFO semantics puts in effect."
              " Batch 8: pipeline waves_normalize_modes (Waves.normalize in place or not, real- and reciprocal-space waves)."),
        technique="TLA+ session model of FFT dispatch, planner wisdom and configuration contexts checked by TLC; TLC-emitted sessions replayed on the real library; TLC trace validation of every run against the session machine",
        design_ref="DESIGN.md 5 C38, 10.9",
        note=NOTE_COMMON + " Metamorphic oracle (same code under numpy/float64): a change affecting every configuration alike is invisible here. mkl_fft and cupy are not installed. fftw.planning_timelimit is lowered for the replay. Known finding C38-prism-single-precision-core.",
    ),
}

NOT_APPLICABLE = {
    "C24": "closed-form real-analysis identities of single pure functions (sqrt, no state/ordering/index structure); TLC has no reals - DESIGN.md 6",
    "C25": "numerical quadrature / Hankel-transform consistency over tabulated coefficients; nothing discrete for a TLA+ model to decide - DESIGN.md 6",
}
