#!/bin/sh
# tools/seed_regress.sh [P]   re-run every stored seeded change (seeded/<ID>-mN/patch.diff) against its property's quick check on a
# scratch copy of /repo/abtem; prints one line per seed: CAUGHT / MISSED / NOAPPLY.  P = parallelism (default 4).
cd "$(dirname "$0")/.."
P="${1:-4}"
ls -d seeded/*/ | sed 's#seeded/##; s#/##' | xargs -P "$P" -I{} sh -c '
  d={}; id=${d%%-*}
  out=$(tools/try_seed_copy.sh seeded/$d/patch.diff $id 2>&1 | tail -1)
  case "$out" in
    *"rc=1") echo "SEED $d CAUGHT";;
    *"rc=0") echo "SEED $d MISSED";;
    *"does not apply"*) echo "SEED $d NOAPPLY";;
    *) echo "SEED $d ERROR $out";;
  esac'
