#!/bin/sh
# tools/sweep_par.sh <tier> <parallel> <seed...>   like tools/sweep.sh, <parallel> checks at a time (longest first for the thorough tier)
TIER="$1"; P="$2"; shift 2
cd "$(dirname "$0")/.."
IDS=$(/venv/bin/python -c "import json;ids=[c['property_id'] for c in json.load(open('MANIFEST.json'))['checks']];first=['C17','C28','C38','C01','C03','C26','C27','C06','C23'];print(' '.join([i for i in first if i in ids]+[i for i in ids if i not in first]))")
for seed in "$@"; do
  echo $IDS | tr ' ' '\n' | xargs -P "$P" -I{} sh -c '
    out=$(VERIF_SEED='"$seed"' bin/check {} --tier '"$TIER"' 2>&1); rc=$?
    echo "$out" | tail -1
    if [ $rc -ne 0 ]; then echo "SWEEP-ALARM id={} seed='"$seed"' tier='"$TIER"' rc=$rc"; echo "$out" | grep -e VIOLATION -e MACHINERY | head -5 | cut -c1-400; fi'
done
