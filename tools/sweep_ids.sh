#!/bin/sh
# tools/sweep_ids.sh <tier> <parallel> <seed> <ID...>   run the named checks only
TIER="$1"; P="$2"; SEED="$3"; shift 3
cd "$(dirname "$0")/.."
echo "$@" | tr ' ' '\n' | xargs -P "$P" -I{} sh -c '
  out=$(VERIF_SEED='"$SEED"' bin/check {} --tier '"$TIER"' 2>&1); rc=$?
  echo "$out" | tail -1
  if [ $rc -ne 0 ]; then echo "SWEEP-ALARM id={} seed='"$SEED"' tier='"$TIER"' rc=$rc"; echo "$out" | grep -e VIOLATION -e MACHINERY | head -5 | cut -c1-400; fi'
