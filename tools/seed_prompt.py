#!/usr/bin/env python3
"""tools/seed_prompt.py <ID>  -> prompt text for an independent seeding sub-agent (property text only, nothing from /verif)."""
import json, sys
pid = sys.argv[1]
N1, N2 = (sys.argv[2], sys.argv[3]) if len(sys.argv) > 3 else ("m1", "m2")
for l in open('/verif/properties.jsonl'):
    p = json.loads(l)
    if p['id'] == pid:
        break
else:
    sys.exit("unknown property")
anch = p.get('anchors', {})
print(f"""You are helping to evaluate how good a (hidden) verification tool is at detecting regressions in the Python library abTEM (transmission electron microscopy simulation). Your job is to act as a careful 'mutation author'.

You have your own scratch git worktree of the library at /tmp/seed/{pid}/wt (a detached checkout; the Python to use is /venv/bin/python, run things with `cd /tmp/seed/{pid}/wt && PYTHONPATH=/tmp/seed/{pid}/wt /venv/bin/python ...`). Work ONLY inside /tmp/seed/{pid}/ . Never touch /repo or /verif (do not read /verif either). There is no network.

The semantic property under study:

  id: {p['id']}
  title: {p['title']}
  statement: {p['statement']}
  quantifier: {p['quantifier']['text']}
  why the existing tests cannot settle it: {p['why_tests_cant']}
  code anchors: files {anch.get('files')}; mechanisms {json.dumps(anch.get('mechanism'))}

TASK. Produce TWO independent, different changes ({N1} and {N2}) to the library source under abtem/ , each of which
  (a) BREAKS the property above (for some inputs / histories / configurations the statement becomes false),
  (b) still imports and runs, and keeps the existing test suite passing exactly as before (the suite is run with
      `cd /tmp/seed/{pid}/wt && /venv/bin/python -m pytest -q -p no:cacheprovider --timeout=900 -x -q test/<relevant files>`; the complete suite takes about 3.5 minutes: `/venv/bin/python -m pytest -q -p no:cacheprovider --timeout=900`; on the clean tree it gives 509 passed plus a fixed set of pre-existing failures/errors/skips that you must not change - compare the sorted list of FAILED/ERROR ids before and after),
  (c) looks like a plausible, realistic regression a maintainer could introduce (a refactoring slip, a wrong 'optimisation', a cache key that forgets a field, an off-by-one in an edge branch, a sign/axis mix-up in a rarely used branch, state that leaks between calls, two sites that each look fine alone) - NOT a crude sabotage, and
  (d) needs something SPECIFIC to manifest: a particular multi-step sequence of operations, an unusual but legal input (odd sizes, rectangular cells, non-default flags, particular chunking / lazy mode, a second call on the same object, ...), a particular interleaving or configuration - NOT something that ordinary default use exposes at once. The two changes should be in different places / exploit different mechanisms.

For each change also write a small self-contained demonstration program that exits 0 on the unchanged tree and exits non-zero (with a short message) when the change is applied, showing the property violated through the public behaviour of the library. The demo must import abtem from the current working directory's tree (it will be run as `cd <worktree> && /venv/bin/python <demo>` - put `import sys, os; sys.path.insert(0, os.getcwd())` at the top), must be deterministic, and should run in under a minute.

DELIVERABLES, all under /tmp/seed/{pid}/out/ :
  {N1}.diff  {N2}.diff      unified diffs produced with `git -C /tmp/seed/{pid}/wt diff` (each relative to the clean checkout, each applying alone with `git apply`)
  {N1}_demo.py {N2}_demo.py the demonstrations
  {N1}.json {N2}.json       {{"property": "{pid}", "summary": "<what was changed and why it breaks the property>", "needs": "<what specific input/sequence/configuration is needed for it to manifest>", "tests_run": "<the exact test commands you ran with and without the change and their pass/fail counts>"}}

Procedure: make change 1 in the worktree, run the demo and the tests, save the diff, then `git -C /tmp/seed/{pid}/wt checkout -- .` and do change 2 the same way. Leave the worktree clean (checked out, no stray files) when you finish. Verify yourself that each demo exits 0 on the clean tree and non-zero with its patch. Keep your final answer short: list the files and one sentence per change.""")
