#!/bin/sh
# tools/try_seed.sh <patch.diff> <ID> [<ID>...]   apply a seeded change to /repo, run the quick checks, undo it.
P="$1"; shift
cd /repo || exit 2
if ! git diff --quiet -- abtem; then echo "/repo has uncommitted changes under abtem/"; exit 2; fi
git apply "$P" || { echo "patch does not apply"; exit 2; }
for id in "$@"; do
  ( cd /verif && bin/check "$id" --tier "${TIER:-quick}" 2>&1 | grep -v "^\[vf\] \(design\|validate\)" | cut -c1-400 | tail -8 ; )
done
git -C /repo checkout -- abtem
