#!/bin/sh
# tools/verify_seed.sh <ID> <name> [patchfile]   confirm a seeded change: applies in a scratch worktree, demo exits 0 clean /
# 1 patched, the pinned suite shows no regression with the change.  Writes /verif/seeded/<ID>-<name>/ on success.
ID="$1"; N="$2"; SRC=/tmp/seed/$ID/out
PATCH="${3:-$SRC/$N.diff}"
WT=$(mktemp -d /tmp/vf.seedwt.XXXXXX)
git -C /repo worktree add -q --detach "$WT" HEAD || exit 2
cd "$WT"
clean_rc=$(/venv/bin/python "$SRC/${N}_demo.py" >/tmp/vf.demo.$ID.$N.clean 2>&1; echo $?)
git apply "$PATCH" || { echo "SEED $ID $N: patch does not apply"; git -C /repo worktree remove --force "$WT"; exit 2; }
patched_rc=$(/venv/bin/python "$SRC/${N}_demo.py" >/tmp/vf.demo.$ID.$N.patched 2>&1; echo $?)
suite=$(REPO_DIR="$WT" /verif/bin/baseline-check 2>&1 | head -3 | tr '\n' ' ')
cd /; git -C /repo worktree remove --force "$WT"
echo "SEED $ID $N: demo clean rc=$clean_rc patched rc=$patched_rc suite: $suite"
case "$suite" in *"stable_now_failing=0"*) ok=1;; *) ok=0;; esac
if [ "$clean_rc" = 0 ] && [ "$patched_rc" != 0 ] && [ $ok = 1 ]; then
  D=/verif/seeded/$ID-$N; mkdir -p "$D"
  cp "$PATCH" "$D/patch.diff"; cp "$SRC/${N}_demo.py" "$D/demo.py"
  /venv/bin/python - "$SRC/$N.json" "$D/meta.json" "$clean_rc" "$patched_rc" "$suite" "$(git -C /repo rev-parse --short HEAD)" <<'PY'
import json, sys
src, dst, c, p, suite, head = sys.argv[1:7]
m = json.load(open(src))
m.update({"breaks_property": m.get("property"), "confirmed": {"base_commit": head, "demo_clean_rc": int(c), "demo_patched_rc": int(p),
          "suite_with_change": suite.strip(), "how": "tools/verify_seed.sh: scratch worktree of /repo HEAD, git apply, demo before/after, bin/baseline-check (pinned suite vs BASELINE.json stable_pass)"}})
json.dump(m, open(dst, "w"), indent=1)
PY
  echo "SEED $ID $N: CONFIRMED -> $D"
else
  echo "SEED $ID $N: REJECTED"
fi
rm -f /tmp/vf.demo.$ID.$N.clean /tmp/vf.demo.$ID.$N.patched
