#!/bin/sh
# tools/sweep.sh <tier> <seed...>   run every registered check with the given seeds; print one line per non-zero exit
TIER="$1"; shift
cd "$(dirname "$0")/.."
IDS=$(/venv/bin/python -c "import json;print(' '.join(c['property_id'] for c in json.load(open('MANIFEST.json'))['checks']))")
for seed in "$@"; do
  for id in $IDS; do
    out=$(VERIF_SEED=$seed bin/check $id --tier $TIER 2>&1); rc=$?
    echo "$out" | tail -1
    if [ $rc -ne 0 ]; then echo "SWEEP-ALARM id=$id seed=$seed tier=$TIER rc=$rc"; echo "$out" | grep -e VIOLATION -e MACHINERY | head -5 | cut -c1-400; fi
  done
done
