#!/bin/sh
# tools/try_seed_copy.sh <patch.diff> <ID> [<ID>...]   run quick checks against a scratch copy of /repo/abtem with the patch applied
# (does not touch /repo; safe to run several at once).  TIER=thorough for the thorough tier, VERIF_SEED as usual.
P="$(readlink -f "$1")"; shift
D=$(mktemp -d /tmp/vf.seedcopy.XXXXXX)
cp -r /repo/abtem "$D/abtem"
( cd "$D" && patch -p1 -s < "$P" ) || { echo "patch does not apply"; rm -rf "$D"; exit 2; }
for id in "$@"; do
  out=$(cd /verif && ABTEM_REPO="$D" VF_OUT="$D" bin/check "$id" --tier "${TIER:-quick}" 2>&1); rc=$?
  echo "$out" | grep -v "^\[vf\] \(design\|validate\)" | grep -e VIOLATION -e "^\[vf\]" -e MACHINERY | cut -c1-330 | tail -5
  echo "TRY $(basename $(dirname $P))/$(basename $P) check=$id rc=$rc"
done
rm -rf "$D"
