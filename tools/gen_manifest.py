#!/usr/bin/env python3
"""Regenerate /verif/MANIFEST.json from harness/vf/registry.py and validate it against the schema."""
import json, os, subprocess, sys
ROOT = os.path.dirname(os.path.dirname(os.path.abspath(__file__)))
sys.path.insert(0, os.path.join(ROOT, "harness"))
from vf import registry

props = [json.loads(l) for l in open(os.path.join(ROOT, "properties.jsonl"))]
hooks_commits = []
hf = os.path.join(ROOT, "hooks_commits.txt")
if os.path.exists(hf):
    hooks_commits = [l.split()[0] for l in open(hf) if l.strip()]
m = {
    "version": 1,
    "setup_cmd": "bin/setup",
    "hooks": {
        "guard": "ABTEM_VERIF",
        "enable": "environment variable ABTEM_VERIF=1 (bin/check exports it; abtem/_verif.py emits nothing without it and without an installed sink)",
        "baseline_off_cmd": "cd /repo && env -u ABTEM_VERIF /venv/bin/python -m pytest -ra -q -p no:cacheprovider --timeout=900 --continue-on-collection-errors",
        "source_commits": hooks_commits,
        "add_only": True,
    },
    "engines": [
        {"name": "vf", "path": "bin/check", "serves_properties": sorted(registry.CHECKS),
         "kind_free_text": "explicit TLA+ specifications (spec/*.tla) checked with TLC; spec-generated behaviours replayed "
                           "on the real abTEM objects; recorded traces validated against the property-level specs with TLC"}
    ],
    "checks": [],
    "notes": "See DESIGN.md. known_findings.json lists recorded (unrepaired) defects and the fix: commits.",
    "not_applicable": [],
}
for p in props:
    pid = p["id"]
    if pid in registry.CHECKS:
        c = registry.CHECKS[pid]
        m["checks"].append({
            "property_id": pid,
            "quick_cmd": f"bin/check {pid} --tier quick",
            "thorough_cmd": f"bin/check {pid} --tier thorough",
            "evidence_file": f"/verif/evidence/{pid}.json",
            "replay_cmd_template": f"bin/check {pid} --replay {{path}}",
            "engine": "vf",
            "level_claimed": {"category": "model_checking", "text": c["text"], "design_ref": c["design_ref"]},
            "level_note": c["note"],
            "technique": c["technique"],
        })
    else:
        reason = registry.NOT_APPLICABLE.get(pid, "not claimed yet: the TLA+ domain for this property has not been built in this session (planned, DESIGN.md 5)")
        m["not_applicable"].append({"property_id": pid, "reason": reason})
json.dump(m, open(os.path.join(ROOT, "MANIFEST.json"), "w"), indent=1)
try:
    import jsonschema
    jsonschema.validate(m, json.load(open("/root/.vp/MANIFEST.schema.json")))
    print("MANIFEST.json valid:", len(m["checks"]), "checks,", len(m["not_applicable"]), "not_applicable")
except ImportError:
    print("jsonschema not available; wrote MANIFEST.json unvalidated")
